"""
C04  Primary keys follow id_spec, are unique, and look-ups are exact.

Model-based monitor: a reference derivation of the key of every input line (gvmon/models/C04.py, own counters) is
compared with the ids the real create_db / FeatureDB.update assign; every stored feature is looked up by key and by
Feature; generated near-miss keys must raise FeatureNotFoundError; a multi-valued id attribute reached by the spec
must make the import raise.  Runtime contract (icontract) on the real _DBCreator._increment_featuretype_autoid.
"""
import os

from gvmon import dbdump
from gvmon.gen import C04 as G
from gvmon.models import C04 as MC
from gvmon.models import dialect as MD
from gvmon.monitors import contracts

RULE = ("files of n in {1..6,8,12,20} lines (GFF3 and GTF) whose features have / lack / multiply define ID, Name, Alias "
        "(plus flags, Notes, Parents, exotic id strings such as 'exon_57') x 13 id_spec forms (None = default of the format, "
        "attribute name, ':column:', list, list ending in a column, dict of str, dict of list, six callables returning "
        "None / a string / 'autoincrement:X') x {create_db, create_db + update} x {:memory:, file, reopened file} x GTF "
        "inference on/off; non-trivial = >= 2 different derivation branches taken in one file (or a rejected multi-valued "
        "id); distinct = distinct (format, spec, path, file content)")
REQUIRED = ["imports", "keys compared with the reference derivation", "lookups db[key]", "lookups db[feature]",
            "absent keys probed", "multi-valued id rejected", "autoid contract evaluations", "update() imports"]
REQUIRED_CLASSES = ["fmt=gff3", "fmt=gtf"] + ["form=" + f for f in G.FORMS] + [
    "branch=attribute#0", "branch=attribute#1", "branch=column", "branch=fallback", "branch=dict:no entry->fallback",
    "branch=dict:entry absent->fallback", "branch=callable:None->fallback", "branch=callable:autoincrement",
    "branch=callable:string", "branch=multi-valued->reject"]
ASSUMPTIONS = [
    "inputs on which the derived keys collide are not judged (the key would then be altered by the merge strategy, "
    "which is C05's subject); they are skipped and counted",
    "a listed id attribute that is present without any value is not generated (the statement does not say whether it "
    "counts as present); an empty dict/list/string id_spec is not generated (indistinguishable from 'not given')",
    "'n counting 1,2,... in input order' continues across create_db and a later update() of the same database",
    "features inferred by the GTF importer (source gffutils_derived) are looked up but their keys are judged by C03",
    "the callables are pure functions of the feature; both sides call the same function, so only the importer's use of "
    "the returned value is judged",
]
QUICK_SHARDS = 4
THOROUGH_SHARDS = 16


def setup(ctx):
    contracts.install_all()
    contracts.install_autoid()


def point(fmt):
    if fmt == "gtf":
        return {"fmt": "gtf", "sep": "; ", "trailing": True, "repeated": False}
    return {"fmt": "gff3", "sep": ";", "trailing": False, "repeated": False}


def real_spec(spec):
    """The object handed to gffutils for a spec description."""
    form = spec["form"]
    if form == "none":
        return None
    if form in ("str", "list"):
        return spec["v"] if form == "str" else list(spec["v"])
    if form == "dict":
        return dict((k, (v if isinstance(v, str) else list(v))) for k, v in spec["v"].items())
    fn = MC.CALLABLES[spec["v"]]

    def id_callable(f):
        view = {c: getattr(f, c) for c in MC.COLUMNS}
        view["attrs"] = dict((k, list(f.attributes[k])) for k in f.attributes.keys())
        return fn(view)

    return id_callable


def text_of(recs, fmt):
    D = point(fmt)
    return "\n".join(MD.render_line(r, D) for r in recs) + "\n"


def execute(ctx, case):
    import gffutils

    fmt, spec = case["fmt"], case["spec"]
    batches = case["batches"]
    # ---- reference derivation, batch by batch, one set of counters
    deriver = None
    plan = []
    for b in batches:
        r = MC.derive_all(spec, fmt, b, deriver)
        deriver = r["deriver"]
        plan.append(r)
        if r["outcome"] != "keys":
            break
    if any(r["outcome"] == "silent" for r in plan):
        ctx.skip("statement silent: " + [r["why"] for r in plan if r["outcome"] == "silent"][0].split("'")[0])
        return None
    allkeys = [k for r in plan if r["outcome"] == "keys" for k in r["keys"]]
    if len(set(allkeys)) != len(allkeys):
        ctx.skip("derived keys collide (merge strategy decides: C05)")
        return None
    branches = [b for r in plan for b in r["branches"]]

    dbfn = ctx.tmp(".db") if case["db"] == "file" else ":memory:"
    made = []
    kw = {}
    if spec["form"] != "none":
        kw["id_spec"] = real_spec(spec)
    if fmt == "gtf" and not case["infer"]:
        kw.update(disable_infer_genes=True, disable_infer_transcripts=True)
    db = None
    try:
        expected, recs_so_far = [], []
        for bi, (b, r) in enumerate(zip(batches, plan)):
            text = text_of(b, fmt)
            if case["input"] == "path":
                src = ctx.tmp(".gff" if fmt == "gff3" else ".gtf")
                with open(src, "w", encoding="utf-8", newline="") as fh:
                    fh.write(text)
                made.append(src)
                data, from_string = src, False
            else:
                data, from_string = text, True
            try:
                if bi == 0:
                    db = gffutils.create_db(data, dbfn, from_string=from_string, **kw)
                    ctx.mon("imports")
                else:
                    db.update(data, from_string=from_string, make_backup=False, merge_strategy="error", **kw)
                    ctx.mon("update() imports")
            except Exception as ex:
                if r["outcome"] == "reject":
                    ctx.mon("multi-valued id rejected")
                    break
                ctx.violation(case, {"why": "%s raised %r on an input whose keys are all distinct" % (
                    "create_db" if bi == 0 else "update", ex), "expected keys": r["keys"], "text": text})
                contracts.drain()
                return branches
            if bi == 0 and db.dialect["fmt"] != fmt:
                ctx.skip("harness: file not routed to the %s importer" % fmt)
                return None
            if r["outcome"] == "reject":
                stored = [f["id"] for f in dbdump.dump_db(db)["features"]]
                ctx.violation(case, {"why": "multi-valued id attribute accepted instead of rejected (%s)" % r["why"],
                                     "stored ids": stored[-8:], "text": text})
                contracts.drain()
                return branches
            expected += r["keys"]
            recs_so_far += b
            if not compare(ctx, case, db, expected, recs_so_far, branches, deriver, "after %s" % ("create_db" if bi == 0 else "update")):
                contracts.drain()
                return branches
        else:
            if case["db"] == "file" and case["reopen"] and db is not None:
                db.conn.close()
                db = gffutils.FeatureDB(dbfn)
                ctx.mon("reopened databases")
                compare(ctx, case, db, expected, recs_so_far, branches, deriver, "after reopen")
    finally:
        try:
            if db is not None:
                db.conn.close()
        except Exception:
            pass
        for p in made + [dbfn]:
            if p != ":memory:" and os.path.exists(p):
                os.unlink(p)
    for v in contracts.drain():
        ctx.violation(case, v)
    return branches


def compare(ctx, case, db, expected, recs, branches, deriver, what):
    import gffutils

    dump = dbdump.dump_db(db)
    rows = [f for f in dump["features"] if f["source"] != "gffutils_derived"]
    text = text_of(recs, case["fmt"])
    if len(rows) != len(recs):
        ctx.violation(case, {"why": "%s: %d features stored for %d input lines" % (what, len(rows), len(recs)),
                             "ids": [f["id"] for f in rows][:30], "text": text})
        return False
    ids = [f["id"] for f in dump["features"]]
    if len(set(ids)) != len(ids):
        ctx.violation(case, {"why": "%s: two features under one key" % what, "ids": ids[:30], "text": text})
        return False
    for i, (row, rec, exp) in enumerate(zip(rows, recs, expected)):
        ctx.mon("keys compared with the reference derivation")
        same_line = (row["seqid"] == rec["seqid"] and row["featuretype"] == rec["featuretype"]
                     and str(row["start"]) == rec["start"] and str(row["end"]) == rec["end"])
        if not same_line:
            ctx.violation(case, {"why": "%s: stored feature %d is not input line %d" % (what, i, i), "row": row, "text": text})
            return False
        if row["id"] != exp:
            ctx.violation(case, {"why": "%s: key differs from what id_spec dictates" % what, "line": i, "got": row["id"],
                                 "expected": exp, "branch": branches[i] if i < len(branches) else None,
                                 "spec": case["spec"], "text": text})
            return False
    # ---- look-ups: every stored feature (derived ones included), by key and by Feature
    try:
        feats = list(db.all_features())
    except Exception as ex:
        ctx.violation(case, {"why": "%s: all_features raised %r" % (what, ex), "text": text})
        return False
    if sorted(f.id for f in feats) != sorted(ids):
        ctx.violation(case, {"why": "%s: Feature.id values differ from the id column" % what, "text": text})
        return False
    byid = dict((row["id"], rec) for row, rec in zip(rows, recs))
    for f in feats:
        for how, arg in (("db[key]", f.id), ("db[feature]", f)):
            ctx.mon("lookups " + how)
            try:
                g = db[arg]
            except Exception as ex:
                ctx.violation(case, {"why": "%s: %s raised %r for a stored key" % (what, how, ex), "key": f.id, "text": text})
                return False
            if g is None or getattr(g, "id", None) != f.id or str(g) != str(f) or type(g.id) is not str:
                ctx.violation(case, {"why": "%s: %s does not return the feature stored under the key" % (what, how),
                                     "key": f.id, "got": None if g is None else [getattr(g, "id", None), str(g)],
                                     "stored": str(f), "text": text})
                return False
            rec = byid.get(f.id)
            if rec is not None:
                gattrs = dict((k, list(g.attributes[k])) for k in g.attributes.keys())
                if (g.seqid, g.source, g.featuretype, str(g.start), str(g.end), g.score, g.strand, g.frame) != tuple(
                        rec[c] for c in MC.COLUMNS) or gattrs != MC.attrs_of(rec):
                    ctx.violation(case, {"why": "%s: %s returns a feature that is not the input line with that key" % (what, how),
                                         "key": f.id, "got": str(g), "line": MD.render_line(rec, point(case["fmt"]))})
                    return False
    # ---- absent keys: near misses of the stored keys and of the counters
    stored = set(ids)
    probes = []
    sample = ids if len(ids) <= 6 else ids[:3] + ids[-3:]
    for k in sample:
        probes += [k + "x", k[:-1], k + "_1", k + " ", " " + k, k.swapcase(), k + "_0", "_" + k]
    for base, n in sorted(deriver.counters.items()):
        probes += ["%s_%d" % (base, n + 1), "%s_0" % base, "%s_%02d" % (base, n), "%s-%d" % (base, n), base]
    probes += ["exon_0", "", "ID", "None", "%", "_"]
    for k in dict.fromkeys(probes):
        if k in stored:
            continue
        for how in ("key", "feature"):
            arg = k if how == "key" else gffutils.Feature(seqid="chr1", start=1, end=2, id=k)
            ctx.mon("absent keys probed")
            try:
                got = db[arg]
            except gffutils.FeatureNotFoundError:
                ctx.mon("FeatureNotFoundError observed")
                continue
            except Exception as ex:
                ctx.violation(case, {"why": "%s: absent %s raises %s instead of FeatureNotFoundError" % (what, how, type(ex).__name__),
                                     "key": k, "stored": sorted(stored)[:20]})
                return False
            ctx.violation(case, {"why": "%s: absent %s does not raise FeatureNotFoundError" % (what, how), "key": k,
                                 "returned": None if got is None else str(got), "stored": sorted(stored)[:20]})
            return False
    return True


def run(ctx):
    rng = ctx.rng
    for _ in range(ctx.budget(3600, 64000)):
        case = G.gen_case(rng)
        branches = execute(ctx, case)
        if branches is None:
            continue
        kinds = sorted(set(branches))
        outcome = "reject" if "multi-valued->reject" in kinds else "keys"
        for cls in ["fmt=" + case["fmt"], "form=" + case["form"], "outcome=" + outcome, "path=" + (
                "create" if len(case["batches"]) == 1 else "create+update"), "db=" + case["db"]] + ["branch=" + b for b in kinds]:
            ctx.classes[cls] += 1
        if case["fmt"] == "gtf":
            ctx.classes["gtf inference " + ("on" if case["infer"] else "off")] += 1
        text = "".join(text_of(b, case["fmt"]) for b in case["batches"])
        ctx.case((case["fmt"], case["spec"], len(case["batches"]), case["infer"], text), len(kinds) >= 2 or outcome == "reject",
                 sample={"fmt": case["fmt"], "spec": case["spec"], "branches": kinds, "text": text[:500]})
    ctx.mon("autoid contract evaluations", contracts.EVALS["autoid"])
    ctx.mon("bins.bins contract evaluations", contracts.EVALS["bins.bins"])


MANIFEST = {
    "technique": "reference key derivation (own counters) vs real create_db/update; exhaustive look-up of stored keys; "
                 "generated near-miss keys; icontract postcondition on _increment_featuretype_autoid",
    "text": "Each generated annotation is imported by the real create_db (GFF3 and GTF importers, optionally followed by "
            "FeatureDB.update) under one of 13 id_spec forms. The id column (read with plain sqlite3) is compared line by "
            "line with a reference derivation written from the statement; every stored feature is fetched with db[key] "
            "and db[feature] and must be that feature; generated near-miss keys must raise FeatureNotFoundError and "
            "nothing else; a multi-valued id attribute reached by the spec must make the import raise. A runtime "
            "contract on the real counter function checks +1 per call and no key handed out twice per import.",
    "note": "Trusted: gvmon/models/C04.py, the reference renderer, icontract. Inputs whose derived keys collide are "
            "skipped (C05 judges them).",
}
