"""
C04  Primary keys follow id_spec, are unique, and look-ups are exact.

Model-based monitor: a reference derivation of the key of every input line (gvmon/models/C04.py, own counters) is
compared with the ids the real create_db / FeatureDB.update assign; every stored feature is looked up by key and by
Feature; generated near-miss keys must raise FeatureNotFoundError; a multi-valued id attribute reached by the spec
must make the import raise.  Runtime contract (icontract) on the real _DBCreator._increment_featuretype_autoid.

Case kinds: "collide" (an import in which equal id values are expected to collide under "strategy"), "import" (optionally
with "spec2" = the id_spec of the update() calls, "special"/"absent" = special-looking attribute values, optionally with "keys" = non-default [gtf_transcript_key, gtf_gene_key] under id_spec None, or with
"family"/"probe" = confusable spellings of the stored ids) and "stale" (Feature handles fetched before delete / update /
replace, and handles from another database, looked up again; see execute_stale), "autoclash" (an explicit id that spells
the '<base>_<k>' key of a later / earlier auto-numbered feature: the two collide under "strategy"; see execute_autoclash) and
"dbcopy" (create_db(data=<FeatureDB built under "spec1" with history "ops">, id_spec="spec"), optionally followed by an
update() of the copy with "later"; see execute_dbcopy).  An "import" case may carry "objects" = {"as": "list" | "iter",
"holders": per batch, per line, per attribute "list" | "tuple" | "listsub"}: the lines are then handed to create_db / update() as
gffutils Feature objects whose attribute values sit in those sequence types instead of being parsed from text.  It may carry
"preexisting" = {"recs": lines of an earlier, unrelated import, "force": bool}: the target path already holds a gffutils database.
"""
import collections
import os

from gvmon import dbdump
from gvmon.gen import C04 as G
from gvmon.models import C04 as MC
from gvmon.models import dialect as MD
from gvmon.monitors import contracts

RULE = ("files of n in {1..6,8,12,20} lines (GFF3 and GTF) whose features have / lack / multiply define ID, Name, Alias "
        "(plus flags, Notes, Parents, exotic id strings such as 'exon_57') x 13 id_spec forms (None = default of the format, "
        "attribute name, ':column:', list, list ending in a column, dict of str, dict of list, six callables returning "
        "None / a string / 'autoincrement:X') x {create_db, create_db + update} x {:memory:, file, reopened file} x GTF "
        "inference on/off. Plus: (keys) GTF files imported with id_spec None and non-default gtf_transcript_key/gtf_gene_key "
        "(lines carry gene_id/transcript_id and/or the custom keys, with different values); (confusable) files whose ids "
        "differ only in letter case, in leading/trailing/inner blanks, are numeric-looking ('1', '01', '1.0', '1e3') or "
        "contain '%' / '_', the unused members of the family being probed as absent keys; (stale/foreign handles) Feature "
        "objects fetched earlier are looked up again after delete (highest rowid / middle / first), update() (rowids "
        "reused) and replace, through the same or a second FeatureDB on the file, and Features read from another database "
        "holding the same ids at other positions are looked up; (special-looking values) id-supplying attributes (ID, Name, Alias, "
        "gene_id, transcript_id) whose text is 'autoincrement:tx', 'autoincrement:', ':seqid:', ... resolved through default / "
        "string / list / dict / dict-subclass specs (the text is the key) and through callables that return the attribute text "
        "(there 'autoincrement:X' means X_n), children naming them as Parent, what an interpretation would give probed as "
        "absent, two or three features with the same such value under merge_strategy 'error' / 'create_unique'; (dict "
        "subclasses) defaultdict, a subclass with __missing__, OrderedDict, a plain subclass and a subclass with an aliasing "
        "__getitem__/get/__contains__ as id_spec, in create_db and/or only in update(id_spec=...); (successive updates) 2-4 "
        "update() calls in a row through ONE FeatureDB object (create_db's or a freshly opened one; sometimes reopened in "
        "between, for contrast), each adding features that mostly lack the id attribute, after a first import that auto-numbered "
        "nothing (every feature had its id attribute: empty autoincrements table) or that already handed out counters, under "
        "each of the five merge strategies (all keys distinct: nothing may collide, be overwritten or merged into); (keys of "
        "other types) after every import each sampled stored key is looked up as a str-subclass instance (must find it), as "
        "bytes in utf-8 / latin-1 / utf-16 through the handle under test and through second handles opened with "
        "default_encoding latin-1 (confusable families: also utf-8) (absent: FeatureNotFoundError), and - numeric-looking keys - as int (either "
        "FeatureNotFoundError or the feature stored under str(int)); ids of an 'encoding' family ('\u00e9', '\u00c3\u00a9', ...) make the "
        "bytes of one key decode to another stored key; (force_gff) GTF-looking files (85%; gene/transcript lines carrying gene_id / "
        "transcript_id, some ids repeated, with or without an ID attribute) and GFF3 files imported with force_gff=True under "
        "id_spec None (3 of 8: the default of the format actually used - the GFF one: ID, else '<featuretype>_<n>') and under "
        "string / list / dict / callable specs, with and without the disable_infer_* flags; (tuples) dict id_spec whose "
        "per-featuretype entries are tuples of names - all of them, or tuples beside lists and strings, one-element tuples, in plain "
        "dicts, OrderedDict and a dict subclass - and a whole id_spec given as a tuple (also ending in a ':column:'), on features "
        "that have / lack / multiply define the listed attributes; (autoclash) files in which a feature's explicit id (attribute value, "
        "gene_id / transcript_id under the GTF default, a callable's string) reads exactly '<base>_<k>' where the k-th feature of that base "
        "that has to be auto-numbered ('<featuretype>_<n>', or X_n of a callable returning 'autoincrement:X') gets that very key by the rule, "
        "the explicit one placed before (80%) or after it, one or two such pairs per file, under none / str / list / dict / partial-dict / "
        "callable specs x all five merge strategies x {one create_db, explicit id already stored and the anonymous features arriving "
        "through update()}; (dbcopy) create_db(data=<FeatureDB>, id_spec=S) where the source database was built under ANOTHER id_spec "
        "(Name, 'nokey', ':start:' / ':end:', list, dict, six callables, or the default) and / or had features deleted (mostly ones it "
        "auto-numbered: holes) and / or features added by update() before the copy, S = None / str / ':column:' / list / dict (also "
        "OrderedDict, subclass) / callable, copy into :memory: or a file, source :memory: / file / reopened file, optionally followed by "
        "an update() of the copy with mostly anonymous features; (feature objects) the same files handed to create_db / update() as a list "
        "or an iterator of gffutils Feature objects (GFF3, and GTF through the Feature's dialect) whose attribute values are held in lists, "
        "tuples and list-subclass instances (all of one kind, or mixed per attribute), single- and multi-valued, under every id_spec form; "
        "(occupied path) create_db to a file path that already holds a gffutils database made from 1-5 other lines, with force=True and "
        "without force. "
        "non-trivial = >= 2 different derivation branches taken in "
        "one file (or a rejected multi-valued id), or a handle whose position holds another id; distinct = distinct "
        "(format, spec, path, file content, script)")
REQUIRED = ["imports", "keys compared with the reference derivation", "lookups db[key]", "lookups db[feature]",
            "absent keys probed", "multi-valued id rejected", "autoid contract evaluations", "update() imports",
            "keys compared: GTF, id_spec None, non-default gtf keys", "confusable stored keys looked up",
            "confusable absent keys probed", "stale handles looked up", "stale handles whose position now holds another id",
            "stale handles whose id is gone: FeatureNotFoundError", "stale handles of a replaced feature: current content returned",
            "foreign handles looked up", "foreign handles sitting at another position",
            # attribute values that look like a callable's special return values
            "attribute value that looks like a callable's special return value is the key",
            "attribute text 'autoincrement:X' returned by a callable: X_n",
            "absent keys probed: what a special-looking value would give if it were interpreted",
            "children of special-looking keys compared (non-empty)",
            "equal special-looking id values collide: 'error' aborts",
            "equal special-looking id values collide: create_unique files '<key>_n'",
            # dict subclasses
            "dict defaultdict: default_factory", "dict defaultdict: item", "dict missing: __missing__",
            "dict missing: __missing__ raised KeyError", "dict ordered: item", "dict ordered: no item", "dict subclass: item",
            "dict getitem: aliasing __getitem__", "update(id_spec=...) under another id_spec than create_db",
            # several update() calls in a row through one FeatureDB object
            "successive: 2nd or later update() through the same FeatureDB object",
            "successive: 2nd or later update() through an object opened while the autoincrements table was empty",
            "successive: auto-numbered keys, 2nd or later update(), object opened on an empty autoincrements table",
            "successive: 2nd or later update() through an object opened on a database that had counters",
            "successive: handle reopened between two update() calls",
            "successive: sequences completed with every key as id_spec dictates",
            # keys of other types
            "str-subclass keys spelling a stored key looked up", "bytes keys spelling a stored key probed",
            "bytes keys: FeatureNotFoundError", "bytes keys probed through a handle with default_encoding latin-1",
            "bytes keys whose decoding under the handle's default_encoding is ANOTHER stored key",
            "int keys for numeric-looking stored keys probed",
            # format-forcing option
            "force_gff: imports of GTF-looking input with id_spec None",
            "force_gff: keys compared, GTF-looking input, id_spec None",
            "force_gff: gene/transcript lines carrying gene_id/transcript_id and no ID keyed '<featuretype>_<n>' (id_spec None)",
            "force_gff: lines of GTF-looking input keyed by their ID attribute (id_spec None)",
            "force_gff: keys compared, GTF-looking input, explicit id_spec",
            # tuples of names
            "tuple entries: imports under a dict id_spec with tuple entries",
            "tuple entries: keys taken from the first listed attribute that is present",
            "tuple entries: keys taken from the 2nd or later name of a tuple (earlier ones absent)",
            "tuple entries: no listed attribute present -> '<featuretype>_<n>'",
            "tuple entries: multi-valued id attribute named in a tuple rejected",
            # explicit ids that spell an auto-numbered key
            "autoclash: explicit id placed BEFORE the auto-numbered feature it collides with",
            "autoclash: explicit id arriving AFTER the auto-numbered feature it collides with",
            "autoclash: 'error' refuses the import (create_db)",
            "autoclash: 'error' refuses the import (update(), explicit id already stored)",
            "autoclash: create_unique decided a collision between an explicit id and an auto-numbered key",
            "autoclash: warning decided a collision between an explicit id and an auto-numbered key",
            "autoclash: replace decided a collision between an explicit id and an auto-numbered key",
            "autoclash: merge files the newcomer under a fresh '<key>_n'",
            "autoclash: update() variant, explicit id already stored, anonymous features reach its number",
            "autoclash: auto-numbered keys AFTER a collision compared (numbering went on without skipping)",
            "autoclash: the colliding key was made by a callable's 'autoincrement:X'",
            "autoclash: keys compared", "autoclash: absent keys probed (next number of each counter, '<key>_n' of colliding keys)",
            # FeatureDB as data
            "dbcopy: create_db(data=<FeatureDB>) imports", "dbcopy: keys compared",
            "dbcopy: features whose key by the new id_spec differs from their key in the source database",
            "dbcopy: '<featuretype>_<n>' keys of features that were stored under another key in the source database",
            "dbcopy: features deleted from the source before the copy",
            "dbcopy: update() of the copy, numbering goes on from the copy's own count",
            "dbcopy: auto-numbered keys handed out by update() of the copy",
            "dbcopy: copies completed with every key as the new id_spec dictates",
            # Feature objects as data
            "objects: imports of Feature objects", "objects: update() with Feature objects", "objects: keys compared",
            "objects: key is the single value of an attribute held in a tuple",
            "objects: key is the single value of an attribute held in a list-subclass instance",
            "objects: multi-valued id attribute held in a tuple rejected",
            "objects: multi-valued id attribute held in a list-subclass instance rejected",
            "objects: multi-valued id attribute held in a list rejected",
            "objects: imports completed with every key as id_spec dictates",
            # target path already holds a database
            "occupied path: create_db to a path that already holds a gffutils database",
            "occupied path: force=True, the database holds exactly the imported features under the keys id_spec dictates",
            "occupied path: without force, create_db refused"]
REQUIRED_CLASSES = ["fmt=gff3", "fmt=gtf"] + ["form=" + f for f in G.FORMS] + ["form=confusable"] + [
    "branch=attribute#0", "branch=attribute#1", "branch=column", "branch=fallback", "branch=dict:no entry->fallback",
    "branch=dict:entry absent->fallback", "branch=callable:None->fallback", "branch=callable:autoincrement",
    "branch=callable:string", "branch=multi-valued->reject", "gtf: id_spec None with non-default gtf keys",
    "confusable=case", "confusable=blank", "confusable=numeric", "confusable=like", "stale: changed through the same handle",
    "stale: changed through another handle", "stale op=delete top", "stale op=update", "stale op=replace"] + [
    "form=dict-subclass:" + c for c in G.DICT_CLASSES] + ["form=special:" + f for f in G.SPECIAL_FORMS] + [
    "dict id_spec class=" + c for c in G.DICT_CLASSES] + ["update(id_spec=...) differs from create_db's id_spec",
    "equal id values: strategy=error", "equal id values: strategy=create_unique", "confusable=encoding",
    "successive: first import auto-numbered nothing", "successive: first import handed out counters"] + [
    "successive: strategy=" + st for st in G.STRATEGIES] + [
    "force_gff: GTF-looking input", "force_gff: GFF3 input", "force_gff: id_spec None", "force_gff: explicit id_spec",
    "form=dict-tuple", "form=tuple", "tuple entries: tuples beside lists / strings in one dict", "tuple entries: every entry a tuple"] + [
    "autoclash: strategy=" + st for st in G.AUTOCLASH_STRATEGIES] + ["autoclash: create_db", "autoclash: create_db + update()"] + [
    "autoclash: form=" + f for f in G.AUTOCLASH_FORMS] + ["dbcopy: source history=" + h for h in sorted(set(G.DBCOPY_HISTORIES))] + [
    "dbcopy: source id_spec form=" + f for f in sorted(set(G.DBCOPY_SRC_FORMS))] + ["dbcopy: form=" + f for f in sorted(set(G.DBCOPY_FORMS))] + [
    "dbcopy: branch=fallback", "dbcopy: branch=attribute#0", "dbcopy: branch=dict:no entry->fallback", "dbcopy: branch=callable:None->fallback"] + [
    "objects: holders=" + h for h in ("list", "tuple", "listsub", "mixed")] + ["objects: fmt=gff3", "objects: fmt=gtf", "objects: data=list",
    "objects: data=iter", "objects: outcome=reject", "objects: outcome=keys", "occupied path: force=True", "occupied path: no force"]
ASSUMPTIONS = [
    "inputs on which the derived keys collide are not judged (the key would then be altered by the merge strategy, "
    "which is C05's subject); they are skipped and counted",
    "a listed id attribute that is present without any value is not generated (the statement does not say whether it "
    "counts as present); an empty dict/list/string id_spec is not generated (indistinguishable from 'not given')",
    "'n counting 1,2,... in input order' continues across create_db and a later update() of the same database",
    "features inferred by the GTF importer (source gffutils_derived) are looked up but their keys are judged by C03",
    "the callables are pure functions of the feature; both sides call the same function, so only the importer's use of "
    "the returned value is judged",
    "GTF with id_spec None: the default id_spec of the format ('gene' -> gene_id, 'transcript' -> transcript_id, every other "
    "featuretype '<featuretype>_<n>') applies whatever gtf_transcript_key / gtf_gene_key are; update() is called without the "
    "two keys (inference off there)",
    "db[feature] means db[feature.id]: a Feature fetched earlier or from another database is only a carrier of its id; "
    "what is stored under an id after delete/update/replace is read with plain sqlite3 (not predicted), and an update() "
    "that raises on these inputs is skipped and counted",
    "only the return value of a callable has the 'autoincrement:X' meaning; an attribute value is text and is the key; a "
    "feature naming a stored key as Parent is a level-1 child of it (gff3)",
    "the per-featuretype entry of a dict id_spec is what the object gives for d[featuretype] (items, default_factory, "
    "__missing__, an overriding __getitem__ kept consistent with get/__contains__); KeyError means no entry. A default_factory "
    "/ __missing__ that returns None or '' is not generated",
    "features whose keys by id_spec are equal collide as the statement of C05 says: 'error' aborts, 'create_unique' files the "
    "later ones under '<key>_1', '<key>_2' (skipped when that name is the key of another feature)",
    "update(id_spec=...) may differ from create_db's id_spec: each batch is keyed by the id_spec of its call, the "
    "'<featuretype>_<n>' counters go on",
    "the counters go on across any number of update() calls, whichever FeatureDB object makes them; when all keys are distinct "
    "the merge strategy has nothing to decide, so the stored features are exactly the input lines under every strategy",
    "keys are text: a str-subclass instance spelling a stored key is that key; a bytes object (in whatever encoding, through a "
    "handle of whatever default_encoding) is not a stored key, hence absent -> FeatureNotFoundError; the statement does not say "
    "whether an int spells the decimal text: db[12] may raise FeatureNotFoundError or return the feature stored under '12', "
    "never one stored under another key ('012', '12.0')",
    "force_gff=True imports the file through the GFF importer whatever it looks like: 'None/default per format' is then the "
    "default of the format actually used ('ID', every line without an ID attribute '<featuretype>_<n>'), gene_id / transcript_id "
    "are ordinary attributes; an explicit id_spec means what it says; update() after such an import of GTF-looking input is not "
    "generated (which format's default applies there is not stated).  This tree has no force_gtf option (create_db(..., "
    "force_gtf=True) raises TypeError 'unhandled kwarg'): GFF3-looking input forced through the GTF importer is not generated",
    "a per-featuretype entry of a dict id_spec (or the whole id_spec) given as a tuple of names means what the list of the same "
    "names means (documented 'list or tuple'): first listed attribute that is present, a listed multi-valued one rejected",
    "(autoclash) n counts 1,2,... per base in input order whatever ids are spelled out in the input or already stored, so an explicit id "
    "'<base>_<k>' and the k-th auto-numbered feature of that base have EQUAL keys; keys are unique, hence they collide as the statement of "
    "C05 says: 'error' -> the import raises (any exception; whether it names the duplicate is only counted), 'warning' -> first kept, "
    "'replace' -> last kept, 'create_unique' -> later one under '<key>_1' (skipped when that name is another feature's key), 'merge' -> the "
    "two lines differ in start/end, so the newcomer is filed under '<key>_n' for any n.  What an update() that raised leaves behind is not judged",
    "(dbcopy) a FeatureDB given as data is a sequence of features like any other input: its features arrive in the order the source iterates "
    "them (obtained by listing source.all_features() right before the copy - an assumption, not predicted), a feature of the source is "
    "identified with its input line by (start, end), and the key each had in the source plays no part; the copy's later update() counts on "
    "from the copy's own numbers.  Building the source (create_db / delete / update) is not this class's subject: if it raises the case is "
    "skipped and counted",
    "(feature objects) a Feature object given as data is an input feature like a parsed line: its attributes are what its attribute mapping "
    "holds, and 'an id attribute carrying several values' is one whose value sequence (list, tuple or list subclass - the documented "
    "'list of values', whatever sequence holds them) has more than one item; a one-item sequence is a single value and is the key.  Bare "
    "strings as attribute values are not generated (one value or a sequence of characters: not stated); GTF features carry the GTF dialect "
    "and are imported with inference off",
    "(occupied path) the database create_db returns is the database of the features it imported: every one under the key id_spec dictates "
    "('<featuretype>_<n>' counting from 1), nothing else stored (any other key is absent).  What create_db does when the path is occupied and "
    "force is not given is not stated: raising (any exception) is accepted; if it returns a database, that database is judged like any other",
]
QUICK_SHARDS = 4
THOROUGH_SHARDS = 16


def setup(ctx):
    contracts.install_all()
    contracts.install_autoid()


def point(fmt):
    if fmt == "gtf":
        return {"fmt": "gtf", "sep": "; ", "trailing": True, "repeated": False}
    return {"fmt": "gff3", "sep": ";", "trailing": False, "repeated": False}


class _PlainSubclass(dict):
    pass


class _WithMissing(dict):
    """Explicit items first, then a rule for some other featuretypes; KeyError for the rest."""

    def __init__(self, computed, items):
        dict.__init__(self, items)
        self._computed = computed

    def __missing__(self, featuretype):
        if featuretype in self._computed:
            return self._computed[featuretype]
        raise KeyError(featuretype)


class _Aliasing(dict):
    """Every way of asking (d[k], d.get(k), k in d) goes through the alias table first."""

    def __init__(self, alias, items):
        dict.__init__(self, items)
        self._alias = alias

    def __getitem__(self, k):
        return dict.__getitem__(self, self._alias.get(k, k))

    def get(self, k, default=None):
        k = self._alias.get(k, k)
        return dict.__getitem__(self, k) if dict.__contains__(self, k) else default

    def __contains__(self, k):
        return dict.__contains__(self, self._alias.get(k, k))


def real_spec(spec):
    """The object handed to gffutils for a spec description."""
    form = spec["form"]
    if form == "none":
        return None
    if form in ("str", "list"):
        return spec["v"] if form == "str" else (tuple(spec["v"]) if spec.get("seq") == "tuple" else list(spec["v"]))
    if form == "dict":
        ent = lambda v: v if isinstance(v, str) else list(v)
        tuples = set(spec.get("tuples") or ())
        items = [(k, tuple(v) if k in tuples and not isinstance(v, str) else ent(v)) for k, v in spec["v"].items()]
        cls = spec.get("cls") or "dict"
        if cls == "dict":
            return dict(items)
        if cls == "ordered":
            return collections.OrderedDict(items)
        if cls == "subclass":
            return _PlainSubclass(items)
        if cls == "defaultdict":
            default = spec["default"]
            return collections.defaultdict(lambda: ent(default), items)
        if cls == "missing":
            return _WithMissing(dict((k, ent(v)) for k, v in (spec.get("missing") or {}).items()), items)
        if cls == "getitem":
            return _Aliasing(dict(spec.get("alias") or {}), items)
        raise ValueError(cls)
    fn = MC.CALLABLES[spec["v"]]

    def id_callable(f):
        view = {c: getattr(f, c) for c in MC.COLUMNS}
        view["attrs"] = dict((k, list(f.attributes[k])) for k in f.attributes.keys())
        return fn(view)

    return id_callable


def text_of(recs, fmt):
    D = point(fmt)
    return "\n".join(MD.render_line(r, D) for r in recs) + "\n"


class _ListSub(list):
    """A list subclass: an instance IS a list of values."""


_HOLDERS = {"list": list, "tuple": tuple, "listsub": _ListSub}
_ID_ATTRS = ("ID", "Name", "Alias", "gene_id", "transcript_id")


def features_of(recs, holders, fmt):
    """The records as gffutils Feature objects; the values of attribute j of line i sit in a _HOLDERS[holders[i][j]]."""
    import gffutils
    from gffutils import constants

    dialect = None
    if fmt == "gtf":
        dialect = dict(constants.dialect)
        dialect["fmt"] = "gtf"
    out = []
    for rec, hs in zip(recs, holders):
        attrs = dict((k, _HOLDERS[h](list(v))) for (k, v), h in zip(rec["attrs"], hs))
        if len(attrs) != len(rec["attrs"]) or len(hs) != len(rec["attrs"]):
            raise AssertionError("harness: repeated attribute key / holders do not match the attributes")
        kw = {"dialect": dialect} if dialect else {}
        out.append(gffutils.Feature(seqid=rec["seqid"], source=rec["source"], featuretype=rec["featuretype"], start=int(rec["start"]),
                                    end=int(rec["end"]), score=rec["score"], strand=rec["strand"], frame=rec["frame"], attributes=attrs, **kw))
    return out


def gen_objects_case(rng, style=None):
    """An ordinary import case whose lines are handed over as Feature objects; about half get one more multi-valued id attribute."""
    case = G.gen_case(rng)
    case["infer"] = False
    case["input"] = "string"
    flat = [rec for b in case["batches"] for rec in b]
    if rng.random() < 0.5:
        rec = rng.choice(flat)
        cands = [a for a in rec["attrs"] if a[0] in _ID_ATTRS and len(a[1]) == 1]
        if cands:
            a = rng.choice(cands)
            v = a[1][0]
            a[1] = [v + "a", v + "b"] if rng.random() < 0.7 else [v, v + "b", v + "c"]
    style = style or rng.choice(["tuple", "tuple", "listsub", "mixed", "mixed", "list"])
    holders = []
    for b in case["batches"]:
        holders.append([[style if style != "mixed" else rng.choice(["list", "tuple", "tuple", "listsub"]) for _ in rec["attrs"]] for rec in b])
    case["objects"] = {"as": rng.choice(["list", "iter"]), "style": style, "holders": holders}
    return case


def gen_occupied_case(rng, force=None):
    """An ordinary import case into a file path that already holds the database of 1-5 other lines (default id_spec)."""
    case = G.gen_case(rng)
    case["db"] = "file"
    case["preexisting"] = {"recs": G.records(rng, case["fmt"], rng.choice([1, 2, 3, 5]), 0.0),
                           "force": (rng.random() < 0.5) if force is None else force}
    return case


def execute(ctx, case):
    import gffutils

    if case.get("kind") == "stale":
        return execute_stale(ctx, case)
    if case.get("kind") == "autoclash":
        return execute_autoclash(ctx, case)
    if case.get("kind") == "dbcopy":
        return execute_dbcopy(ctx, case)
    fmt, spec = case["fmt"], case["spec"]
    # the format actually used for the import: force_gff routes whatever the file looks like to the GFF importer
    ufmt = "gff3" if case.get("force") == "gff" else fmt
    if case.get("force") not in (None, "gff"):
        raise AssertionError("harness: unknown format-forcing option %r" % (case["force"],))
    batches = case["batches"]
    collide = case.get("kind") == "collide"
    strategy = case["strategy"] if collide else (case.get("ustrategy") or "error")
    successive = bool(case.get("ustrategy"))
    # ---- reference derivation, batch by batch, one set of counters
    deriver = None
    plan = []
    for bi, b in enumerate(batches):
        if bi >= 1 and case.get("spec2"):
            deriver.use(case["spec2"])          # update(id_spec=...) under another id_spec; the counters go on
        r = MC.derive_all(spec, ufmt, b, deriver)
        deriver = r["deriver"]
        plan.append(r)
        if r["outcome"] != "keys":
            break
    if any(r["outcome"] == "silent" for r in plan):
        ctx.skip("statement silent: " + [r["why"] for r in plan if r["outcome"] == "silent"][0].split("'")[0])
        return None
    allkeys = [k for r in plan if r["outcome"] == "keys" for k in r["keys"]]
    final = [list(r["keys"]) for r in plan]
    abort_at = None
    if len(set(allkeys)) != len(allkeys):
        if not collide:
            ctx.skip("derived keys collide (merge strategy decides: C05)")
            return None
        # duplicates collide like any duplicates (statement of C05): 'error' aborts, 'create_unique' files the later
        # ones under '<key>_1', '<key>_2', ...
        taken, count = set(), {}
        for bi, r in enumerate(plan):
            for i, k in enumerate(r["keys"]):
                if k in taken:
                    if strategy == "error":
                        abort_at = bi
                        break
                    count[k] = count.get(k, 0) + 1
                    new = "%s_%d" % (k, count[k])
                    if new in taken or new in allkeys:
                        ctx.skip("statement silent: fresh '<key>_n' is the key of another feature")
                        return None
                    final[bi][i] = k = new
                taken.add(k)
            if abort_at is not None:
                break
    elif collide:
        ctx.mon("equal id values that do not collide under this id_spec (judged as an ordinary import)")
    branches = [b for r in plan for b in r["branches"]]

    dbfn = ctx.tmp(".db") if case["db"] == "file" else ":memory:"
    made = []
    kw = {}
    if spec["form"] != "none":
        kw["id_spec"] = real_spec(spec)
    if fmt == "gtf" and not case["infer"]:
        kw.update(disable_infer_genes=True, disable_infer_transcripts=True)
    kw_create = dict(kw)
    if case.get("keys"):
        kw_create.update(gtf_transcript_key=case["keys"][0], gtf_gene_key=case["keys"][1])
    if case.get("force") == "gff":
        kw_create["force_gff"] = True
        if len(batches) > 1 and fmt != "gff3":
            raise AssertionError("harness: update() after force_gff on GTF-looking input is not generated")
    kw_update = dict(kw)
    if case.get("spec2"):
        kw_update.pop("id_spec", None)
        if case["spec2"]["form"] != "none":
            kw_update["id_spec"] = real_spec(case["spec2"])
    if collide or successive:
        kw_create["merge_strategy"] = strategy
    db = None
    run_len = 0          # update() calls made through the current handle since it was opened
    empty_at_open = None
    try:
        expected, recs_so_far = [], []
        for bi, (b, r) in enumerate(zip(batches, plan)):
            text = text_of(b, fmt)
            objects = case.get("objects")
            if objects:
                data, from_string = features_of(b, objects["holders"][bi], fmt), False
                if objects["as"] == "iter":
                    data = iter(data)
            elif case["input"] == "path":
                src = ctx.tmp(".gff" if fmt == "gff3" else ".gtf")
                with open(src, "w", encoding="utf-8", newline="") as fh:
                    fh.write(text)
                made.append(src)
                data, from_string = src, False
            else:
                data, from_string = text, True
            pre = case.get("preexisting") if bi == 0 else None
            if pre:
                if dbfn == ":memory:":
                    raise AssertionError("harness: an occupied path needs db=file")
                try:
                    old = gffutils.create_db(text_of(pre["recs"], fmt), dbfn, from_string=True, **_gtf_kw(case))
                    old.conn.close()
                except Exception as ex:
                    ctx.skip("occupied path: building the earlier database raised %s (not this class's subject)" % type(ex).__name__)
                    return None
                ctx.mon("occupied path: create_db to a path that already holds a gffutils database")
                if pre["force"]:
                    kw_create["force"] = True
            try:
                if objects:
                    ctx.mon("objects: imports of Feature objects" if bi == 0 else "objects: update() with Feature objects")
                if bi == 0:
                    db = gffutils.create_db(data, dbfn, from_string=from_string, **kw_create)
                    ctx.mon("imports")
                    if case.get("force") and fmt == "gtf" and spec["form"] == "none":
                        ctx.mon("force_gff: imports of GTF-looking input with id_spec None")
                    if spec.get("tuples") or spec.get("seq") == "tuple":
                        ctx.mon("tuple entries: imports under a dict id_spec with tuple entries" if spec.get("tuples") else
                                "tuple entries: imports under an id_spec that is a tuple")
                    if successive and case.get("handle") == "FeatureDB" and dbfn != ":memory:":
                        db.conn.close()
                        db = gffutils.FeatureDB(dbfn)
                    if successive:
                        empty_at_open = not dbdump.dump_db(db)["autoincrements"]
                else:
                    if successive and (case.get("reopen_before") or [])[bi - 1:bi] == [True] and dbfn != ":memory:":
                        db.conn.close()
                        db = gffutils.FeatureDB(dbfn)
                        run_len = 0
                        empty_at_open = not dbdump.dump_db(db)["autoincrements"]
                        ctx.mon("successive: handle reopened between two update() calls")
                    db.update(data, from_string=from_string, make_backup=False, merge_strategy=strategy, **kw_update)
                    ctx.mon("update() imports")
                    if successive:
                        run_len += 1
                        fresh = sum(1 for x in r["branches"] if "fallback" in x or x == "callable:autoincrement")
                        if run_len >= 2:
                            ctx.mon("successive: 2nd or later update() through the same FeatureDB object")
                            ctx.mon("successive: auto-numbered keys handed out by a 2nd or later update() through the same object", fresh)
                            if empty_at_open:
                                ctx.mon("successive: 2nd or later update() through an object opened while the autoincrements table was empty")
                                ctx.mon("successive: auto-numbered keys, 2nd or later update(), object opened on an empty autoincrements table", fresh)
                            else:
                                ctx.mon("successive: 2nd or later update() through an object opened on a database that had counters")
                    if case.get("spec2"):
                        ctx.mon("update(id_spec=...) under another id_spec than create_db")
            except Exception as ex:
                if pre and not pre["force"]:
                    ctx.mon("occupied path: without force, create_db refused")
                    break
                if r["outcome"] == "reject":
                    ctx.mon("multi-valued id rejected")
                    if objects:
                        ctx.mon("objects: multi-valued id attribute held in a %s rejected" % _holder_of_rejected(b, objects["holders"][bi], r))
                    if r.get("in_tuple"):
                        ctx.mon("tuple entries: multi-valued id attribute named in a tuple rejected")
                    break
                if abort_at == bi:
                    ctx.mon("equal id values collide: 'error' aborts")
                    if MC.looks_special(case.get("dup") or ""):
                        ctx.mon("equal special-looking id values collide: 'error' aborts")
                    break
                ctx.violation(case, {"why": "%s raised %r on an input whose keys are all distinct" % (
                    "create_db" if bi == 0 else "update", ex), "expected keys": final[bi], "text": text})
                contracts.drain()
                return branches
            if bi == 0 and db.dialect["fmt"] != fmt:
                ctx.skip("harness: file not routed to the %s importer" % fmt)
                return None
            if r["outcome"] == "reject":
                stored = [f["id"] for f in dbdump.dump_db(db)["features"]]
                ctx.violation(case, {"why": "multi-valued id attribute accepted instead of rejected (%s)" % r["why"],
                                     "stored ids": stored[-8:], "text": text})
                contracts.drain()
                return branches
            if abort_at == bi:
                stored = [f["id"] for f in dbdump.dump_db(db)["features"]]
                ctx.violation(case, {"why": "features whose id_spec keys are equal do not collide: merge_strategy='error' did not abort",
                                     "keys by id_spec": r["keys"], "stored ids": stored[-12:], "spec": case["spec"], "text": text})
                contracts.drain()
                return branches
            expected += final[bi]
            recs_so_far += b
            if not compare(ctx, case, db, expected, recs_so_far, branches, deriver, "after %s" % ("create_db" if bi == 0 else "update")):
                contracts.drain()
                return branches
            if pre:
                ctx.mon("occupied path: force=True, the database holds exactly the imported features under the keys id_spec dictates" if pre["force"] else
                        "occupied path: without force, create_db returned a database holding exactly the imported features (accepted)")
            if objects:
                names = {"tuple": "a tuple", "listsub": "a list-subclass instance", "list": "a list"}
                for rec, hs, k, br in zip(b, objects["holders"][bi], final[bi], r["branches"]):
                    ctx.mon("objects: keys compared")
                    if br.startswith("attribute"):
                        for h in sorted(set(h for (a, v), h in zip(rec["attrs"], hs) if list(v) == [k])):
                            ctx.mon("objects: key is the single value of an attribute held in " + names[h])
        else:
            if case["db"] == "file" and case["reopen"] and db is not None:
                db.conn.close()
                db = gffutils.FeatureDB(dbfn)
                ctx.mon("reopened databases")
                compare(ctx, case, db, expected, recs_so_far, branches, deriver, "after reopen")
            for name, n in deriver.stats.items():
                ctx.mon(name, n)
            if case.get("objects"):
                ctx.mon("objects: imports completed with every key as id_spec dictates")
            if successive:
                ctx.mon("successive: sequences completed with every key as id_spec dictates")
                ctx.classes["successive: strategy=" + strategy] += 1
                first_auto = any("fallback" in x or x == "callable:autoincrement" for x in plan[0]["branches"])
                ctx.classes["successive: first import " + ("handed out counters" if first_auto else "auto-numbered nothing")] += 1
            if collide and final != [list(r["keys"]) for r in plan]:
                ctx.mon("equal id values collide: create_unique files '<key>_n'")
                if MC.looks_special(case.get("dup") or ""):
                    ctx.mon("equal special-looking id values collide: create_unique files '<key>_n'")
    finally:
        try:
            if db is not None:
                db.conn.close()
        except Exception:
            pass
        for p in made + [dbfn]:
            if p != ":memory:" and os.path.exists(p):
                os.unlink(p)
    for v in contracts.drain():
        ctx.violation(case, v)
    return branches


def _holder_of_rejected(recs, holders, r):
    """Name of the sequence type that holds the multi-valued id attribute the reference derivation stopped at."""
    import re

    m = re.match(r"line (\d+): id attribute (\S+) has several values", r.get("why") or "")
    if m:
        i, name = int(m.group(1)), m.group(2)
        for (k, v), h in zip(recs[i]["attrs"], holders[i]):
            if k == name and len(v) > 1:
                return {"tuple": "tuple", "listsub": "list-subclass instance", "list": "list"}[h]
    return "sequence of unknown kind"


def compare(ctx, case, db, expected, recs, branches, deriver, what):
    import gffutils

    dump = dbdump.dump_db(db)
    rows = [f for f in dump["features"] if f["source"] != "gffutils_derived"]
    text = text_of(recs, case["fmt"])
    if len(rows) != len(recs):
        ctx.violation(case, {"why": "%s: %d features stored for %d input lines" % (what, len(rows), len(recs)),
                             "ids": [f["id"] for f in rows][:30], "text": text})
        return False
    ids = [f["id"] for f in dump["features"]]
    if len(set(ids)) != len(ids):
        ctx.violation(case, {"why": "%s: two features under one key" % what, "ids": ids[:30], "text": text})
        return False
    for i, (row, rec, exp) in enumerate(zip(rows, recs, expected)):
        ctx.mon("keys compared with the reference derivation")
        if case.get("keys"):
            ctx.mon("keys compared: GTF, id_spec None, non-default gtf keys")
        if case.get("force") and case["fmt"] == "gtf":
            if case["spec"]["form"] == "none":
                ctx.mon("force_gff: keys compared, GTF-looking input, id_spec None")
                have = MC.attrs_of(rec)
                if "ID" in have:
                    ctx.mon("force_gff: lines of GTF-looking input keyed by their ID attribute (id_spec None)")
                elif (rec["featuretype"], True) in (("gene", "gene_id" in have), ("transcript", "transcript_id" in have)):
                    ctx.mon("force_gff: gene/transcript lines carrying gene_id/transcript_id and no ID keyed '<featuretype>_<n>' (id_spec None)")
            else:
                ctx.mon("force_gff: keys compared, GTF-looking input, explicit id_spec")
        same_line = (row["seqid"] == rec["seqid"] and row["featuretype"] == rec["featuretype"]
                     and str(row["start"]) == rec["start"] and str(row["end"]) == rec["end"])
        if not same_line:
            ctx.violation(case, {"why": "%s: stored feature %d is not input line %d" % (what, i, i), "row": row, "text": text})
            return False
        if row["id"] != exp:
            ctx.violation(case, {"why": "%s: key differs from what id_spec dictates" % what, "line": i, "got": row["id"],
                                 "expected": exp, "branch": branches[i] if i < len(branches) else None,
                                 "spec": case["spec"], "text": text})
            return False
    # ---- look-ups: every stored feature (derived ones included), by key and by Feature
    try:
        feats = list(db.all_features())
    except Exception as ex:
        ctx.violation(case, {"why": "%s: all_features raised %r" % (what, ex), "text": text})
        return False
    if sorted(f.id for f in feats) != sorted(ids):
        ctx.violation(case, {"why": "%s: Feature.id values differ from the id column" % what, "text": text})
        return False
    byid = dict((row["id"], rec) for row, rec in zip(rows, recs))
    family = set(case.get("probe") or ())
    for f in feats:
        for how, arg in (("db[key]", f.id), ("db[feature]", f)):
            ctx.mon("lookups " + how)
            if f.id in family:
                ctx.mon("confusable stored keys looked up")
            try:
                g = db[arg]
            except Exception as ex:
                ctx.violation(case, {"why": "%s: %s raised %r for a stored key" % (what, how, ex), "key": f.id, "text": text})
                return False
            if g is None or getattr(g, "id", None) != f.id or str(g) != str(f) or type(g.id) is not str:
                ctx.violation(case, {"why": "%s: %s does not return the feature stored under the key" % (what, how),
                                     "key": f.id, "got": None if g is None else [getattr(g, "id", None), str(g)],
                                     "stored": str(f), "text": text})
                return False
            rec = byid.get(f.id)
            if rec is not None:
                gattrs = dict((k, list(g.attributes[k])) for k in g.attributes.keys())
                if (g.seqid, g.source, g.featuretype, str(g.start), str(g.end), g.score, g.strand, g.frame) != tuple(
                        rec[c] for c in MC.COLUMNS) or gattrs != MC.attrs_of(rec):
                    ctx.violation(case, {"why": "%s: %s returns a feature that is not the input line with that key" % (what, how),
                                         "key": f.id, "got": str(g), "line": MD.render_line(rec, point(case["fmt"]))})
                    return False
    # ---- children naming a special-looking key as Parent hang off that very key (gff3)
    if case.get("special") and case["fmt"] == "gff3":
        for key in ids:
            if not MC.looks_special(key):
                continue
            want = set(k for k, rec in zip(expected, recs) if key in MC.attrs_of(rec).get("Parent", []) and k != key)
            have = set(c for p, c, lv in dump["relations"] if p == key and lv == 1)
            try:
                kids = set(c.id for c in db.children(key, level=1))
            except Exception as ex:
                ctx.violation(case, {"why": "%s: children(%r) raised %r" % (what, key, ex), "text": text})
                return False
            ctx.mon("children of special-looking keys compared")
            if want:
                ctx.mon("children of special-looking keys compared (non-empty)")
            if key in have or key in kids:
                # a feature naming ITSELF as Parent: whether it is its own child is not said - not judged
                ctx.mon("children of special-looking keys: a feature names itself as Parent (self-link not judged)")
                have.discard(key)
                kids.discard(key)
            if have != want or kids != want:
                ctx.violation(case, {"why": "%s: the features naming the key %r as Parent are not its children" % (what, key),
                                     "level-1 rows": sorted(have), "children()": sorted(kids), "expected": sorted(want), "text": text})
                return False
    # ---- absent keys: near misses of the stored keys and of the counters
    stored = set(ids)
    probes = []
    sample = ids if len(ids) <= 6 else ids[:3] + ids[-3:]
    for k in sample:
        probes += [k + "x", k[:-1], k + "_1", k + " ", " " + k, k.swapcase(), k + "_0", "_" + k]
    for base, n in sorted(deriver.counters.items()):
        probes += ["%s_%d" % (base, n + 1), "%s_0" % base, "%s_%02d" % (base, n), "%s-%d" % (base, n), base]
    probes += ["exon_0", "", "ID", "None", "%", "_"]
    probes += list(case.get("probe") or ())
    absent = set(case.get("absent") or ())
    probes += list(case.get("absent") or ())
    for k in dict.fromkeys(probes):
        if k in stored:
            continue
        for how in ("key", "feature"):
            arg = k if how == "key" else gffutils.Feature(seqid="chr1", start=1, end=2, id=k)
            ctx.mon("absent keys probed")
            if k in family:
                ctx.mon("confusable absent keys probed")
            if k in absent:
                ctx.mon("absent keys probed: what a special-looking value would give if it were interpreted")
            try:
                got = db[arg]
            except gffutils.FeatureNotFoundError:
                ctx.mon("FeatureNotFoundError observed")
                continue
            except Exception as ex:
                ctx.violation(case, {"why": "%s: absent %s raises %s instead of FeatureNotFoundError" % (what, how, type(ex).__name__),
                                     "key": k, "stored": sorted(stored)[:20]})
                return False
            ctx.violation(case, {"why": "%s: absent %s does not raise FeatureNotFoundError" % (what, how), "key": k,
                                 "returned": None if got is None else str(got), "stored": sorted(stored)[:20]})
            return False
    return other_types(ctx, case, db, ids, what)


class _Str(str):
    """A str subclass: an instance IS the text it spells."""


def _decimal(k):
    """int spelled by a numeric-looking key ('12', '01', '+1', ' 7'), else None."""
    try:
        return int(k)
    except ValueError:
        return None


def other_types(ctx, case, db, ids, what):
    """
    Look-ups with objects of other types that spell a stored key.  A str subclass instance is that text: it finds the
    feature.  A bytes object is not a stored key (keys are text): it is absent -> FeatureNotFoundError, through handles
    of either default_encoding.  An int: the statement does not say whether 12 spells the key '12' - FeatureNotFoundError
    and the feature stored under str(12) are both accepted.  Never a feature stored under a different key.
    """
    import gffutils

    stored = set(ids)
    family = [k for k in (case.get("probe") or ()) if k in stored]
    sample = list(dict.fromkeys((ids if len(ids) <= 5 else ids[:2] + ids[-3:]) + family))
    handles = [("the handle under test", db, getattr(db, "default_encoding", "utf-8"))]
    extra = []
    if isinstance(db.dbfn, str) and db.dbfn != ":memory:" and os.path.exists(db.dbfn):
        for enc in ("latin-1",) + (("utf-8",) if case.get("family") else ()):
            try:
                h = gffutils.FeatureDB(db.dbfn, default_encoding=enc)
            except Exception as ex:
                ctx.violation(case, {"why": "%s: FeatureDB(path, default_encoding=%r) raised %r" % (what, enc, ex)})
                return False
            extra.append(h)
            handles.append(("a second handle with default_encoding=%r" % enc, h, enc))
    try:
        for k in sample:
            # ---- str subclass
            for hname, h, enc in handles[:2]:
                ctx.mon("str-subclass keys spelling a stored key looked up")
                try:
                    g = h[_Str(k)]
                except Exception as ex:
                    ctx.violation(case, {"why": "%s: db[<str subclass instance spelling a stored key>] raised %s" % (what, type(ex).__name__),
                                         "key": k, "through": hname})
                    return False
                if g is None or g.id != k:
                    ctx.violation(case, {"why": "%s: db[<str subclass instance>] does not return the feature stored under that text" % what,
                                         "key": k, "returned id": getattr(g, "id", None), "through": hname})
                    return False
            # ---- bytes
            spellings = []
            for codec in ("utf-8", "latin-1", "utf-16-le"):
                try:
                    b = k.encode(codec)
                except UnicodeError:
                    continue
                if b not in spellings:
                    spellings.append(b)
            for b in spellings:
                for hname, h, enc in handles:
                    ctx.mon("bytes keys spelling a stored key probed")
                    if h is not db and enc != "utf-8":
                        ctx.mon("bytes keys probed through a handle with default_encoding latin-1")
                    try:
                        other = b.decode(enc)
                    except UnicodeError:
                        other = None
                    if other is not None and other != k and other in stored:
                        ctx.mon("bytes keys whose decoding under the handle's default_encoding is ANOTHER stored key")
                    try:
                        g = h[b]
                    except gffutils.FeatureNotFoundError:
                        ctx.mon("bytes keys: FeatureNotFoundError")
                        continue
                    except Exception as ex:
                        ctx.violation(case, {"why": "%s: a bytes key (absent: the stored keys are text) raises %s instead of FeatureNotFoundError" % (
                            what, type(ex).__name__), "key": repr(b), "through": hname, "stored": sorted(stored)[:20]})
                        return False
                    gid = getattr(g, "id", None)
                    ctx.violation(case, {"why": "%s: db[bytes] returns a feature (%s); nothing is stored under a bytes object: FeatureNotFoundError expected" % (
                        what, "the one stored under ANOTHER key than the text these bytes were encoded from" if gid != k else
                        "the one stored under the text the bytes spell"), "key": repr(b), "spells": k, "returned id": gid, "through": hname,
                        "stored": sorted(stored)[:20]})
                    return False
            # ---- int
            n = _decimal(k)
            if n is not None:
                ctx.mon("int keys for numeric-looking stored keys probed")
                try:
                    g = db[n]
                except gffutils.FeatureNotFoundError:
                    ctx.mon("int keys: FeatureNotFoundError")
                except Exception as ex:
                    ctx.skip("int key: db[int] raised %s (statement silent on int keys)" % type(ex).__name__)
                else:
                    gid = getattr(g, "id", None)
                    if gid != str(n):
                        ctx.violation(case, {"why": "%s: db[int] returns a feature stored under a key that is not the decimal spelling of the int" % what,
                                             "key": n, "returned id": gid, "stored": sorted(stored)[:20]})
                        return False
                    if str(n) == k:
                        ctx.mon("int keys: the feature stored under the int's decimal spelling returned (statement silent: accepted)")
                    else:
                        ctx.mon("int keys: numeric-looking key that is not the decimal spelling ('01', '+1'): the other stored key str(int) returned (accepted)")
    finally:
        for h in extra:
            try:
                h.conn.close()
            except Exception:
                pass
    return True


def rowids(db):
    """id -> rowid, read with plain SQL on the connection (committed state)."""
    return dict((i, r) for r, i in db.conn.execute("SELECT rowid, id FROM features").fetchall())


def same_as_row(g, row):
    attrs = dict((k, list(g.attributes[k])) for k in g.attributes.keys())
    want = dict((k, list(v)) for k, v in row["attributes"]) if isinstance(row["attributes"], list) else None
    return (g.seqid, g.source, g.featuretype, g.start, g.end, g.score, g.strand, g.frame) == tuple(
        row[c] for c in MC.COLUMNS) and attrs == want


def execute_stale(ctx, case):
    """
    Feature objects fetched earlier (they carry the position they were read from) are looked up again after the
    database changed; so are Features read from another database.  db[feature] is db[feature.id]: the feature now
    stored under that id, FeatureNotFoundError when the id is gone, never a feature with another id.
    """
    import gffutils

    fmt, spec = case["fmt"], case["spec"]
    kw = {}
    if spec["form"] != "none":
        kw["id_spec"] = real_spec(spec)
    if fmt == "gtf":
        kw.update(disable_infer_genes=True, disable_infer_transcripts=True)
    dbfn = ctx.tmp(".db") if case["db"] == "file" else ":memory:"
    opened = []
    stats = {"moved": 0}
    try:
        try:
            db = gffutils.create_db(text_of(case["base"], fmt), dbfn, from_string=True, **kw)
            opened.append(db)
            fo = case["foreign"]
            frecs = [case["base"][i] for i in fo["perm"]]
            frecs = (fo["extra"] + frecs) if fo["extra_first"] else (frecs + fo["extra"])
            other = gffutils.create_db(text_of(frecs, fmt), ":memory:", from_string=True, **kw)
            opened.append(other)
        except Exception as ex:
            ctx.violation(case, {"why": "create_db raised %r on an input whose keys are all distinct" % (ex,), "text": text_of(case["base"], fmt)})
            return None
        ctx.mon("imports", 2)
        writer = db
        if case["via"] == "other":
            writer = gffutils.FeatureDB(dbfn)
            opened.append(writer)
        readers = [("the handle that fetched the features", db)] + ([("the second handle", writer)] if writer is not db else [])
        handles = [("stale", f) for f in db.all_features()]
        handles += [("foreign", f) for f in other.all_features()]
        replaced = set()

        def verify(stage):
            dump = dbdump.dump_db(db)
            rows = dict((f["id"], f) for f in dump["features"])
            at = rowids(db)
            holder = dict((r, i) for i, r in at.items())
            for origin, h in handles:
                moved = h.file_order is not None and holder.get(h.file_order) != h.id
                elsewhere = moved and holder.get(h.file_order) is not None
                for rname, r in readers:
                    ctx.mon("%s handles looked up" % origin)
                    if origin == "stale" and elsewhere:
                        ctx.mon("stale handles whose position now holds another id")
                        stats["moved"] += 1
                    if origin == "foreign" and moved:
                        ctx.mon("foreign handles sitting at another position")
                        stats["moved"] += 1
                    detail = {"stage": stage, "handle": origin, "looked up through": rname, "feature.id": h.id,
                              "feature.file_order": h.file_order, "id stored at that position now": holder.get(h.file_order),
                              "stored ids": sorted(rows)[:20], "base": text_of(case["base"], fmt)}
                    try:
                        g = r[h]
                    except gffutils.FeatureNotFoundError:
                        if h.id in rows:
                            ctx.violation(case, dict(detail, why="db[feature] raises FeatureNotFoundError although a feature is stored under feature.id"))
                            return False
                        ctx.mon("%s handles whose id is gone: FeatureNotFoundError" % origin)
                        continue
                    except Exception as ex:
                        ctx.violation(case, dict(detail, why="db[feature] raises %s" % type(ex).__name__, error=repr(ex)))
                        return False
                    got = None if g is None else [getattr(g, "id", None), str(g)]
                    if h.id not in rows:
                        ctx.violation(case, dict(detail, why="db[feature] returns a feature although nothing is stored under feature.id (FeatureNotFoundError expected)",
                                                 returned=got))
                        return False
                    if g is None or g.id != h.id:
                        ctx.violation(case, dict(detail, why="db[feature] returns a feature with another id", returned=got))
                        return False
                    if not same_as_row(g, rows[h.id]):
                        ctx.violation(case, dict(detail, why="db[feature] does not return the feature currently stored under feature.id",
                                                 returned=got, row=rows[h.id]))
                        return False
                    if origin == "stale" and h.id in replaced and str(g) != str(h):
                        ctx.mon("stale handles of a replaced feature: current content returned")
            return True

        if not verify("before any change"):
            return None
        for n, op in enumerate(case["ops"]):
            at = rowids(db)
            order = sorted(at, key=at.get)
            stage = "after op %d (%s)" % (n, op["op"] + (" " + op["which"] if "which" in op else ""))
            try:
                if op["op"] == "delete":
                    if not order:
                        continue
                    victim = {"top": order[-1], "first": order[0], "mid": order[len(order) // 2]}[op["which"]]
                    arg = victim
                    if op["as"] != "id":
                        arg = gffutils.Feature(seqid="chr1", start=1, end=2, id=victim)
                        try:
                            arg = writer[victim]
                        except Exception:
                            pass
                        if op["as"] == "list":
                            arg = [arg]
                    writer.delete(arg, make_backup=False)
                    ctx.mon("delete() calls")
                    ctx.classes["stale op=delete " + op["which"]] += 1
                elif op["op"] == "update":
                    writer.update(text_of(op["recs"], fmt), from_string=True, make_backup=False, merge_strategy="error", **kw)
                    ctx.mon("update() imports")
                    ctx.classes["stale op=update"] += 1
                else:
                    writer.update(text_of([op["rec"]], fmt), from_string=True, make_backup=False, merge_strategy="replace", **kw)
                    ctx.mon("update() imports")
                    ctx.mon("replace updates")
                    replaced.add(op["key"])
                    ctx.classes["stale op=replace"] += 1
            except Exception as ex:
                ctx.skip("stale: %s raised %s (not this class's subject)" % (op["op"], type(ex).__name__))
                return stats
            if not verify(stage):
                return None
            # later generations of handles: what the database hands out now
            known = set((o, h.id, h.file_order) for o, h in handles)
            for r in set(x for _, x in readers):
                for f in r.all_features():
                    if ("stale", f.id, f.file_order) not in known:
                        known.add(("stale", f.id, f.file_order))
                        handles.append(("stale", f))
        return stats
    finally:
        for d in opened:
            try:
                d.conn.close()
            except Exception:
                pass
        if dbfn != ":memory:" and os.path.exists(dbfn):
            os.unlink(dbfn)
        for v in contracts.drain():
            ctx.violation(case, v)


def _gtf_kw(case):
    return dict(disable_infer_genes=True, disable_infer_transcripts=True) if case["fmt"] == "gtf" else {}


def _line_of(rec):
    return (rec["seqid"], rec["featuretype"], rec["start"], rec["end"])


def execute_autoclash(ctx, case):
    """
    An explicit id (attribute value / callable return value) spells the key '<base>_<k>' that the k-th auto-numbered
    feature of that base gets by the rule (n counts 1,2,... in input order, whatever ids are spelled out in the input or
    already stored).  Keys are unique, so the two collide and the merge strategy decides (statement of C05): 'error' ->
    the import raises; 'warning' -> first kept; 'replace' -> last kept; 'create_unique' -> later one under '<key>_1';
    'merge' (other columns differ) -> newcomer under a fresh '<key>_n'.  Every other line has the key id_spec dictates.
    """
    import re

    import gffutils

    fmt, spec, strategy = case["fmt"], case["spec"], case["strategy"]
    batches = case["batches"]
    flat = [rec for b in batches for rec in b]
    ends, deriver, keys, branches = [], None, [], []
    for b in batches:
        r = MC.derive_all(spec, fmt, b, deriver)
        deriver = r["deriver"]
        if r["outcome"] != "keys":
            ctx.skip("autoclash: statement silent / rejected input (not this class's subject)")
            return None
        keys += r["keys"]
        branches += r["branches"]
        ends.append(len(keys))
    try:
        whole = MC.resolve(keys, strategy)
    except MC.Silent as e:
        ctx.skip("statement silent: %s" % e)
        return None
    if not whole["collisions"]:
        ctx.skip("autoclash: no explicit id equals an auto-numbered key")
        return None
    abort_batch = None
    if whole["abort"] is not None:
        abort_batch = min(bi for bi, e in enumerate(ends) if whole["abort"] < e)
    info = {"explicit_first": 0, "auto_first": 0, "strategy": strategy, "update": False, "callable_auto": False}
    for k, first, later in whole["collisions"]:
        if MC.is_auto(branches[later]) and not MC.is_auto(branches[first]):
            info["explicit_first"] += 1
        elif MC.is_auto(branches[first]) and not MC.is_auto(branches[later]):
            info["auto_first"] += 1
        if "callable:autoincrement" in (branches[first], branches[later]):
            info["callable_auto"] = True
        if len(batches) > 1 and first < ends[0] <= later:
            info["update"] = True
    kw = dict(_gtf_kw(case))
    if spec["form"] != "none":
        kw["id_spec"] = real_spec(spec)
    dbfn = ctx.tmp(".db") if case["db"] == "file" else ":memory:"
    made = []
    db = None
    text_all = text_of(flat, fmt)

    def verify(upto, what, final):
        res = MC.resolve(keys[:upto], strategy)
        rows = dbdump.dump_db(db)["features"]
        ids = [f["id"] for f in rows]
        byid = dict((f["id"], f) for f in rows)
        detail = {"stage": what, "strategy": strategy, "keys by id_spec (input order)": keys[:upto], "stored ids": ids, "spec": spec, "text": text_all}
        if len(set(ids)) != len(ids):
            ctx.violation(case, dict(detail, why="two features under one key"))
            return False
        expect = dict(res["stored"])
        extra = set(ids) - set(expect)
        for k, i in res["loose"]:
            pat = re.compile(re.escape(k) + r"_\d+\Z")
            hit = [e for e in sorted(extra) if pat.match(e) and (byid[e]["seqid"], byid[e]["featuretype"], str(byid[e]["start"]), str(byid[e]["end"])) == _line_of(flat[i])]
            if not hit:
                ctx.violation(case, dict(detail, why="merge: the newcomer whose key %r is taken (other columns differ) is not filed under a fresh '<key>_n'" % k, line=i))
                return False
            extra.discard(hit[0])
            expect[hit[0]] = i
            ctx.mon("autoclash: merge files the newcomer under a fresh '<key>_n'")
        missing = set(res["stored"]) - set(ids)
        if missing or extra:
            ctx.violation(case, dict(detail, why="the stored keys are not those id_spec dictates ('<base>_<n>' counting 1,2,... in input order; an explicit id "
                                                 "equal to an auto-numbered key collides and merge_strategy=%r decides)" % strategy,
                                     missing=sorted(missing), unexpected=sorted(extra), expected=sorted(res["stored"])))
            return False
        first_col = min(l for _, _, l in res["collisions"]) if res["collisions"] else None
        for k, i in sorted(expect.items(), key=lambda x: x[1]):
            rec, row = flat[i], byid[k]
            ctx.mon("autoclash: keys compared")
            if first_col is not None and i > first_col and MC.is_auto(branches[i]):
                ctx.mon("autoclash: auto-numbered keys AFTER a collision compared (numbering went on without skipping)")
            if (row["seqid"], row["featuretype"], str(row["start"]), str(row["end"])) != _line_of(rec):
                ctx.violation(case, dict(detail, why="the feature stored under %r is not the input line that id_spec and merge_strategy=%r put there" % (k, strategy),
                                         expected_line=MD.render_line(rec, point(fmt)), row=row))
                return False
            for how, arg in (("db[key]", k),):
                ctx.mon("lookups " + how)
                try:
                    g = db[arg]
                except Exception as ex:
                    ctx.violation(case, dict(detail, why="%s raised %r for a stored key" % (how, ex), key=k))
                    return False
                gattrs = dict((a, list(g.attributes[a])) for a in g.attributes.keys())
                if g.id != k or (g.seqid, g.featuretype, str(g.start), str(g.end)) != _line_of(rec) or gattrs != MC.attrs_of(rec):
                    ctx.violation(case, dict(detail, why="%s does not return the input line stored under that key" % how, key=k, got=str(g),
                                             line=MD.render_line(rec, point(fmt))))
                    return False
        if final:
            # the counters never skipped: the number after the last one handed out (by the rule) names nothing
            counters = {}
            for k, b in zip(keys[:upto], branches[:upto]):
                if MC.is_auto(b):
                    base, n = k.rsplit("_", 1)
                    counters[base] = max(counters.get(base, 0), int(n))
            probes = ["%s_%d" % (base, n + 1) for base, n in sorted(counters.items())] + ["%s_0" % base for base in sorted(counters)]
            probes += ["%s_%d" % (k, j) for k, _, _ in res["collisions"] for j in (1, 2)]
            for pk in dict.fromkeys(probes):
                if pk in expect:
                    continue
                ctx.mon("absent keys probed")
                ctx.mon("autoclash: absent keys probed (next number of each counter, '<key>_n' of colliding keys)")
                try:
                    got = db[pk]
                except gffutils.FeatureNotFoundError:
                    continue
                except Exception as ex:
                    ctx.violation(case, dict(detail, why="absent key raises %s instead of FeatureNotFoundError" % type(ex).__name__, key=pk))
                    return False
                ctx.violation(case, dict(detail, why="absent key does not raise FeatureNotFoundError", key=pk, returned=str(got)))
                return False
        return True

    try:
        start = 0
        for bi, b in enumerate(batches):
            text = text_of(b, fmt)
            if case["input"] == "path":
                src = ctx.tmp(".gff" if fmt == "gff3" else ".gtf")
                with open(src, "w", encoding="utf-8", newline="") as fh:
                    fh.write(text)
                made.append(src)
                data, from_string = src, False
            else:
                data, from_string = text, True
            try:
                if bi == 0:
                    db = gffutils.create_db(data, dbfn, from_string=from_string, merge_strategy=strategy, **kw)
                    ctx.mon("imports")
                else:
                    if case.get("reopen_before_update") and dbfn != ":memory:":
                        db.conn.close()
                        db = gffutils.FeatureDB(dbfn)
                    db.update(data, from_string=from_string, make_backup=False, merge_strategy=strategy, **kw)
                    ctx.mon("update() imports")
            except Exception as ex:
                if abort_batch == bi:
                    ctx.mon("autoclash: 'error' refuses the import")
                    ctx.mon("autoclash: 'error' refuses the import (%s)" % ("create_db" if bi == 0 else "update(), explicit id already stored"
                                                                            if info["update"] else "update()"))
                    if "uplicate" in str(ex):
                        ctx.mon("autoclash: the error names a duplicate")
                    return info
                ctx.violation(case, {"why": "%s raised %r although merge_strategy=%r does not refuse anything here" % (
                    "create_db" if bi == 0 else "update", ex, strategy), "keys by id_spec": keys[start:ends[bi]], "text": text_all})
                return None
            if bi == 0 and db.dialect["fmt"] != fmt:
                ctx.skip("harness: file not routed to the %s importer" % fmt)
                return None
            if abort_batch == bi:
                stored = [f["id"] for f in dbdump.dump_db(db)["features"]]
                k, first, later = whole["collisions"][0]
                ctx.violation(case, {"why": "an explicit id equal to the auto-numbered key %r (line %d and line %d get the same key by id_spec) did not collide: "
                                            "merge_strategy='error' did not refuse the import" % (k, first, later),
                                     "keys by id_spec (input order)": keys[:ends[bi]], "stored ids": stored, "spec": spec, "text": text_all})
                return None
            if not verify(ends[bi], "after %s" % ("create_db" if bi == 0 else "update"), bi == len(batches) - 1):
                return None
            start = ends[bi]
        ctx.mon("autoclash: imports completed, every stored key as id_spec and the merge strategy dictate")
        ctx.mon("autoclash: %s decided a collision between an explicit id and an auto-numbered key" % strategy, len(whole["collisions"]))
        if info["update"]:
            ctx.mon("autoclash: update() variant, explicit id already stored, anonymous features reach its number")
        return info
    finally:
        try:
            if db is not None:
                db.conn.close()
        except Exception:
            pass
        for p in made + [dbfn]:
            if p != ":memory:" and os.path.exists(p):
                os.unlink(p)
        for v in contracts.drain():
            ctx.violation(case, v)


def execute_dbcopy(ctx, case):
    """
    create_db(data=<FeatureDB>, id_spec=S): the features of an existing database are the input.  Each one's key in the new
    database is fixed by S applied to the feature ('<featuretype>_<n>' counted 1,2,... in arrival order for those S cannot
    name) - never by the key it has in the source (built under another id_spec, with holes after delete(), with additions).
    Arrival order = the order the source iterates its features (listed before the copy).
    """
    import gffutils

    fmt, spec1, spec = case["fmt"], case["spec1"], case["spec"]
    gkw = _gtf_kw(case)
    kw1 = dict(gkw)
    if spec1["form"] != "none":
        kw1["id_spec"] = real_spec(spec1)
    kw = dict(gkw)
    if spec["form"] != "none":
        kw["id_spec"] = real_spec(spec)
    srcfn = ctx.tmp(".db") if case["srcdb"] == "file" else ":memory:"
    dbfn = ctx.tmp(".db") if case["db"] == "file" else ":memory:"
    opened = []
    every = list(case["base"]) + [rec for op in case["ops"] if op["op"] == "update" for rec in op["recs"]]
    byline = dict(((rec["start"], rec["end"]), rec) for rec in every)
    try:
        # ---- the source database and its history
        try:
            src = gffutils.create_db(text_of(case["base"], fmt), srcfn, from_string=True, **kw1)
            opened.append(src)
            for op in case["ops"]:
                if op["op"] == "delete":
                    want = set(tuple(x) for x in op["lines"])
                    for f in [f for f in src.all_features() if (str(f.start), str(f.end)) in want]:
                        src.delete(f.id if op["as"] == "id" else f, make_backup=False)
                        ctx.mon("dbcopy: features deleted from the source before the copy")
                else:
                    src.update(text_of(op["recs"], fmt), from_string=True, make_backup=False, **kw1)
                    ctx.mon("update() imports")
        except Exception as ex:
            ctx.skip("dbcopy: building the source database raised %s (not this class's subject)" % type(ex).__name__)
            return None
        ctx.mon("imports")
        if case["src_handle"] == "FeatureDB" and srcfn != ":memory:":
            src = gffutils.FeatureDB(srcfn)
            opened.append(src)
        listing = list(src.all_features())
        try:
            order = [byline[(str(f.start), str(f.end))] for f in listing]
        except KeyError:
            ctx.skip("harness: a feature of the source database is not one of the input lines")
            return None
        srckeys = [f.id for f in listing]
        srcauto = dbdump.dump_db(src)["autoincrements"]
        r = MC.derive_all(spec, fmt, order)
        if r["outcome"] == "silent":
            ctx.skip("statement silent: " + r["why"].split("'")[0])
            return None
        if r["outcome"] == "keys" and len(set(r["keys"])) != len(order):
            ctx.skip("derived keys collide (merge strategy decides: C05)")
            return None
        text = text_of(order, fmt)
        detail = {"source id_spec": spec1, "history": case["history"], "keys in the source database": srckeys, "spec": spec,
                  "features of the source in iteration order": text}
        try:
            new = gffutils.create_db(src, dbfn, **kw)
            opened.append(new)
        except Exception as ex:
            if r["outcome"] == "reject":
                ctx.mon("multi-valued id rejected")
                ctx.mon("dbcopy: multi-valued id attribute reached by the new id_spec rejected")
                return {"branches": r["branches"], "moved": 0}
            ctx.violation(case, dict(detail, why="create_db(<FeatureDB>, id_spec=S) raised %r on features whose keys by S are all distinct" % (ex,),
                                     expected=r["keys"]))
            return None
        ctx.mon("dbcopy: create_db(data=<FeatureDB>) imports")
        if new.dialect["fmt"] != fmt:
            ctx.skip("harness: copy not routed to the %s importer" % fmt)
            return None
        if r["outcome"] == "reject":
            ctx.violation(case, dict(detail, why="multi-valued id attribute accepted instead of rejected (%s)" % r["why"],
                                     stored=[f["id"] for f in dbdump.dump_db(new)["features"]][-8:]))
            return None
        moved = sum(1 for a, b in zip(srckeys, r["keys"]) if a != b)
        renum = sum(1 for a, b, br in zip(srckeys, r["keys"], r["branches"]) if a != b and MC.is_auto(br))
        ctx.mon("dbcopy: keys compared", len(order))
        ctx.mon("dbcopy: features whose key by the new id_spec differs from their key in the source database", moved)
        ctx.mon("dbcopy: '<featuretype>_<n>' keys of features that were stored under another key in the source database", renum)
        ccase = dict(case, spec=spec)
        if not compare(ctx, ccase, new, list(r["keys"]), order, r["branches"], r["deriver"], "after create_db(<FeatureDB built under %s; %s>, id_spec=S)" % (
                "the default id_spec" if spec1["form"] == "none" else "another id_spec", case["history"])):
            return None
        if [f.id for f in src.all_features()] != srckeys:
            ctx.violation(case, dict(detail, why="the source database's keys changed while it was copied"))
            return None
        expected, recs, branches = list(r["keys"]), list(order), list(r["branches"])
        if case.get("later"):
            r2 = MC.derive_all(spec, fmt, case["later"], r["deriver"])
            if r2["outcome"] != "keys" or len(set(expected + r2["keys"])) != len(expected) + len(r2["keys"]):
                ctx.skip("dbcopy: update() after the copy: derived keys collide / silent")
                return {"branches": branches, "moved": moved}
            if case["db"] == "file" and case.get("reopen"):
                new.conn.close()
                new = gffutils.FeatureDB(dbfn)
                opened.append(new)
            try:
                new.update(text_of(case["later"], fmt), from_string=True, make_backup=False, **kw)
            except Exception as ex:
                ctx.violation(case, dict(detail, why="update() of the copy raised %r on features whose keys are all distinct (the counters go on from the "
                                                     "copy's own count)" % (ex,), expected=r2["keys"], later=text_of(case["later"], fmt),
                                         counters_of_the_source=srcauto))
                return None
            ctx.mon("update() imports")
            ctx.mon("dbcopy: update() of the copy, numbering goes on from the copy's own count")
            ctx.mon("dbcopy: auto-numbered keys handed out by update() of the copy", sum(1 for b in r2["branches"] if MC.is_auto(b)))
            expected += r2["keys"]
            recs += case["later"]
            branches += r2["branches"]
            if not compare(ctx, ccase, new, expected, recs, branches, r2["deriver"], "after update() of the copy"):
                return None
        for name, n in r["deriver"].stats.items():
            ctx.mon(name, n)
        ctx.mon("dbcopy: copies completed with every key as the new id_spec dictates")
        return {"branches": branches, "moved": moved}
    finally:
        for d in opened:
            try:
                d.conn.close()
            except Exception:
                pass
        for p in (srcfn, dbfn):
            if p != ":memory:" and os.path.exists(p):
                os.unlink(p)
        for v in contracts.drain():
            ctx.violation(case, v)


def account(ctx, case, branches):
    kinds = sorted(set(branches))
    outcome = "reject" if "multi-valued->reject" in kinds else "keys"
    for cls in ["fmt=" + case["fmt"], "form=" + case["form"], "outcome=" + outcome, "path=" + (
            "create" if len(case["batches"]) == 1 else "create+update"), "db=" + case["db"]] + ["branch=" + b for b in kinds]:
        ctx.classes[cls] += 1
    if case["fmt"] == "gtf":
        ctx.classes["gtf inference " + ("on" if case["infer"] else "off")] += 1
    if case.get("keys"):
        ctx.classes["gtf: id_spec None with non-default gtf keys"] += 1
    if case.get("force"):
        ctx.classes["force_gff: " + ("GTF-looking input" if case["fmt"] == "gtf" else "GFF3 input")] += 1
        ctx.classes["force_gff: " + ("id_spec None" if case["spec"]["form"] == "none" else "explicit id_spec")] += 1
    if case["spec"].get("tuples"):
        nonstr = [t for t, v in case["spec"]["v"].items() if not isinstance(v, str)]
        every = set(nonstr) <= set(case["spec"]["tuples"]) and len(nonstr) == len(case["spec"]["v"])
        ctx.classes["tuple entries: " + ("every entry a tuple" if every else "tuples beside lists / strings in one dict")] += 1
    if case.get("family"):
        ctx.classes["confusable=" + case["family"]] += 1
    for sp in (case["spec"], case.get("spec2")):
        if sp and sp.get("cls"):
            ctx.classes["dict id_spec class=" + sp["cls"]] += 1
    if case.get("spec2"):
        ctx.classes["update(id_spec=...) differs from create_db's id_spec"] += 1
    if case.get("kind") == "collide":
        ctx.classes["equal id values: strategy=" + case["strategy"]] += 1
    text = "".join(text_of(b, case["fmt"]) for b in case["batches"])
    ctx.case((case["fmt"], case["spec"], case.get("spec2"), case.get("strategy"), len(case["batches"]), case["infer"], case.get("keys"), text, case.get("force"),
              case.get("ustrategy"), case.get("handle"), str(case.get("reopen_before"))),
             len(kinds) >= 2 or outcome == "reject" or bool(case.get("family")) or bool(case.get("special")) or len(case["batches"]) >= 3,
             sample={"fmt": case["fmt"], "spec": case["spec"], "spec2": case.get("spec2"), "branches": kinds, "keys": case.get("keys"),
                     "text": text[:500]})


def run(ctx):
    rng = ctx.rng
    for _ in range(ctx.budget(2800, 56000)):
        case = G.gen_case(rng)
        branches = execute(ctx, case)
        if branches is not None:
            account(ctx, case, branches)
    # dict id_spec objects that are dict subclasses (each class on every shard) / attribute values that look like the
    # special return values of a callable / equal such values colliding
    for i in range(ctx.budget(480, 9000)):
        case = G.gen_dictsub_case(rng, cls=G.DICT_CLASSES[i % len(G.DICT_CLASSES)] if i < 40 else None)
        branches = execute(ctx, case)
        if branches is not None:
            account(ctx, case, branches)
    for gen, quick, thorough in ((G.gen_keys_case, 320, 6000), (G.gen_confusable_case, 160, 3000), (G.gen_special_case, 480, 9000),
                                 (G.gen_collide_case, 200, 4000), (G.gen_force_case, 300, 6000), (G.gen_tuple_case, 400, 8000)):
        for _ in range(ctx.budget(quick, thorough)):
            case = gen(rng)
            branches = execute(ctx, case)
            if branches is not None:
                account(ctx, case, branches)
    # several update() calls in a row through one FeatureDB object: each strategy x {empty autoincrements table, counters}
    # on every shard first, then free choice
    combos = [(st, start) for st in G.STRATEGIES for start in ("keyed", "counters")]
    for i in range(ctx.budget(200, 5000)):
        st, start = combos[i % len(combos)] if i < 2 * len(combos) else (None, None)
        case = G.gen_successive_case(rng, strategy=st, start=start)
        branches = execute(ctx, case)
        if branches is not None:
            account(ctx, case, branches)
    for _ in range(ctx.budget(240, 4500)):
        case = G.gen_stale_case(rng)
        stats = execute(ctx, case)
        if stats is None:
            continue
        ctx.classes["stale: changed through %s handle" % ("the same" if case["via"] == "same" else "another")] += 1
        ctx.classes["fmt=" + case["fmt"]] += 1
        ctx.case(("stale", case["fmt"], case["spec"], text_of(case["base"], case["fmt"]), case["ops"], case["via"], case["foreign"]["perm"]),
                 stats["moved"] > 0,
                 sample={"kind": "stale", "fmt": case["fmt"], "spec": case["spec"], "via": case["via"],
                         "ops": [o["op"] + ("_" + o["which"] if "which" in o else "") for o in case["ops"]],
                         "base": text_of(case["base"], case["fmt"])[:400]})
    # explicit ids that spell an auto-numbered key: every strategy x {create_db, update()} on every shard first
    combos = [(st, path) for st in G.AUTOCLASH_STRATEGIES for path in ("create", "update")]
    for i in range(ctx.budget(360, 7000)):
        st, path = combos[i % len(combos)] if i < 2 * len(combos) else (None, None)
        case = G.gen_autoclash_case(rng, strategy=st, path=path)
        info = execute(ctx, case)
        if info is None:
            continue
        ctx.classes["autoclash: strategy=" + case["strategy"]] += 1
        ctx.classes["autoclash: " + ("create_db + update()" if len(case["batches"]) > 1 else "create_db")] += 1
        ctx.classes["autoclash: form=" + case["form"]] += 1
        ctx.classes["fmt=" + case["fmt"]] += 1
        if info["explicit_first"]:
            ctx.mon("autoclash: explicit id placed BEFORE the auto-numbered feature it collides with", info["explicit_first"])
        if info["auto_first"]:
            ctx.mon("autoclash: explicit id arriving AFTER the auto-numbered feature it collides with", info["auto_first"])
        if info["callable_auto"]:
            ctx.mon("autoclash: the colliding key was made by a callable's 'autoincrement:X'")
        text = "".join(text_of(b, case["fmt"]) for b in case["batches"])
        ctx.case(("autoclash", case["fmt"], case["spec"], case["strategy"], len(case["batches"][0]), text), True,
                 sample={"kind": "autoclash", "fmt": case["fmt"], "spec": case["spec"], "strategy": case["strategy"],
                         "batches": [len(b) for b in case["batches"]], "text": text[:500]})
    # create_db(data=<FeatureDB>, id_spec=S): each history on every shard first
    for i in range(ctx.budget(280, 6000)):
        case = G.gen_dbcopy_case(rng, history=G.DBCOPY_HISTORIES[i % len(G.DBCOPY_HISTORIES)] if i < 10 else None)
        info = execute(ctx, case)
        if info is None:
            continue
        ctx.classes["dbcopy: source history=" + case["history"]] += 1
        ctx.classes["dbcopy: source id_spec form=" + case["sform"]] += 1
        ctx.classes["dbcopy: form=" + case["form"]] += 1
        ctx.classes["fmt=" + case["fmt"]] += 1
        for b in set(info["branches"]):
            ctx.classes["dbcopy: branch=" + b] += 1
        text = text_of(case["base"], case["fmt"])
        ctx.case(("dbcopy", case["fmt"], case["spec1"], case["spec"], str(case["ops"]), text, len(case["later"])), info["moved"] > 0,
                 sample={"kind": "dbcopy", "fmt": case["fmt"], "spec1": case["spec1"], "spec": case["spec"], "history": case["history"],
                         "text": text[:500]})
    # the lines handed over as Feature objects, attribute values in lists / tuples / list subclasses: each style on every shard first
    styles = ["tuple", "listsub", "mixed", "list"]
    for i in range(ctx.budget(600, 12000)):
        case = gen_objects_case(rng, style=styles[i % len(styles)] if i < 2 * len(styles) else None)
        branches = execute(ctx, case)
        if branches is None:
            continue
        kinds = sorted(set(branches))
        outcome = "reject" if "multi-valued->reject" in kinds else "keys"
        for cls in ["objects: holders=" + case["objects"]["style"], "objects: fmt=" + case["fmt"], "objects: data=" + case["objects"]["as"],
                    "objects: outcome=" + outcome, "fmt=" + case["fmt"]] + ["objects: branch=" + b for b in kinds]:
            ctx.classes[cls] += 1
        text = "".join(text_of(b, case["fmt"]) for b in case["batches"])
        ctx.case(("objects", case["fmt"], case["spec"], len(case["batches"]), text, str(case["objects"])),
                 len(kinds) >= 2 or outcome == "reject",
                 sample={"kind": "import", "objects": {"as": case["objects"]["as"], "style": case["objects"]["style"]}, "fmt": case["fmt"],
                         "spec": case["spec"], "branches": kinds, "text": text[:500]}, cls="feature objects")
    # create_db to a path that already holds a database: with and without force on every shard first
    for i in range(ctx.budget(240, 5000)):
        case = gen_occupied_case(rng, force=(i % 2 == 0) if i < 8 else None)
        branches = execute(ctx, case)
        if branches is None:
            continue
        kinds = sorted(set(branches))
        ctx.classes["occupied path: " + ("force=True" if case["preexisting"]["force"] else "no force")] += 1
        ctx.classes["fmt=" + case["fmt"]] += 1
        text = "".join(text_of(b, case["fmt"]) for b in case["batches"])
        ctx.case(("occupied", case["fmt"], case["spec"], len(case["batches"]), text, text_of(case["preexisting"]["recs"], case["fmt"]),
                  case["preexisting"]["force"]), True,
                 sample={"kind": "import", "preexisting": {"force": case["preexisting"]["force"], "lines": len(case["preexisting"]["recs"])},
                         "fmt": case["fmt"], "spec": case["spec"], "text": text[:400]}, cls="occupied path")
    ctx.mon("autoid contract evaluations", contracts.EVALS["autoid"])
    ctx.mon("bins.bins contract evaluations", contracts.EVALS["bins.bins"])


MANIFEST = {
    "technique": "reference key derivation (own counters) vs real create_db/update; exhaustive look-up of stored keys; "
                 "generated near-miss keys; icontract postcondition on _increment_featuretype_autoid",
    "text": "Each generated annotation is imported by the real create_db (GFF3 and GTF importers, optionally followed by "
            "FeatureDB.update) under one of 13 id_spec forms. The id column (read with plain sqlite3) is compared line by "
            "line with a reference derivation written from the statement; every stored feature is fetched with db[key] "
            "and db[feature] and must be that feature; generated near-miss keys must raise FeatureNotFoundError and "
            "nothing else; a multi-valued id attribute reached by the spec must make the import raise. A runtime "
            "contract on the real counter function checks +1 per call and no key handed out twice per import. GTF files are "
            "also imported with id_spec None under non-default gtf keys (the format's default spec must apply); files with "
            "ids that differ only in case / blanks / numeric spelling / '%' and '_' are looked up exactly and the unused "
            "spellings probed as absent; Feature objects fetched before a delete / update (rowids reused) / replace, "
            "through the same or a second FeatureDB, and Features read from another database are looked up again: the "
            "result must be the feature now stored under feature.id, or FeatureNotFoundError. Attribute values that look like "
            "a callable's special return values ('autoincrement:X', ':seqid:') must be the key verbatim under every non-callable "
            "spec form, keep their children, and collide when equal; dict id_spec objects of five dict subclasses (defaultdict, "
            "__missing__, OrderedDict, plain, aliasing __getitem__) must be asked with d[featuretype], in create_db and in "
            "update(id_spec=...). Sequences of 2-4 update() calls through one FeatureDB object (first import with / without "
            "auto-numbered keys, every merge strategy, optional reopen in between) must keep counting '<featuretype>_<n>' and leave "
            "every stored feature as imported. Every sampled stored key is also looked up as a str-subclass instance (found), as bytes "
            "in several encodings through handles of default_encoding utf-8 / latin-1 (FeatureNotFoundError) and, when numeric-looking, "
            "as int (FeatureNotFoundError or the feature stored under str(int)). GTF-looking (and GFF3) files are also imported "
            "with force_gff=True: under id_spec None the GFF default must apply (ID, else '<featuretype>_<n>'; gene_id / "
            "transcript_id are ordinary attributes), explicit specs mean what they say. Dict id_spec entries (and whole specs) "
            "given as tuples of names must behave like the list of the same names, multi-valued rejection included. Files in which an "
            "explicit id spells the '<base>_<k>' key that an auto-numbered feature gets by the rule are imported (create_db, or explicit id "
            "stored first and the anonymous features added by update()) under each merge strategy: 'error' must raise, the others must leave "
            "exactly the keys / lines the rule plus the strategy give, the numbering going on without skipping and the next number absent. "
            "Databases built under another id_spec, with deleted and added features, are handed to create_db as data under a new id_spec S: "
            "the new keys must be those S gives for the features in the order the source iterates them, whatever they were called before; "
            "an update() of the copy counts on from the copy's own numbers. "
            "The generated files are also handed over as gffutils Feature objects (list or iterator; GFF3 and GTF dialect) whose attribute values "
            "sit in lists, tuples and list-subclass instances: one-item sequences give the key, a multi-valued id attribute reached by the spec "
            "must make the import raise whatever sequence type holds the values. "
            "Imports into a file path that already holds a gffutils database: with force=True the result must hold exactly the imported features "
            "under the keys id_spec dictates; without force create_db may raise, and a database it returns is judged the same way.",
    "note": "Trusted: gvmon/models/C04.py, the reference renderer, icontract. Inputs whose derived keys collide are "
            "skipped (C05 judges them).",
}
