"""
C07  Parsing a line and printing it reproduces the line in every consistent dialect.

History + executable model: the reference renderer (gvmon/models/dialect.py)
turns (record, dialect point) into a line; the real feature_from_line must give
back the record, the real str() must give back the line byte for byte.
"""
import itertools

from gvmon.gen import records as R
from gvmon.models import dialect as M
from gvmon.monitors import contracts

RULE = ("lines = reference rendering of (record, dialect point); the full cross product of 48 dialect points x attribute "
        "shape tuples (plain / blank-containing / each escaped reserved character / multi-valued / flag, 1..3 attributes "
        "quick, 1..5 thorough) x extra columns x '.' coordinates is executed, then random records, then batches of 2..4 lines (shared keys in another order / a subset / unrelated) "
        "that are all parsed before any is printed; non-trivial = >= 2 "
        "attributes; distinct = distinct (dialect point, shape tuple, extras, dots) or distinct random line")
REQUIRED = ["lines parsed again after editing the first result", "feature_from_line calls", "byte-identical prints", "strict=False comparisons", "_reconstruct contract evaluations",
            "literal lines with an empty-looking attribute column compared", "lines with '%' inside a key", "quoted-dialect lines with a double quote at the edge of a value",
            "prints deferred until other lines had been parsed",
            "deferred prints whose key order differs from the most recently parsed line"]
ASSUMPTIONS = [
    "grammar: values are non-empty, do not begin/end with a blank, reserved characters appear only as upper-case "
    "percent-escapes (gff3 / unquoted gff2) or not at all (gtf: no ; \" , controls); gff3 values contain no double quote",
    "the first attribute of a key=value line is key=value with a \\w+ key (a leading valueless flag is indistinguishable "
    "from the 'key value' style and is excluded, counted under skipped)",
]
EXHAUSTIVE_NOTE = "dialect points x shape tuples x extras x dot-coordinates cross product"
QUICK_SHARDS = 4

KINDS = ["plain", "blank", "esc", "multi", "flag", "nonascii"]


def shape_attr(kind, i, D, esc_char):
    key = ["ID", "Name", "Note", "tag", "Alias"][i]
    escaped = M.escapes(D)
    if kind == "plain":
        return [key, ["v%d" % i]]
    if kind == "blank":
        return [key, ["a b  c%d" % i]]
    if kind == "esc":
        return [key, ["x" + (esc_char if escaped else "%=&"[i % 3]) + "y"]]
    if kind == "multi":
        return [key, ["m%d" % i, "n o", "p"]]
    if kind == "nonascii":
        return [key, ["é漢\U0001F9EC"]]
    return [key, []]


def setup(ctx):
    contracts.install_reconstruct()
    contracts.install_attributes()


def check_line(ctx, rec, D, case):
    """Drive the real parser/printer on one reference-rendered line."""
    from gffutils.feature import feature_from_line

    line = M.render_line(rec, D)
    try:
        f = feature_from_line(line, keep_order=True)
    except Exception as ex:
        ctx.violation(case, {"why": "feature_from_line raised %r" % (ex,), "line": line})
        return
    ctx.mon("feature_from_line calls")
    exp = R.expected_columns(rec)
    got = {k: getattr(f, k) for k in exp}
    if got != exp:
        ctx.violation(case, {"why": "columns differ", "line": line, "got": got, "expected": exp})
        return
    if list(f.extra) != list(rec["extra"]):
        ctx.violation(case, {"why": "extra columns differ", "line": line, "got": list(f.extra), "expected": rec["extra"]})
        return
    gkeys = list(f.attributes.keys())
    ekeys = [k for k, _ in rec["attrs"]]
    gvals = [list(f.attributes[k]) for k in gkeys]
    evals = [list(v) for _, v in rec["attrs"]]
    if gkeys != ekeys or gvals != evals:
        ctx.violation(case, {"why": "attribute keys/values differ", "line": line,
                             "got": list(zip(gkeys, gvals)), "expected": rec["attrs"]})
        return
    for vs in gvals:
        for v in vs:
            if not isinstance(v, str):
                ctx.violation(case, {"why": "non-string attribute value %r" % (v,), "line": line})
                return
    # inferred dialect == exhibited dialect (order aside)
    obs = M.observed(rec["attrs"], D)
    if obs is not None:
        d = dict(f.dialect)
        bad = {k: (d.get(k), obs[k]) for k in obs if k != "order" and d.get(k) != obs[k]}
        if bad:
            ctx.violation(case, {"why": "inferred dialect differs from the exhibited one", "line": line, "diff(got,expected)": bad})
            return
    try:
        printed = str(f)
    except Exception as ex:
        ctx.violation(case, {"why": "printing the parsed feature raised %r" % (ex,), "line": line})
        return
    if printed != line:
        ctx.violation(case, {"why": "printed form differs from the line", "line": line, "printed": printed})
        return
    ctx.mon("byte-identical prints")
    # strict=False: blanks instead of tabs
    cols18 = [rec[k] for k in ("seqid", "source", "featuretype", "start", "end", "score", "strand", "frame")]
    if not rec["extra"] and not any((" " in c or c == "") for c in cols18):
        spaced = M.render_line(rec, D, tabs=False)
        if "\t" not in spaced and spaced == spaced.strip() and len(spaced.splitlines()) == 1:
            try:
                g = feature_from_line(spaced, strict=False, keep_order=True)
            except Exception as ex:
                ctx.violation(case, {"why": "strict=False parse raised %r" % (ex,), "line": spaced})
                return
            ctx.mon("strict=False comparisons")
            same = (g == f) and {k: getattr(g, k) for k in exp} == exp and \
                [(k, list(g.attributes[k])) for k in g.attributes.keys()] == list(zip(gkeys, gvals))
            if not same:
                ctx.violation(case, {"why": "strict=False rendering parses to an unequal Feature", "spaced": spaced,
                                     "got": str(g), "expected": str(f)})
                return
    # parsing is a function of the line: edit the first result in place, parse the same line again
    if gkeys and (hash(line) & 7) == 0:
        try:
            f.attributes[gkeys[0]].append("edited-in-place")
            f.attributes["added_key"] = ["x"]
            f.dialect["order"].append("added_key")
            h = feature_from_line(line, keep_order=True)
            again = [(k, list(h.attributes[k])) for k in h.attributes.keys()]
        except Exception as ex:
            ctx.violation(case, {"why": "parsing the same line a second time raised %r" % (ex,), "line": line})
            return
        ctx.mon("lines parsed again after editing the first result")
        if again != list(zip(ekeys, evals)) or str(h) != line:
            ctx.violation(case, {"why": "a second parse of the same line is affected by edits made to the first result",
                                 "line": line, "second_parse": again, "printed": str(h)})
            return
    for v in contracts.drain():
        ctx.violation(case, v)


def check_literal(ctx, case):
    """A literal line whose attribute column is one of the 'nothing here' spellings: printing reproduces it byte for byte."""
    from gffutils.feature import feature_from_line

    line = case["line"]
    try:
        f = feature_from_line(line, keep_order=True)
        printed = str(f)
    except Exception as ex:
        ctx.violation(case, {"why": "parsing/printing a literal line raised %r" % (ex,), "line": line})
        return
    ctx.mon("literal lines with an empty-looking attribute column compared")
    cols = line.split("\t")
    if printed != line or [f.seqid, f.source, f.featuretype] != cols[:3] or list(f.extra) != cols[9:]:
        ctx.violation(case, {"why": "printed form differs from the line", "line": line, "printed": printed})
        return
    for v in contracts.drain():
        ctx.violation(case, v)


def check_batch(ctx, case):
    """Several lines parsed first, printed afterwards: every Feature still gives its own line's attributes and prints
    its own line byte for byte, whatever was parsed in between (the statement holds per line, with no proviso about
    other calls)."""
    from gffutils.feature import feature_from_line

    lines = [M.render_line(rec, D) for rec, D in case["members"]]
    feats = []
    for line in lines:
        try:
            feats.append(feature_from_line(line, keep_order=True))
        except Exception as ex:
            ctx.violation(case, {"why": "feature_from_line raised %r" % (ex,), "line": line})
            return
        ctx.mon("feature_from_line calls")
    order = list(range(len(lines)))
    if case.get("reverse"):
        order.reverse()
    for i in order:
        rec, line, f = case["members"][i][0], lines[i], feats[i]
        got = [[k, list(f.attributes[k])] for k in f.attributes.keys()]
        exp = [[k, list(v)] for k, v in rec["attrs"]]
        if got != exp:
            ctx.violation(case, {"why": "attributes of a Feature differ from its line after other lines were parsed",
                                 "line": line, "member": i, "got": got, "expected": exp})
            return
        try:
            printed = str(f)
        except Exception as ex:
            ctx.violation(case, {"why": "printing a Feature after other lines were parsed raised %r" % (ex,), "line": line})
            return
        if printed != line:
            ctx.violation(case, {"why": "printed form differs from the Feature's own line after other lines were parsed",
                                 "member": i, "line": line, "printed": printed, "all_lines": lines})
            return
        ctx.mon("prints deferred until other lines had been parsed")
        if i != len(lines) - 1 and [k for k, _ in rec["attrs"]] != [k for k, _ in case["members"][-1][0]["attrs"]]:
            ctx.mon("deferred prints whose key order differs from the most recently parsed line")
    for v in contracts.drain():
        ctx.violation(case, v)


def batch_members(rng, pts):
    """2..4 (record, dialect point) pairs; later members reuse keys of the first in another order / as a subset, or are unrelated."""
    D0 = rng.choice(pts)
    first = R.record(rng, D0, nmin=2, nmax=6)
    members = [[first, D0]]
    for _ in range(rng.randrange(1, 4)):
        r = rng.random()
        if r < 0.6:
            # same keys (all, or a subset), other order, fresh columns; stay inside the grammar: no leading flag in key=value style
            D = D0 if rng.random() < 0.7 else rng.choice(pts)
            if D["fmt"] != D0["fmt"]:
                D = D0      # values were generated for D0's escaping rules
            rec = R.record(rng, D, nmin=1, nmax=1)
            attrs = [[k, list(v)] for k, v in first["attrs"]]
            rng.shuffle(attrs)
            if rng.random() < 0.4:
                attrs = attrs[:rng.randrange(1, len(attrs) + 1)]
            if D["fmt"] in ("gff3", "gff3q") and not attrs[0][1]:
                withv = [a for a in attrs if a[1]]
                if not withv:
                    continue
                attrs.remove(withv[0])
                attrs.insert(0, withv[0])
            if D["repeated"]:
                attrs = [[k, [x for x in v if x != ""]] for k, v in attrs]
                if D["fmt"] in ("gff3", "gff3q") and not attrs[0][1]:
                    continue
            rec["attrs"] = attrs
            members.append([rec, D])
        else:
            D = rng.choice(pts)
            members.append([R.record(rng, D, nmin=1, nmax=6), D])
    return members


def execute(ctx, case):
    if case.get("kind") == "literal":
        return check_literal(ctx, case)
    if case.get("kind") == "batch":
        return check_batch(ctx, case)
    check_line(ctx, case["rec"], case["D"], case)


def base_cols(dots):
    return {"seqid": "chr1", "source": "src", "featuretype": "gene", "start": "." if dots == 1 else "100",
            "end": "." if dots == 2 else "200", "score": ".", "strand": "+", "frame": "."}


def run(ctx):
    rng = ctx.rng
    pts = M.points()
    maxn = 3 if ctx.tier == "quick" else 5
    esc_chars = R.RESERVED_LIST
    idx = 0
    n = nt = 0
    sample = None
    for D in pts:
        for nattr in range(0, maxn + 1):
            for shape in itertools.product(KINDS, repeat=nattr):
                if D["fmt"] in ("gff3", "gff3q") and shape and shape[0] == "flag":
                    if ctx.shard == 0:
                        ctx.skip("leading valueless flag in key=value style (outside the grammar)")
                    continue
                for extra in ([], ["x"], ["extra col", "é"]):
                    for dots in (0, 1, 2):
                        idx += 1
                        if not ctx.mine(idx):
                            continue
                        rec = base_cols(dots)
                        esc = esc_chars[idx % len(esc_chars)]
                        rec["attrs"] = [shape_attr(k, i, D, esc) for i, k in enumerate(shape)]
                        rec["extra"] = extra
                        case = {"kind": "line", "D": D, "rec": rec}
                        check_line(ctx, rec, D, case)
                        n += 1
                        if nattr >= 2:
                            nt += 1
                            sample = case
    ctx.case_enum(n, nt, sample=sample)
    ctx.mon("cross-product lines", n)
    # every reserved character, in every dialect with escaping, in every position
    for D in pts:
        if not M.escapes(D):
            continue
        for ch in [chr(i) for i in range(32)] + [chr(127)] + list("%;=&,"):
            idx += 1
            if not ctx.mine(idx):
                continue
            rec = base_cols(0)
            rec["attrs"] = [["ID", ["a" + ch]], ["Note", [ch + "b", "c" + ch + "d"]], ["z", [ch]]]
            rec["extra"] = []
            case = {"kind": "line", "D": D, "rec": rec}
            check_line(ctx, rec, D, case)
            ctx.case(("resv", D, ch), True, cls="each reserved character escaped")
    # the ninth column's 'nothing here' spellings: empty, and the single '.' that the other columns use for 'no value'
    if ctx.shard == 0:
        # ... and a single valueless flag whose name happens to be a JSON scalar
        for col9 in ("", ".", "7", "2024", "-1", "1e5", "0", "true", "false", "null", "NaN", "Infinity", '"x"', "[]", "{}"):
            for extra in ([], ["x"], ["extra col", "."], [""]):
                for c in (("1", "9"), (".", "9"), ("1", ".")):
                    line = "\t".join(["chr1", "src", "gene", c[0], c[1], ".", "+", ".", col9] + extra)
                    case = {"kind": "literal", "line": line}
                    execute(ctx, case)
                    ctx.case(("literal", line), True, sample=case, cls="literal attribute column %r" % col9)
    # random records
    for _ in range(ctx.budget(20000, 800000)):
        D = rng.choice(pts)
        rec = R.record(rng, D, nmin=0 if rng.random() < 0.05 else 1, nmax=6)
        r = rng.random()
        if r < 0.04 and len(rec["attrs"]) >= 2:
            # a key that contains '%' (GC%, %identity, frac%25): keys are text, never a format string nor an escape
            i = rng.randrange(1, len(rec["attrs"]))
            k = rec["attrs"][i][0]
            k2 = rng.choice([k + "%", "%" + k, k[:1] + "%" + k[1:], k + "%25", k + "%%" + "len", k + "%s", k + "%(x)s"])
            if k2 not in [kv[0] for kv in rec["attrs"]]:
                rec["attrs"][i][0] = k2
                ctx.mon("lines with '%' inside a key")
        elif r < 0.08 and D["fmt"] in ("gtf", "gff3q") and rec["attrs"]:
            # quoted dialects: a value whose own text begins and/or ends with a double quote
            cands = [kv for kv in rec["attrs"] if len(kv[1]) == 1]
            if cands:
                kv = rng.choice(cands)
                v = kv[1][0]
                kv[1][0] = rng.choice(['"' + v + '"', '"' + v, v + '"', '"' + v + '" end', '5\' "' + v + '"'])
                ctx.mon("quoted-dialect lines with a double quote at the edge of a value")
        case = {"kind": "line", "D": D, "rec": rec}
        check_line(ctx, rec, D, case)
        ctx.case((D, rec), len(rec["attrs"]) >= 2, sample=case, cls="random %s" % D["fmt"])
    # history: several lines parsed before any of them is printed
    for _ in range(ctx.budget(2000, 80000)):
        members = batch_members(rng, pts)
        if len(members) < 2:
            continue
        case = {"kind": "batch", "members": members, "reverse": rng.random() < 0.3}
        check_batch(ctx, case)
        ctx.case(("batch", members), True, sample=case, cls="batch: parse 2..4 lines, then print each")
    ctx.mon("_reconstruct contract evaluations", contracts.EVALS["parser._reconstruct"])


MANIFEST = {
    "technique": "reference renderer -> real feature_from_line/str; cross-product + random lines; icontract on _reconstruct",
    "text": "Each generated line is produced by an independent renderer of the dialect grammar and pushed through the real "
            "parser and printer; columns, ordered keys, decoded values, inferred dialect, byte-identical print and the "
            "strict=False equivalence are compared per line. The dialect x attribute-shape cross product is executed in "
            "full; beyond it lines are random. Held = no executed line disagreed.",
    "note": "Trusted: the renderer in gvmon/models/dialect.py as the definition of 'consistent dialect'. Lines outside the "
            "stated grammar (leading flags in key=value style, values with leading/trailing blanks, lower-case escapes) "
            "are not generated.",
}
