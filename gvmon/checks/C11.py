"""
C11  Feature-type/strand filters, ordering and counts agree with a full scan.

Small feature sets with many ties are imported by the real create_db (one database serves many queries); every
all_features / features_of_type call is compared with a brute-force filter of the model rows (multiset of ids) and
its sequence is checked for sortedness under SQLite BINARY semantics (gvmon/models/C11.py).  icontract
postcondition on the real helpers.make_query: placeholders == args.  Feature-set flavours: plain, odd (commas, blanks,
wildcards), empty (seqid/source ''), norm (NFC/NFD and case twins); 'encodings' cases open one database file with
FeatureDB(path, default_encoding=utf-8 / latin-1 / ascii) and compare every handle with the model and with the others.
"""
import os
from collections import Counter

from gvmon.gen import C11 as G
from gvmon.models import C11 as M
from gvmon.monitors import contracts, sqltrace

RULE = ("feature sets of 12-90 lines over 2-6 seqids (mixed case, non-ASCII), 2-6 featuretypes (case variants, '_'), "
        "numeric-looking scores/sources, 3-8 distinct starts (ties everywhere), 4% '.' coordinates, extra columns; "
        "queries = {all_features, features_of_type} x featuretype (none/str/list/tuple/set/frozenset/dict/dict.keys()/deque, "
        "present and absent types; per feature set a block that rotates list, tuple, set, frozenset, dict, dict.keys() view, "
        "collections.deque, generator, iter() x {0, 1, 2, 3..all} entries) x "
        "strand x order_by (none; each of the 12 sortable names singly - always run both as str and as 1-tuple; random "
        "pairs and triples as tuple or list) x reverse x (25%) limit= tuple/string with completely_within on/off; per "
        "database one 'counts' case (count_features_of_type for every candidate type, total, featuretypes(), seqids(), "
        "full iteration order).  Every third feature set is 'odd': featuretypes / seqids / sources containing a comma, a "
        "blank, '%', '_', glob wildcards or quotes next to the plain values they could be confused with ('exon,CDS' next "
        "to 'exon' and 'CDS'), queried as a plain string and inside collections, plus never-stored probes ('exo%', "
        "'e_on', 'CDS,exon').  Every 40th query hands over a featuretype list/tuple/set of 1000-1200 entries (matching "
        "types at the first, last, 999th-1001st and other places, half of the lists with ~10% repeated entries), nearly "
        "always with order_by.  Per feature set 3-5 'history' cases: a fresh database is put through 2..n/3 deletes (by "
        "id / by Feature) and in-place rewrites through add_relation(parent_func=, child_func=) adding attributes, "
        "optionally primed before and reopened after, then full iteration, order_by='file_order' (str/tuple/list/"
        "reverse), featuretypes(), seqids(), counts per type and 5 random queries are judged against the surviving "
        "features.  Feature-set flavours rotate (of 6: 1 plain, 2 odd, 1 'empty', 1 'norm', 1 'strands'): 'strands' = the strand "
        "column holds '+', '-', '.', the legal GFF3 '?' and 1-4 values a file may carry although the format does not list them "
        "('*', 'plus', '0', '1', '+-', 'F', 'unknown', ...), 75% of its queries filter on a strand value present in the data "
        "(rarely on one that is not), combined with featuretype / order_by / reverse / limit as drawn; 40% of all ordered queries "
        "hand the order_by names over as strings BUILT AT RUN TIME - ''.join(list(name)), split out of 'seqid,<name>,x', decoded "
        "from bytes, a str subclass instance, strip()ed, concatenated - equal to the literal names but other objects, alone (str "
        "and 1-tuple) and inside tuples / lists; 'empty' = seqid and/or source "
        "is the EMPTY string on some lines (or every seqid is; imported from a file), limit= naming the empty seqid; 'norm' "
        "= seqids / featuretypes / sources that differ only by Unicode normalisation form (NFC vs NFD) or only in case, "
        "queried by either twin and by twins that are not stored.  Per feature set 1-2 'encodings' cases: the database is "
        "written to a file and opened with FeatureDB(path, default_encoding=e) for e in utf-8, latin-1, ascii (text_factory "
        "untouched); seqids(), featuretypes(), counts, the full iteration and 6 queries are judged against the model on "
        "every handle and must agree between the handles in values (id, seqid, source, featuretype, attributes, extra, "
        "printed line) and in order.  non-trivial = expected result has >= 3 rows and (if ordered) >= 2 distinct sort keys; "
        "distinct = distinct (feature set, query) pairs / distinct (feature set, history)")
REQUIRED = ["queries executed", "calls of the real query methods", "result rows compared", "sortedness checks (ascending)",
            "sortedness checks (descending, single column)", "str-vs-tuple order_by comparisons",
            "multi-column reverse: multiset only", "full iterations compared with input order",
            "count_features_of_type comparisons", "featuretypes() comparisons", "seqids() comparisons",
            "contract evaluations: helpers.make_query", "sql: ORDER BY seen", "sql: SELECT without ORDER BY seen",
            # long featuretype collections
            "long featuretype collections (1000-1200 entries) queried", "long featuretype collections with duplicate entries",
            "long featuretype collections with order_by", "long featuretype collections with order_by and reverse",
            "sortedness checks on results of long featuretype collections",
            # every kind of collection
            "featuretype given as list", "featuretype given as tuple", "featuretype given as set",
            "featuretype given as frozenset", "featuretype given as dict", "featuretype given as dict_keys",
            "featuretype given as deque", "featuretype given as generator", "featuretype given as iterator",
            "featuretype collections with 0 entries", "featuretype collections with 1 entry",
            "featuretype collections with 2 entries", "featuretype collections with 3 or more entries",
            "results compared for a featuretype given as frozenset / dict / dict view / deque",
            "featuretype given as frozenset / dict / dict view / deque / one-shot iterator combined with strand",
            "featuretype given as frozenset / dict / dict view / deque / one-shot iterator combined with order_by",
            "featuretype given as frozenset / dict / dict view / deque / one-shot iterator combined with reverse",
            "featuretype given as frozenset / dict / dict view / deque / one-shot iterator combined with limit",
            # odd text in featuretype / seqid / source
            "featuretype argument containing a comma: as a plain string", "featuretype argument containing a comma: inside a collection",
            "featuretype argument containing a comma: features stored under exactly that type",
            "featuretype argument containing a blank: as a plain string", "featuretype argument containing a blank: inside a collection",
            "featuretype argument containing a percent sign: as a plain string",
            "featuretype argument containing a percent sign: inside a collection",
            "featuretype argument containing an underscore: as a plain string",
            "featuretype argument containing an underscore: inside a collection",
            "featuretype argument containing a wildcard: as a plain string", "featuretype argument containing a wildcard: inside a collection",
            "count_features_of_type vs iteration for a type containing a comma",
            "count_features_of_type vs iteration for a type containing a percent sign",
            # histories
            "histories applied before querying", "history: features deleted",
            "history: add_relation calls with parent_func/child_func", "history: rewritten attributes seen in the stored row",
            "full iterations after a history compared with the original relative input order",
            "order_by='file_order' after a history compared with the original relative input order",
            "distinct lists compared after a history", "queries on a database with a history",
            "history: database reopened before the queries",
            # the empty string as a value
            "feature sets: empty seqid stored", "feature sets: empty source stored", "feature sets: every seqid is empty",
            "seqids() comparisons with '' among the values present", "queries whose limit= names the empty seqid",
            "sortedness checks with the empty string among the sort keys",
            "seqids() after deletes / a history with '' among the values present",
            # normalisation forms, case
            "feature sets: seqids that differ only by normalisation form (NFC/NFD) stored",
            "feature sets: featuretypes that differ only by normalisation form (NFC/NFD) stored",
            "feature sets: sources that differ only by normalisation form (NFC/NFD) stored",
            "feature sets: seqids that differ only in case stored", "feature sets: featuretypes that differ only in case stored",
            "featuretype argument with a stored NFC/NFD twin: as a plain string",
            "featuretype argument with a stored NFC/NFD twin: inside a collection",
            "featuretype argument that is the NFC/NFD or case twin of a stored type, itself not stored",
            "featuretype argument with a stored case twin", "limit= seqid with a stored NFC/NFD twin",
            "sortedness checks with NFC/NFD twins among the sort keys",
            "distinct lists compared on a set with NFC/NFD twins",
            "count_features_of_type comparisons for a type with a stored NFC/NFD twin",
            # strand values, order_by names built at run time
            "feature sets: strand '?' stored", "feature sets: strand values other than + - . ? stored",
            "strand filter '?': results judged (value present in the data)",
            "strand filter an unusual value (none of + - . ?): results judged (value present in the data)",
            "strand filter other than '+' / '-' / '.': non-empty results: all_features",
            "strand filter other than '+' / '-' / '.': non-empty results: features_of_type",
            "strand filter other than '+' / '-' / '.': non-empty results with a featuretype restriction",
            "strand filter other than '+' / '-' / '.': non-empty results with order_by",
            "strand filter other than '+' / '-' / '.': non-empty results with order_by and reverse",
            "order_by names equal to, but not the same object as, the literal column name",
            "results judged for order_by 'length' built at run time: alone, as str",
            "results judged for order_by 'length' built at run time: alone, in a 1-tuple",
            "results judged for order_by 'length' built at run time: inside a tuple of several",
            "results judged for order_by 'length' built at run time: inside a list of several",
            "results judged for order_by 'file_order' built at run time: alone, as str",
            "results judged for order_by 'file_order' built at run time: inside a tuple of several",
            "results judged for a real column name built at run time: alone",
            "results judged for a real column name built at run time: inside a tuple / list"] + \
           ["results judged for order_by names built at run time (%s)" % h for h in G.OB_BUILDS] + [
            # default_encoding
            "encodings: databases opened under utf-8 / latin-1 / ascii", "encodings: handles opened with default_encoding=",
            "encodings: databases with non-ASCII seqids / featuretypes / sources stored",
            "encodings: queries judged on every handle", "encodings: result sequences compared between the handles",
            "encodings: feature values compared with the model", "encodings: distinct lists compared on every handle"]
REQUIRED_CLASSES = ["order_by=" + c for c in M.ORDERABLE] + ["order_by: none", "order_by: 2 columns", "order_by: 3 columns",
                                                             "featuretype as str", "featuretype as list",
                                                             "featuretype as tuple", "featuretype as set",
                                                             "featuretype as frozenset", "featuretype as dict",
                                                             "featuretype as dict_keys", "featuretype as deque",
                                                             "featuretype as generator", "featuretype as iterator",
                                                             "featuretype collection: 0 entries", "featuretype collection: 1 entries",
                                                             "featuretype collection: 2 entries", "featuretype collection: many entries",
                                                             "featuretype as frozenset with many entries",
                                                             "featuretype as dict with many entries",
                                                             "featuretype as dict_keys with many entries",
                                                             "featuretype as deque with many entries",
                                                             "featuretype none", "with strand", "with limit",
                                                             "feature set: odd", "feature set: plain",
                                                             "featuretype collection of 1000-1200 entries (with duplicates)",
                                                             "featuretype collection of 1000-1200 entries (no duplicates)",
                                                             "long featuretype collection: order_by",
                                                             "long featuretype collection: order_by + reverse",
                                                             "featuretype containing a comma (str)",
                                                             "featuretype containing a comma (collection)",
                                                             "history: deletes and rewrites",
                                                             "feature set: empty", "feature set: norm", "feature set: strands",
                                                             "with strand '?'", "with an unusual strand value"]
REQUIRED_CLASSES += ["order_by name built at run time=" + c for c in M.ORDERABLE] + [
                                                             "same database under default_encoding utf-8 / latin-1 / ascii"]
ASSUMPTIONS = [
    "sortedness is judged under SQLite BINARY semantics: NULL first, integers numerically, text by UTF-8 bytes; "
    "length = end - start (NULL when a coordinate is '.'); file_order = position in the input",
    "the sort key of 'attributes' and 'extra' is the raw stored column text (read with plain SQL, no ORDER BY); all other "
    "keys come from the input lines",
    "ties may come in any order; reverse is judged for a single column only (several columns: multiset only)",
    "input order is asked of all_features() without any filter or order_by only",
    "'collection' = anything that can be iterated more than once and has a length: list, tuple, set, frozenset, dict (its "
    "keys), dict.keys() view, collections.deque; all are judged alike. A collection with 0 entries: the statement does not say "
    "whether it filters everything out or not at all - both results are accepted, an exception is skipped and counted. A "
    "generator / one-shot iterator is not a collection: if the call raises it is skipped and counted, if it returns the "
    "result is judged like any other",
    "queries with limit= are judged with C06's overlap/within predicate on coordinates far below 2**29",
    "a featuretype given as a plain string names exactly one type, whatever characters it contains; an entry repeated in "
    "a featuretype collection does not repeat features in the result",
    "after deletes and in-place rewrites (add_relation with parent_func/child_func) the 'input order' and 'file_order' of "
    "the surviving features is their original relative order in the input; a history whose rewrite did not reach the "
    "stored row is skipped (C10's subject)",
    "the empty string is a value like any other in seqid / source (distinct lists, limit=, counts, sort keys: '' sorts "
    "before every other text); feature sets with an empty column are imported from a file (from_string= dedents its "
    "argument, which is not this property's subject)",
    "text is compared code point by code point: values that differ only by Unicode normalisation form or only in case are "
    "different values in filters, distinct lists and counts, and sort by their code points (= UTF-8 bytes)",
    "a strand filter is any non-empty string: it selects the features whose stored strand column equals it, whether the value "
    "is one of '+', '-', '.', the legal '?' or anything else a file carried (create_db stores the column verbatim); the empty "
    "string as a strand filter is not generated (the unchanged tree treats strand='' as 'no restriction')",
    "an order_by name is identified by its value (==), not by object identity: a str equal to a valid name - built at run "
    "time, or an instance of a str subclass - is that name",
    "default_encoding only says how bytes keys are decoded; with str arguments every result (values and order, ties "
    "included: same file, same statement) is the same under utf-8, latin-1 and ascii; text_factory is left at its default",
]
QUICK_SHARDS = 4
THOROUGH_SHARDS = 16
CAP_PER_REASON = 2

_DBS = {}
_REASONS = Counter()


def setup(ctx):
    contracts.install_make_query()
    sqltrace.install()


def report(ctx, case, reason_class, detail):
    _REASONS[reason_class] += 1
    if _REASONS[reason_class] > CAP_PER_REASON:
        ctx.mon("violations counted but not stored (reason already stored %dx in this shard): %s"
                % (CAP_PER_REASON, reason_class))
        return
    ctx.violation(case, detail)


def build(ctx, SET, dbfn):
    """Import a feature set with the real create_db.  Sets with an empty column go through a file: from_string=
    dedents its argument (lines that all start with a tab would lose it)."""
    import gffutils

    if not G.is_empty(SET.get("flavor")):
        return gffutils.create_db(SET["text"], dbfn, from_string=True)
    path = ctx.tmp(".gff")
    with open(path, "w", encoding="utf-8", newline="") as fh:
        fh.write(SET["text"])
    try:
        return gffutils.create_db(path, dbfn)
    finally:
        if os.path.exists(path):
            os.unlink(path)


def get_db(ctx, setp):
    import gffutils
    from gvmon.run import Inconclusive

    key = (setp["seed"], setp["n"], setp.get("flavor"))
    if key not in _DBS:
        for k in list(_DBS):
            try:
                _DBS.pop(k)[0].conn.close()
            except Exception:
                pass
        SET = G.make_set(setp["seed"], setp["n"], setp.get("flavor"))
        db = build(ctx, SET, ":memory:")
        raw = db.conn.execute("SELECT id, seqid, source, featuretype, start, end, score, strand, frame, attributes, "
                              "extra FROM features").fetchall()
        raw = {r[0]: tuple(r) for r in raw}
        if len(raw) != len(SET["rows"]):
            raise Inconclusive("the imported feature set differs from the model (see C01)")
        for row in SET["rows"]:
            r = raw.get(row["id"])
            want = tuple(row[c] for c in ("id", "seqid", "source", "featuretype", "start", "end", "score", "strand", "frame"))
            if r is None or r[:9] != want:
                raise Inconclusive("the imported feature set differs from the model (see C01): %r vs %r" % (r, want))
            row["attributes"], row["extra"] = r[9], r[10]
        ctx.mon("databases built")
        ctx.mon("features imported", len(raw))
        for t in SET["traits"]:
            ctx.mon("feature sets: " + t)
        _DBS[key] = (db, SET, {r["id"]: r for r in SET["rows"]})
        sqltrace.reset()
        contracts.drain()
    return _DBS[key]


def ft_values(q):
    """The featuretype collection as handed over (a 'long' query pads q["ft"] to 1000-1200 entries)."""
    if q.get("ft_pad"):
        return G.long_types(q["ft"], q["ft_pad"])
    return list(q["ft"])


def _generator(values):
    for v in values:
        yield v


FT_MAKERS = {
    "list": list, "tuple": tuple, "set": set, "frozenset": frozenset,
    "dict": lambda vals: dict.fromkeys(vals, True),             # the keys are the featuretypes
    "dict_keys": lambda vals: dict.fromkeys(vals).keys(),
    "deque": lambda vals: __import__("collections").deque(vals),
    "generator": lambda vals: _generator(list(vals)),           # one-shot
    "iterator": lambda vals: iter(list(vals)),                  # one-shot
}


def ft_arg(q):
    """A fresh object per call (one-shot iterators are used up by a call)."""
    if q["ft"] is None:
        return None
    if q["ft_form"] == "str":
        return q["ft"][0]
    return FT_MAKERS[q["ft_form"]](ft_values(q))


class _Name(str):
    """A str subclass instance (what a config / CLI / enum layer may hand over)."""


def fresh_name(name, how):
    """A str EQUAL TO `name` built at run time, so that it is not the object of the literal."""
    if how == "join":
        return "".join(list(name))
    if how == "split":
        return ("seqid," + name + ",x").split(",")[1]
    if how == "bytes":
        return str(name.encode("ascii"), "ascii")
    if how == "subclass":
        return _Name(name)
    if how == "strip":
        return (" " + name + "\n").strip()
    if how == "concat":
        return name[:2] + name[2:]
    raise ValueError(how)


def rebuilt(ctx, ob, how):
    """order_by argument `ob` (str / tuple / list) with every name replaced by a run-time built equal string."""
    import sys

    def one(name):
        new = fresh_name(name, how)
        if new == name and new is not sys.intern(str(name)):
            ctx.mon("order_by names equal to, but not the same object as, the literal column name")
        else:
            ctx.mon("order_by names built at run time that ARE the literal's object (nothing exercised)")
        return new

    if isinstance(ob, str):
        return one(ob)
    return type(ob)(one(c) for c in ob)


def call(db, q, order_by, features=False):
    kw = dict(strand=q["strand"], order_by=order_by, reverse=q["reverse"])
    if q["limit"] is not None:
        s, a, b = q["limit"]
        kw["limit"] = (s, a, b) if q["limit_form"] == "tuple" else "%s:%d-%d" % (s, a, b)
        kw["completely_within"] = q["within"]
    if q["api"] == "all_features":
        it = db.all_features(featuretype=ft_arg(q), **kw)
    else:
        it = db.features_of_type(ft_arg(q), **kw)
    return it if features else [f.id for f in it]


def execute_after_delete(ctx, case):
    """The distinct lists and counts must follow the features *present*: prime them on one handle, delete every
    feature of one type and every feature on one seqid through the same handle, and compare again."""
    import gffutils

    SET = G.make_set(case["set"]["seed"], case["set"]["n"], case["set"].get("flavor"))
    rows = SET["rows"]
    db = build(ctx, SET, ":memory:")
    try:
        list(db.featuretypes()), list(db.seqids()), db.count_features_of_type()
        types = sorted(set(r["featuretype"] for r in rows))
        seqids = sorted(set(r["seqid"] for r in rows))
        gone_t = types[case["pick"] % len(types)]
        gone_s = seqids[(case["pick"] // 7) % len(seqids)]
        victims = [r["id"] for r in rows if r["featuretype"] == gone_t or r["seqid"] == gone_s]
        db.count_features_of_type(gone_t)
        for i, v in enumerate(victims):
            db.delete(v if i % 2 else db[v], make_backup=False)
        left = [r for r in rows if r["id"] not in set(victims)]
        ctx.mon("distinct lists compared after deletes")
        if any(r["seqid"] == "" for r in left):
            ctx.mon("seqids() after deletes / a history with '' among the values present")
        checks = [("featuretypes", sorted(db.featuretypes()), sorted(set(r["featuretype"] for r in left))),
                  ("seqids", sorted(db.seqids()), sorted(set(r["seqid"] for r in left))),
                  ("count_features_of_type()", db.count_features_of_type(), len(left)),
                  ("count_features_of_type(deleted type)", db.count_features_of_type(gone_t), 0),
                  ("features_of_type(deleted type)", [f.id for f in db.features_of_type(gone_t)], []),
                  ("all_features order", [f.id for f in db.all_features()], [r["id"] for r in left])]
        for name, got, want in checks:
            if got != want:
                report(ctx, case, "after-delete", {"why": "%s does not follow the features present after deletes" % name,
                                                   "got": got if not isinstance(got, list) else got[:20],
                                                   "expected": want if not isinstance(want, list) else want[:20],
                                                   "deleted type": gone_t, "deleted seqid": gone_s, "set": case["set"]})
                break
    except Exception as ex:
        report(ctx, case, "raised", {"why": "counts after delete raised an exception", "raised": repr(ex)[:200]})
    finally:
        db.conn.close()
        for v in contracts.drain():
            report(ctx, case, "contract", v)
    return {"expected": len(rows), "nkeys": 2}


def execute(ctx, case):
    if case["kind"] == "counts":
        return execute_counts(ctx, case)
    if case["kind"] == "counts_after_delete":
        return execute_after_delete(ctx, case)
    if case["kind"] == "history":
        return execute_history(ctx, case)
    if case["kind"] == "encodings":
        return execute_encodings(ctx, case)
    db, SET, by_id = get_db(ctx, case["set"])
    return judge_query(ctx, case, db, SET["rows"], by_id, case["query"])


def judge_query(ctx, case, db, rows, by_id, q, after_history=False):
    """One query against `db` whose stored features are `rows` (in input order)."""
    ft = set(ft_values(q)) if q["ft"] is not None else None
    want = [r["id"] for r in rows if M.matches(r, ft, q["strand"], q["limit"], q["within"])]
    long_ft = bool(q.get("ft_pad"))
    form = q["ft_form"] if q["ft"] is not None else None
    one_shot = form in G.ONE_SHOT_FORMS
    empty_ft = q["ft"] is not None and not ft
    if empty_ft:
        # a collection without entries: the statement does not say whether that means 'no featuretype filter' or 'no
        # featuretype matches' - both accepted (one of them, consistently within the call)
        want_unfiltered = [r["id"] for r in rows if M.matches(r, None, q["strand"], q["limit"], q["within"])]
    if form is not None and form != "str":
        nent = len(ft)
        ctx.mon("featuretype given as %s" % form)
        ctx.mon("featuretype collections with %s" % ("0 entries" if nent == 0 else "1 entry" if nent == 1 else
                                                      "2 entries" if nent == 2 else "3 or more entries"))
        if form not in ("list", "tuple", "set"):
            for what, on in (("strand", q["strand"]), ("order_by", q["order_by"] is not None), ("reverse", q["reverse"]),
                             ("limit", q["limit"] is not None)):
                if on:
                    ctx.mon("featuretype given as frozenset / dict / dict view / deque / one-shot iterator combined with " + what)
    if long_ft:
        ctx.mon("long featuretype collections (1000-1200 entries) queried")
        ctx.mon("long featuretype collections: entries handed over", len(ft_values(q)))
        if q["ft_pad"]["dups"]:
            ctx.mon("long featuretype collections with duplicate entries")
        if q["order_by"] is not None:
            ctx.mon("long featuretype collections with order_by" + (" and reverse" if q["reverse"] else ""))
    if q["ft"] is not None:
        for t in q["ft"]:
            for name in G.odd_classes(t):
                ctx.mon("featuretype argument containing %s: %s" % (name, "as a plain string" if q["ft_form"] == "str"
                                                                     else "inside a collection"))
                if any(r["featuretype"] == t for r in rows):
                    ctx.mon("featuretype argument containing %s: features stored under exactly that type" % name)
    flavor = case["set"].get("flavor")
    twin_keys = False
    if G.is_empty(flavor) and q["limit"] is not None and q["limit"][0] == "":
        ctx.mon("queries whose limit= names the empty seqid")
    if flavor == "norm":
        stored = set(r["featuretype"] for r in rows)
        form = "as a plain string" if q["ft_form"] == "str" else "inside a collection"
        for t in (q["ft"] or []):
            tw = [x for x in stored if x != t and G.nfc(x) == G.nfc(t)]
            cw = [x for x in stored if x != t and x.lower() == t.lower()]
            if tw:
                ctx.mon("featuretype argument with a stored NFC/NFD twin: " + form)
            if cw:
                ctx.mon("featuretype argument with a stored case twin")
            if (tw or cw) and t not in stored:
                ctx.mon("featuretype argument that is the NFC/NFD or case twin of a stored type, itself not stored")
        if q["limit"] is not None and any(r["seqid"] != q["limit"][0] and G.nfc(r["seqid"]) == G.nfc(q["limit"][0])
                                          for r in rows):
            ctx.mon("limit= seqid with a stored NFC/NFD twin")
    hist = ""
    if after_history:
        ctx.mon("queries on a database with a history")
        hist = " [database with a history: deletes / in-place rewrites through add_relation]"
    cols = q["order_by"]
    if cols is None:
        variants = [("none", None)]
    elif len(cols) == 1:
        variants = [("str", cols[0]), ("tuple", (cols[0],))]
        if q["ob_form"] == "list":
            variants.append(("list", [cols[0]]))
    else:
        variants = [(q["ob_form"], tuple(cols) if q["ob_form"] == "tuple" else list(cols))]
    ctx.mon("queries executed")
    qd = {k: v for k, v in q.items() if v is not None and v is not False}
    seqs = {}
    nkeys = 0
    built = q.get("ob_built") if cols is not None else None
    odd_strand = q["strand"] is not None and q["strand"] not in ("+", "-", ".")
    for label, ob in variants:
        sqltrace.reset()
        ctx.mon("calls of the real query methods")
        if built:
            ob = rebuilt(ctx, ob, built)
        try:
            got = call(db, q, ob)
        except Exception as ex:
            if one_shot or empty_ft:
                # not a collection with entries: the statement is silent, the tree under test need not accept it
                contracts.drain()
                ctx.mon("featuretype given as %s: raised %s (statement silent: not judged)" % (
                    "a one-shot iterator" if one_shot else "a collection with 0 entries", type(ex).__name__))
                ctx.skip("featuretype given as %s: the call raises (statement silent)" % (
                    "a one-shot iterator / generator" if one_shot else "a collection with 0 entries"))
                continue
            for v in contracts.drain():
                report(ctx, case, "contract", v)
            msg = repr(ex)[:200]
            if label == "str" and cols == ["length"] and "no such column: length" in msg and not built:
                report(ctx, case, "length-str", {
                    "why": "order_by='length' given as a plain string raises (only the tuple/list form is translated "
                           "to end - start) [candidate F-C11-1]", "raised": msg, "query": qd})
            else:
                why = "query raised an exception"
                if built:
                    why += " (order_by names are strings built at run time: equal to the literal names, other objects)"
                if odd_strand:
                    why += " (strand=%r, %s)" % (q["strand"], "a value present in the data" if any(
                        r["strand"] == q["strand"] for r in rows) else "a value not present in the data")
                report(ctx, case, "raised" + (":built order_by" if built else "") + (":strand" if odd_strand else ""),
                       {"why": why, "raised": msg, "order_by": repr(ob), "query": qd})
            continue
        stmts = [s for _, s in sqltrace.LOG if "FROM features" in s]
        ctx.mon("sql: ORDER BY seen" if any("ORDER BY" in s for s in stmts) else "sql: SELECT without ORDER BY seen")
        ctx.mon("result rows compared", len(got))
        if one_shot:
            ctx.mon("featuretype given as a one-shot iterator: accepted by the tree under test, result judged")
        if empty_ft:
            if M.multiset_diff(got, want) is None and want_unfiltered:
                ctx.mon("featuretype collection with 0 entries: nothing returned (accepted)")
            elif M.multiset_diff(got, want_unfiltered) is None:
                ctx.mon("featuretype collection with 0 entries: treated as no featuretype filter (accepted)")
                want = want_unfiltered
        elif form is not None and form not in ("str", "list", "tuple", "set"):
            ctx.mon("results compared for a featuretype given as frozenset / dict / dict view / deque")
        d = M.multiset_diff(got, want)
        if not d:
            if built:
                ctx.mon("results judged for order_by names built at run time (%s)" % built)
                for c in cols:
                    if c in ("length", "file_order"):
                        ctx.mon("results judged for order_by %r built at run time: %s" % (c, "alone, as str" if label == "str" else
                                "alone, in a 1-%s" % label if len(cols) == 1 else "inside a %s of several" % label))
                    else:
                        ctx.mon("results judged for a real column name built at run time: " + ("alone" if len(cols) == 1 else "inside a tuple / list"))
            if q["strand"] is not None and case["set"].get("flavor") == "strands":
                present = any(r["strand"] == q["strand"] for r in rows)
                ctx.mon("strand filter %s: results judged (%s)" % (
                    "'?'" if q["strand"] == "?" else "'+' / '-' / '.'" if not odd_strand else "an unusual value (none of + - . ?)",
                    "value present in the data" if present else "value not present: nothing returned"))
                if odd_strand and want:
                    ctx.mon("strand filter other than '+' / '-' / '.': non-empty results: %s" % q["api"])
                    if q["ft"] is not None:
                        ctx.mon("strand filter other than '+' / '-' / '.': non-empty results with a featuretype restriction")
                    if cols is not None:
                        ctx.mon("strand filter other than '+' / '-' / '.': non-empty results with order_by" + (" and reverse" if q["reverse"] else ""))
        if d:
            filt = "+".join(x for x in ("featuretype:" + str(q["ft_form"]) if q["ft"] is not None else "",
                                        "strand" if q["strand"] else "", "limit" if q["limit"] else "") if x) or "no filter"
            report(ctx, case, "multiset", dict(d, why="%s result differs from the full-scan filter (%s)%s" % (q["api"], filt, hist),
                                               order_by=repr(ob), query=qd, set=case["set"]))
            continue
        if any(i not in by_id for i in got):
            continue
        if cols is None:
            if q["ft"] is None and q["strand"] is None and q["limit"] is None:
                ctx.mon("full iterations compared with input order")
                if got != want:
                    report(ctx, case, "input-order", {"why": "full iteration without order_by is not in input order" + hist,
                                                      "got": got[:20], "expected": want[:20], "query": qd,
                                                      "set": case["set"]})
            continue
        keys = [M.sort_key(by_id[i], cols) for i in got]
        nkeys = max(nkeys, len(set(keys)))
        seqs[label] = keys
        if q["reverse"] and len(cols) > 1:
            ctx.mon("multi-column reverse: multiset only")
            continue
        desc = bool(q["reverse"])
        ctx.mon("sortedness checks (descending, single column)" if desc else "sortedness checks (ascending)")
        if G.is_empty(flavor) and any(M.value(by_id[i], c) == "" for i in got for c in cols):
            ctx.mon("sortedness checks with the empty string among the sort keys")
        if flavor == "norm" and cols[0] in ("seqid", "source", "featuretype") and G.twins(
                [M.value(by_id[i], cols[0]) for i in got], G.nfc):
            ctx.mon("sortedness checks with NFC/NFD twins among the sort keys")
        if long_ft:
            ctx.mon("sortedness checks on results of long featuretype collections")
        i = M.first_inversion(keys, descending=desc)
        if i is not None:
            a, b = by_id[got[i]], by_id[got[i + 1]]
            report(ctx, case, "unsorted", {
                "why": "result is not sorted %s by the requested column(s)%s" % ("descending" if desc else "ascending", hist),
                "order_by": repr(ob), "position": i,
                "row i": [a["id"]] + [M.value(a, c) for c in cols], "row i+1": [b["id"]] + [M.value(b, c) for c in cols],
                "query": qd, "set": case["set"]})
    if "str" in seqs and "tuple" in seqs:
        ctx.mon("str-vs-tuple order_by comparisons")
        if seqs["str"] != seqs["tuple"]:
            report(ctx, case, "str-vs-tuple", {"why": "order_by as a string and as a 1-tuple give different sequences "
                                                      "(beyond tie order)", "order_by": cols[0], "query": qd, "set": case["set"]})
    if "list" in seqs and "tuple" in seqs and seqs["list"] != seqs["tuple"]:
        report(ctx, case, "list-vs-tuple", {"why": "order_by as a list and as a tuple give different sequences (beyond "
                                                   "tie order)", "order_by": cols[0], "query": qd, "set": case["set"]})
    for v in contracts.drain():
        report(ctx, case, "contract", v)
    return {"expected": len(want), "nkeys": nkeys}


def execute_history(ctx, case):
    """A database that went through a history (deletes; in-place rewrites through add_relation(parent_func=,
    child_func=) that add attributes; optional reopen) is then queried: input order and 'file_order' keep the original
    relative order of the surviving features, the distinct lists and counts follow the features present, and the
    case's queries are judged as on a fresh database."""
    import os
    import gffutils

    setp = case["set"]
    SET = G.make_set(setp["seed"], setp["n"], setp.get("flavor"))
    rows = SET["rows"]
    dbfn = ctx.tmp(".db") if case["db"] == "file" else ":memory:"
    db = None
    nexp = 0
    try:
        db = build(ctx, SET, dbfn)
        if case.get("prime"):
            list(db.featuretypes()), list(db.seqids()), db.count_features_of_type(), [f.id for f in db.all_features()]
        gone, touched = set(), set()
        for op in case["ops"]:
            if op["op"] == "delete":
                db.delete(op["id"] if op["form"] == "id" else db[op["id"]], make_backup=False)
                gone.add(op["id"])
                ctx.mon("history: features deleted")
            else:
                tag = op["tag"]

                def pf(parent, child, tag=tag):
                    parent.attributes["child_" + tag] = [child.id]
                    return parent

                def cf(parent, child, tag=tag):
                    child.attributes["parent_" + tag] = [parent.id, "x y"]
                    return child

                p, c = (op["parent"], op["child"]) if op["as"] == "id" else (db[op["parent"]], db[op["child"]])
                db.add_relation(p, c, op["level"], parent_func=pf if op["funcs"] in ("parent", "both") else None,
                                child_func=cf if op["funcs"] in ("child", "both") else None)
                ctx.mon("history: add_relation calls with parent_func/child_func")
                if op["funcs"] in ("parent", "both"):
                    touched.add((op["parent"], "child_" + tag))
                if op["funcs"] in ("child", "both"):
                    touched.add((op["child"], "parent_" + tag))
        if case.get("reopen") and dbfn != ":memory:":
            db.conn.close()
            db = gffutils.FeatureDB(dbfn)
            ctx.mon("history: database reopened before the queries")
        left = [dict(r) for r in rows if r["id"] not in gone]
        nexp = len(left)
        # the rewrites must have reached the stored rows (otherwise this history exercised nothing; not C11's subject)
        raw = {r[0]: tuple(r) for r in db.conn.execute("SELECT id, attributes, extra FROM features")}
        for fid, key in sorted(touched):
            if fid in gone:
                continue
            if fid in raw and ('"%s"' % key) in (raw[fid][1] or ""):
                ctx.mon("history: rewritten attributes seen in the stored row")
            else:
                ctx.skip("history: a rewrite through add_relation did not reach the stored row")
                return {"expected": nexp, "nkeys": 0}
        for r in left:
            if r["id"] in raw:
                r["attributes"], r["extra"] = raw[r["id"]][1], raw[r["id"]][2]
        by_id = {r["id"]: r for r in left}
        ids = [r["id"] for r in left]
        ctx.mon("histories applied before querying")
        checks = []
        ctx.mon("full iterations compared with input order")
        ctx.mon("full iterations after a history compared with the original relative input order")
        checks.append(("input-order", "all_features()", [f.id for f in db.all_features()], ids))
        for ob in ("file_order", ("file_order",), ["file_order"]):
            ctx.mon("order_by='file_order' after a history compared with the original relative input order")
            checks.append(("file-order", "all_features(order_by=%r)" % (ob,), [f.id for f in db.all_features(order_by=ob)], ids))
        checks.append(("file-order", "all_features(order_by='file_order', reverse=True)",
                       [f.id for f in db.all_features(order_by="file_order", reverse=True)], ids[::-1]))
        ctx.mon("featuretypes() comparisons")
        ctx.mon("seqids() comparisons")
        ctx.mon("distinct lists compared after a history")
        if any(r["seqid"] == "" for r in left):
            ctx.mon("seqids() after deletes / a history with '' among the values present")
        checks.append(("featuretypes", "featuretypes()", sorted(db.featuretypes()), sorted(set(r["featuretype"] for r in left))))
        checks.append(("seqids", "seqids()", sorted(db.seqids()), sorted(set(r["seqid"] for r in left))))
        checks.append(("count-total", "count_features_of_type()", db.count_features_of_type(), len(left)))
        for t in sorted(set(r["featuretype"] for r in rows)):
            ctx.mon("count_features_of_type comparisons")
            n_model = [r["id"] for r in left if r["featuretype"] == t]
            checks.append(("count", "count_features_of_type(%r)" % t, db.count_features_of_type(t), len(n_model)))
            checks.append(("multiset", "features_of_type(%r)" % t, [f.id for f in db.features_of_type(t)], n_model))
        for reason, name, got, want in checks:
            if got != want:
                report(ctx, case, reason + " after history", {
                    "why": "%s does not follow the surviving features in their original input order after a history "
                           "(deletes / in-place rewrites through add_relation)" % name,
                    "got": got[:20] if isinstance(got, list) else got, "expected": want[:20] if isinstance(want, list) else want,
                    "ops": case["ops"][:12], "set": setp})
                break
        for q in case.get("queries", []):
            judge_query(ctx, case, db, left, by_id, q, after_history=True)
    except Exception as ex:
        report(ctx, case, "raised", {"why": "a query on a database with a history raised an exception",
                                     "raised": repr(ex)[:200], "ops": case["ops"][:12], "set": setp})
    finally:
        try:
            if db is not None:
                db.conn.close()
        except Exception:
            pass
        if dbfn != ":memory:" and os.path.exists(dbfn):
            os.unlink(dbfn)
        for v in contracts.drain():
            report(ctx, case, "contract", v)
    return {"expected": nexp, "nkeys": 2}


ENCODINGS = ["utf-8", "latin-1", "ascii"]


def shown(f):
    """What a returned feature shows (values; the printed line included)."""
    return [f.id, f.seqid, f.source, f.featuretype, f.score, dict((k, list(f.attributes[k])) for k in f.attributes.keys()),
            list(f.extra or []), str(f)]


def execute_encodings(ctx, case):
    """One database file opened with FeatureDB(path, default_encoding=e), text_factory untouched: default_encoding says
    how bytes keys are decoded and nothing else, so every handle must give the model's answers, and the handles must agree
    in values and in order."""
    import gffutils

    setp = case["set"]
    encodings = case.get("encodings") or ENCODINGS
    SET = G.make_set(setp["seed"], setp["n"], setp.get("flavor"))
    rows = [dict(r) for r in SET["rows"]]
    dbfn = ctx.tmp(".db")
    handles = []
    try:
        build(ctx, SET, dbfn).conn.close()
        conn = sqltrace.ORIG_CONNECT(dbfn)
        raw = {r[0]: r for r in conn.execute("SELECT id, attributes, extra FROM features")}
        conn.close()
        if set(raw) != set(r["id"] for r in rows):
            ctx.skip("encodings: the imported feature set differs from the model (see C01)")
            return {"expected": 0, "nkeys": 0}
        for r in rows:
            r["attributes"], r["extra"] = raw[r["id"]][1], raw[r["id"]][2]
        by_id = {r["id"]: r for r in rows}
        ctx.mon("encodings: databases opened under %s" % " / ".join(encodings))
        if any(t.startswith("non-ASCII") for t in SET["traits"]):
            ctx.mon("encodings: databases with non-ASCII seqids / featuretypes / sources stored")
        per = {}
        for enc in encodings:
            db = gffutils.FeatureDB(dbfn, default_encoding=enc)
            handles.append(db)
            ctx.mon("encodings: handles opened with default_encoding=")
            obs = per[enc] = []
            # distinct lists, counts
            ctx.mon("encodings: distinct lists compared on every handle")
            for name, col in (("featuretypes", "featuretype"), ("seqids", "seqid")):
                ctx.mon("%s() comparisons" % name)
                got = list(getattr(db, name)())
                obs.append((name + "()", got))
                want = sorted(set(r[col] for r in rows))
                if sorted(got) != want:
                    report(ctx, case, "encoding-" + name, {
                        "why": "%s() does not list exactly the distinct values present on a handle opened with "
                               "default_encoding=%r" % (name, enc), "got": sorted(got), "expected": want, "set": setp})
            ctx.mon("count_features_of_type comparisons")
            counts = [("", db.count_features_of_type())] + [(t, db.count_features_of_type(t)) for t in SET["types"]]
            obs.append(("counts", counts))
            want = [("", len(rows))] + [(t, sum(1 for r in rows if r["featuretype"] == t)) for t in SET["types"]]
            if counts != want:
                report(ctx, case, "encoding-count", {"why": "count_features_of_type differs from the number of stored features "
                                                            "of the type on a handle opened with default_encoding=%r" % enc,
                                                     "got": counts, "expected": want, "set": setp})
            # full iteration: input order and the values of every feature
            ctx.mon("full iterations compared with input order")
            full = [shown(f) for f in db.all_features()]
            obs.append(("all_features()", full))
            ctx.mon("encodings: feature values compared with the model", len(full))
            want = [[r["id"], r["seqid"], r["source"], r["featuretype"], r["score"], r["extra_in"]] for r in rows]
            got = [x[:5] + [x[6]] for x in full]
            if got != want:
                i = next((i for i, (a, b) in enumerate(zip(got, want)) if a != b), min(len(got), len(want)))
                report(ctx, case, "encoding-values", {
                    "why": "full iteration on a handle opened with default_encoding=%r does not return the stored features "
                           "(id, seqid, source, featuretype, score, extra) in input order" % enc,
                    "position": i, "got": got[i:i + 2], "expected": want[i:i + 2], "set": setp})
            for qi, q in enumerate(case["queries"]):
                ctx.mon("encodings: queries judged on every handle")
                judge_query(ctx, case, db, rows, by_id, q)
                ob = q["order_by"]
                ob = None if ob is None else (tuple(ob) if q["ob_form"] == "tuple" else list(ob))
                try:
                    res = [shown(f) for f in call(db, q, ob, features=True)]
                except Exception as ex:
                    res = "raised " + repr(ex)[:200]
                obs.append(("query %d" % qi, res))
                if isinstance(res, list):
                    ctx.mon("encodings: feature values compared with the model", len(res))
                    bad = [x[:4] for x in res if x[0] not in by_id or x[1:4] != [by_id[x[0]][c] for c in
                                                                                ("seqid", "source", "featuretype")]]
                    if bad:
                        report(ctx, case, "encoding-values", {
                            "why": "a query on a handle opened with default_encoding=%r returns features whose seqid / source "
                                   "/ featuretype are not the stored ones" % enc, "got": bad[:3],
                            "expected": [[by_id[b[0]][c] for c in ("id", "seqid", "source", "featuretype")]
                                         for b in bad[:3] if b[0] in by_id], "query": q, "set": setp})
        ref = encodings[0]
        for enc in encodings[1:]:
            for (name, a), (_, b) in zip(per[ref], per[enc]):
                ctx.mon("encodings: result sequences compared between the handles")
                if a != b:
                    i = next((i for i, (x, y) in enumerate(zip(a, b)) if x != y), 0) if isinstance(a, list) and isinstance(
                        b, list) else 0
                    report(ctx, case, "encoding-differs", {
                        "why": "%s gives different results (values or order) on handles opened with default_encoding=%r and %r"
                               % (name, ref, enc), "position": i,
                        ref: a[i:i + 2] if isinstance(a, list) else a, enc: b[i:i + 2] if isinstance(b, list) else b,
                        "set": setp})
                    break
    except Exception as ex:
        report(ctx, case, "raised", {"why": "opening / querying the database with default_encoding= raised an exception",
                                     "raised": repr(ex)[:300], "set": setp})
    finally:
        for db in handles:
            try:
                db.conn.close()
            except Exception:
                pass
        if os.path.exists(dbfn):
            os.unlink(dbfn)
        for v in contracts.drain():
            report(ctx, case, "contract", v)
    return {"expected": len(rows), "nkeys": 2}


def execute_counts(ctx, case):
    db, SET, by_id = get_db(ctx, case["set"])
    rows = SET["rows"]
    total = db.count_features_of_type()
    ctx.mon("count_features_of_type comparisons")
    if total != len(rows):
        report(ctx, case, "count-total", {"why": "count_features_of_type() differs from the number of stored features",
                                          "got": total, "expected": len(rows), "set": case["set"]})
    cand = set(G.TYPES + ["absent", "%", "gene%", "g_ne"])
    if SET.get("flavor") == "odd":
        cand |= set(G.ODD_TYPES + G.PROBES)
    if SET.get("flavor") == "norm":
        cand |= set(G.NORM_TYPES)
    present = set(r["featuretype"] for r in rows)
    for t in sorted(cand):
        ctx.mon("count_features_of_type comparisons")
        for name in G.odd_classes(t):
            ctx.mon("count_features_of_type vs iteration for a type containing " + name)
        n_model = sum(1 for r in rows if r["featuretype"] == t)
        if SET.get("flavor") == "norm" and any(x != t and G.nfc(x) == G.nfc(t) for x in present):
            ctx.mon("count_features_of_type comparisons for a type with a stored NFC/NFD twin")
        try:
            n = db.count_features_of_type(t)
            n_iter = len(list(db.features_of_type(t)))
        except Exception as ex:
            report(ctx, case, "raised", {"why": "query raised an exception", "raised": repr(ex)[:200], "featuretype": t})
            continue
        if not (n == n_iter == n_model):
            report(ctx, case, "count", {"why": "count_features_of_type(t) differs from the number iterated by "
                                               "features_of_type(t) / present in the input",
                                        "featuretype": t, "count": n, "iterated": n_iter, "in input": n_model,
                                        "types present": sorted(set(r["featuretype"] for r in rows)), "set": case["set"]})
    for name, col in (("featuretypes", "featuretype"), ("seqids", "seqid")):
        ctx.mon("%s() comparisons" % name)
        got = sorted(getattr(db, name)())
        want = sorted(set(r[col] for r in rows))
        if "" in want:
            ctx.mon("%s() comparisons with '' among the values present" % name)
        if G.twins(want, G.nfc):
            ctx.mon("distinct lists compared on a set with NFC/NFD twins")
        if got != want:
            report(ctx, case, name, {"why": "%s() does not list exactly the distinct values present" % name, "got": got,
                                     "expected": want, "set": case["set"]})
    ctx.mon("full iterations compared with input order")
    got = [f.id for f in db.all_features()]
    if got != [r["id"] for r in rows]:
        report(ctx, case, "input-order", {"why": "full iteration without order_by is not in input order", "got": got[:20],
                                          "set": case["set"]})
    for v in contracts.drain():
        report(ctx, case, "contract", v)
    return {"expected": len(rows), "nkeys": 2}


def account_query(ctx, setp, q, r, cls=None):
    cols = q["order_by"]
    if cols is None:
        ctx.classes["order_by: none"] += 1
    elif len(cols) == 1:
        ctx.classes["order_by=" + cols[0]] += 1
    else:
        ctx.classes["order_by: %d columns" % len(cols)] += 1
        for c in cols:
            ctx.classes["order_by (in a tuple)=" + c] += 1
    ctx.classes["featuretype as %s" % q["ft_form"] if q["ft"] is not None else "featuretype none"] += 1
    if q["ft"] is not None and q["ft_form"] != "str":
        n = len(set(q["ft"]))
        size = "0" if n == 0 else "1" if n == 1 else "2" if n == 2 else "many"
        ctx.classes["featuretype collection: %s entries" % size] += 1
        ctx.classes["featuretype as %s with %s entries" % (q["ft_form"], size)] += 1
    if q.get("ft_pad"):
        ctx.classes["featuretype collection of 1000-1200 entries (%s)" % ("with duplicates" if q["ft_pad"]["dups"]
                                                                          else "no duplicates")] += 1
        ctx.classes["long featuretype collection: " + ("no order_by" if cols is None else
                                                       "order_by + reverse" if q["reverse"] else "order_by")] += 1
    if q["ft"] is not None:
        for name in set(n for t in q["ft"] for n in G.odd_classes(t)):
            ctx.classes["featuretype containing %s (%s)" % (name, "str" if q["ft_form"] == "str" else "collection")] += 1
    if q["strand"]:
        ctx.classes["with strand"] += 1
        if q["strand"] not in ("+", "-", "."):
            ctx.classes["with strand '?'" if q["strand"] == "?" else "with an unusual strand value"] += 1
    if q.get("ob_built") and cols is not None:
        ctx.classes["order_by names built at run time: " + q["ob_built"]] += 1
        for c in cols:
            ctx.classes["order_by name built at run time=" + c] += 1
    if q["limit"]:
        ctx.classes["with limit"] += 1
    if q["reverse"]:
        ctx.classes["reverse"] += 1
    return r["expected"] >= 3 and (cols is None or r["nkeys"] >= 2)


def run(ctx):
    rng = ctx.rng
    quick = ctx.tier == "quick"
    nsets = 25 if quick else 100
    nq = ctx.budget(4 * 25 * 400, 16 * 100 * 260) // nsets
    nhist = 3 if quick else 5
    nkinds = 45 if quick else 72
    for si in range(nsets):
        setp = {"seed": rng.randrange(1 << 30), "n": rng.choice([12, 25, 40, 60, 90])}
        flavor = (None, "empty", "odd", "strands", "norm", "odd")[si % 6]
        if si == 7:
            flavor = "empty-all"
        if flavor:
            setp["flavor"] = flavor
        tag = (setp["seed"], setp["n"], setp.get("flavor"))
        _, SET, _ = get_db(ctx, setp)
        ctx.classes["feature set: " + (setp.get("flavor") or "plain").split("-")[0]] += 1
        case = {"kind": "counts", "set": setp}
        execute(ctx, case)
        ctx.case(("counts",) + tag, True, cls="counts / featuretypes / seqids", sample=None)
        case = {"kind": "counts_after_delete", "set": setp, "pick": rng.randrange(1000)}
        execute(ctx, case)
        ctx.case(("counts_after_delete", case["pick"]) + tag, True, cls="counts after deletes", sample=None)
        for ei in range(2 if setp.get("flavor") in (None, "norm") else 1):
            case = {"kind": "encodings", "set": setp, "encodings": list(ENCODINGS),
                    "queries": [G.gen_query(rng, SET) for _ in range(6)]}
            r = execute(ctx, case)
            ctx.classes["same database under default_encoding utf-8 / latin-1 / ascii"] += 1
            ctx.case(("encodings", ei, repr(case["queries"])) + tag, r["expected"] >= 3, cls="one database, three encodings",
                     sample={"set": setp, "encodings": ENCODINGS, "features": r["expected"], "traits": SET["traits"]})
        for hi in range(nhist):
            ops = G.gen_history(rng, SET)
            case = {"kind": "history", "set": setp, "ops": ops, "db": rng.choice(["memory", "memory", "file"]),
                    "prime": rng.random() < 0.5, "queries": [G.gen_query(rng, SET) for _ in range(5)]}
            case["reopen"] = case["db"] == "file" and rng.random() < 0.6
            r = execute(ctx, case)
            nd = sum(1 for o in ops if o["op"] == "delete")
            ctx.classes["history: %s" % ("deletes and rewrites" if 0 < nd < len(ops) else
                                         "deletes only" if nd else "rewrites only")] += 1
            ctx.case(("history", hi, repr(ops)) + tag, len(ops) >= 2 and r["expected"] >= 3, cls="queries after a history",
                     sample={"set": setp, "ops": ops[:6], "surviving features": r["expected"]})
        # every kind of collection x {0, 1, 2, many} entries, combined with strand / order_by / reverse / limit as drawn
        forms = G.COLLECTION_FORMS + G.ONE_SHOT_FORMS
        combos = [(f, z) for z in ("1", "2", "many", "0") for f in forms]
        for ki in range(nkinds):
            q = G.gen_query(rng, SET, kinds=combos[(ki + si * 7) % len(combos)])
            case = {"kind": "query", "set": setp, "query": q}
            r = execute(ctx, case)
            nontrivial = account_query(ctx, setp, q, r)
            ctx.case(tag + (sorted((k, repr(v)) for k, v in q.items()),), nontrivial, cls="%s (collection kinds)" % q["api"],
                     sample={"set": setp, "query": {k: v for k, v in q.items() if v is not None}, "expected rows": r["expected"],
                             "distinct sort keys": r["nkeys"]})
        for qi in range(nq):
            q = G.gen_query(rng, SET, long_ft=(qi % 40 == 7))
            case = {"kind": "query", "set": setp, "query": q}
            r = execute(ctx, case)
            nontrivial = account_query(ctx, setp, q, r)
            ctx.case(tag + (sorted((k, repr(v)) for k, v in q.items()),), nontrivial,
                     cls="%s" % q["api"],
                     sample={"set": setp, "query": {k: v for k, v in q.items() if v is not None}, "expected rows": r["expected"],
                             "distinct sort keys": r["nkeys"]})
    ctx.mon("contract evaluations: helpers.make_query", contracts.EVALS["helpers.make_query"])


MANIFEST = {
    "technique": "tie-rich feature sets -> real create_db; all_features/features_of_type vs brute-force filter (multiset) + "
                 "sortedness under SQLite BINARY semantics; counts and distinct lists; icontract on make_query",
    "text": "Small feature sets with mixed-case and non-ASCII seqids, numeric-looking text columns and many ties are imported by "
            "the real create_db. Every query (featuretype as str or as a collection of any kind - list/tuple/set/frozenset/dict/dict view/deque with "
            "0/1/2/many entries; one-shot iterators judged only if accepted -, strand, every sortable name singly - as str "
            "and as tuple - and in pairs/triples, reverse, optional limit=) is compared as a multiset of ids with a "
            "brute-force filter of the model rows, and the returned sequence is checked for sortedness (NULL first, integers "
            "numerically, text by UTF-8 bytes; ties free; reverse for one column only). count_features_of_type, "
            "featuretypes(), seqids() and the order of a full iteration are compared with the input. An icontract "
            "postcondition on the real helpers.make_query checks placeholders == args on every call. Also: feature sets "
            "whose featuretypes/seqids/sources contain commas, blanks, '%', '_' and wildcards (as a string and inside "
            "collections), featuretype collections of 1000-1200 entries with and without repeats under order_by/reverse, "
            "and databases queried after a history of deletes and in-place rewrites through add_relation (input order, "
            "'file_order', distinct lists and counts must follow the surviving features), feature sets with an EMPTY "
            "seqid/source column (also: every seqid empty), sets whose seqids/featuretypes/sources differ only by Unicode "
            "normalisation form or case, and one database file opened under default_encoding utf-8 / latin-1 / ascii (every "
            "handle judged against the model, handles compared with each other in values and order). Held = no executed "
            "query disagreed.",
    "note": "Trusted: the model in gvmon/models/C11.py, sqlite3. The sort key of the attributes/extra columns is the raw stored "
            "text. Multi-column reverse is only checked as a multiset (the statement is silent).",
}
