"""
C06  Region and limit queries return exactly the overlapping/contained features.

Feature sets on bin-boundary coordinates are imported by the real create_db (one database serves many queries);
every query is answered by the real FeatureDB.region / all_features / features_of_type / children / parents and by
a brute-force scan of the model feature list (gvmon/models/C06.py).  The statement trace of gffutils' own
connection tells whether the bin pre-filter was part of the executed SQL.  Further classes: databases whose seqids
differ only in letter case (twin features at the same coordinates), databases with small features in the first 128 kb
and features around bin ends of every level queried with 100-500 Mb spans and with ends on the last base of a bin, and
several generators of one FeatureDB kept alive at once (nested / zip / random schedules), databases in which many features
have no ID attribute and several of those are byte-identical lines (each is a stored feature and must be returned once),
and 'handles' histories: two FeatureDB objects on one database file, the second one adds (new seqid, existing seqids) and
deletes features, the first one - never reopened - must answer like a scan of the file's current content; databases of
flavour 'reversed' in which about a third of the stored features have start > end (insertion sites written start = end + 1,
origin-spanning features of a circular sequence) - the statement's predicates are plain comparisons and apply verbatim;
and one 'big' case per run: more than 10 000 features (most of them sharing their (start, end) with others) inside one
query interval, every one to be returned exactly once, also by a generator consumed slowly between other queries;
'rewritten' cases: rows REWRITTEN after the import with other coordinates (lines repeating an ID under merge_strategy='replace'
in create_db() / update(), add_relation() with a parent_func / child_func that moves a feature) into another genomic bin of
every level, then every query form, judged on the coordinates now stored in the file (plain sqlite3); and databases imported
from files that carry DIRECTIVES ('##sequence-region <seqid> <start> <end>' for the queried and for other seqids, features
reaching beyond the declared end, query ends beyond it): directives never change what a query returns;
and 'huge' cases: query bounds FAR beyond anything stored (2**62, 2**63 - 1, 2**63, 2**64, 10**20, 2**100) as the end of
two-sided overlap / completely_within queries, as the only bound and in limit=, as ints and as digits of the string forms.
"""
import os
import random
import re
from collections import Counter

from gvmon import dbdump

from gvmon.gen import C06 as G
from gvmon.models import C06 as M
from gvmon.models import binspec as S
from gvmon.monitors import contracts, sqltrace

HOW_NAMES = ["create_db(merge_strategy='replace')", "update(merge_strategy='replace')", "add_relation(parent_func / child_func)"]
RULE = ("feature sets of 300 (quick: 250) features on 2-4 seqids x 3 strands x 5 featuretypes with 12 parent features "
        "(children carry 1-3 Parent values), coordinates from the bin-boundary set {m*2^(17+3k)+d : |d|<=2, k=0..4} U "
        "{2^29, 2^29+2^17}+-2 U random (a 27-value focus subset per database is used for 70% of the ends); queries "
        "over region (tuple, 'seqid:start-end', Feature, seqid=/start=/end= keywords, seqid omitted, only start, only "
        "end) and limit= (tuple, string) of all_features/features_of_type/children/parents x completely_within x "
        "strand x featuretype (str/list/tuple/set); 60% of the query ends are placed at -1/0/+1 of an end of a stored "
        "feature, 10% around 2^29; 1 <= start <= end always.  non-trivial = expected result not empty and a query end "
        "within +-2 of a bin boundary or >= 2^29-2; distinct = distinct (feature set, query) pairs.  Every 4th database "
        "(flavour 'case') has 2 or 4 seqids that differ only in letter case (chrA/chra, pA/pa, ...) and ~40% twin features "
        "with the same coordinates and Parent values on the other spelling; every 4th (flavour 'binends') holds small "
        "features inside [1, 2^17] and features ending on / one off / starting after / filling the bin that ends at "
        "m*2^(17+3k) for 6-8 values of m per level k, and is queried with 'wide' queries (start in 1..2^17, span 100-500 "
        "Mb, end < 2^29, 85% completely_within) and 'bin-end' queries (end = m*2^(17+3k), k = 0..3, start = feature start "
        "+-1 / first base of that bin / 1 / random).  'interleave' cases: 2-4 generators (any of the apis above) of the one "
        "FeatureDB consumed round-robin (zip) or on a random schedule, and nested loops (outer: a query with 2-40 expected "
        "features; inner, per yielded feature f: region(f) / all_features, features_of_type, children, parents with "
        "limit=(f.seqid, f.start, f.end), children(f, limit=...)); every generator is compared with the same call consumed "
        "alone and with the scan.  Every 5th database (flavour 'idless'): ~35% of the non-parent features are written without "
        "an ID attribute (stored under '<featuretype>_<n>' in file order) and about half of those 2-4 times byte-identically "
        "(same Parent values), so that region / limit= results, the children of a parent feature and the features whose "
        "parents() are asked hold byte-identical features.  'handles' cases: a set of 60-120 features (25% flavour 'idless') "
        "is imported into a database FILE; FeatureDB object A answers 30-50 queries (45% of them anchored on features of a "
        "seqid that is not stored yet); then in 1-3 steps another FeatureDB object B on the same file adds 12-40 features "
        "with update() (45% on a brand-new seqid, the others on existing seqids, most of them children of stored or new parent "
        "features) and deletes 0-8 stored ones; after every step A - never reopened, all its generators exhausted - answers "
        "30-50 more queries (all region forms and limit= of the four apis); reference = the file's content at that moment "
        "read with plain sqlite3.  Every 6th database (flavour 'reversed'): ~35% of the features, parent features included, "
        "are stored with start > end - a site between two bases written start = end + 1 (1001..1000) or a feature through the "
        "origin of a circular sequence (4500..300; ends also on bin boundaries and beyond 2^29); 2/3 of its queries are placed "
        "relative to such a feature (within: query end at / around the feature's end or between its end and its start, query "
        "start at 1 / around its end / around its start; overlap: query start around its end, query end around its start); the "
        "statement's comparisons on feature.start and feature.end are applied verbatim.  'big' case (one shard per run; thorough: "
        "every 4th shard): 10 600+ features inside one interval of one seqid, sites of 1-5 records with identical (start, end) "
        "(exon/CDS/match/...), coordinates recurring at later file positions, 150 features outside the interval, 120 on another "
        "seqid; 21 queries whose answers hold > 10 000 features (every region form incl. one-sided and seqid omitted, overlap "
        "and within, all_features(limit=) tuple/string, features_of_type(limit=)) over windows that cut 0-1.5% of the sites at "
        "either side, compared as id multisets with the scan; then 3 schedules on the same FeatureDB: a large region() "
        "generator consumed in chunks of 1-3000 with a complete small query between the chunks (2x), two large generators "
        "consumed alternately (1x).  'rewritten' cases: a set of 60-120 features (30% flavour 'binends') in a database FILE whose rows "
        "are rewritten with other coordinates - mode 'create': one create_db(merge_strategy='replace') over the original lines "
        "followed by lines repeating 20-40% of the IDs (parent features too; 15% of them twice) with coordinates shifted by "
        "m*2^17 / 2^20 / 2^23 / 2^26, grown into a coarser bin, shrunk into a finer one, put on / across the last base of a bin of "
        "level 0-4, across 2^29 (12%: same bin; 10% other seqid / strand, 15% other Parent values); 'update': the same lines "
        "through 1-2 update(merge_strategy='replace') calls; 'relation': 6-15 add_relation(parent, child, 1, parent_func=, "
        "child_func=) calls (ids or Feature objects) whose functions set such coordinates on the parent, the child or both; "
        "'update+relation': both - then 50-70 queries (55% anchored on the rewritten rows' new coordinates, 15% on the imported "
        "ones, 8% parents(limit=) of children of rewritten parent features; all region forms and limit= of the four apis) on "
        "the FeatureDB that did the rewriting or (50%) on one opened afterwards; reference = the file's content read with plain "
        "sqlite3.  Half of the databases of every flavour are imported from a file that carries directives: '##gff-version 3', "
        "'##sequence-region <seqid> <start> <end>' for ~88% of the stored seqids (declared end = a middle feature end of that "
        "seqid, the multiple of 2^17 below one, just below the largest end, or (20%) at / beyond every feature; 12% a second line "
        "for the same seqid), for 1-3 seqids without features (also spellings differing in letter case), other '##' directives; "
        "70% of the lines at the top, the others before the first feature of their seqid; 20-40% of the queries on such a "
        "database (any form) have their end beyond the declared end of the queried seqid, placed on a feature that ends / "
        "starts beyond it.  'oddseq' cases: a small database whose seqids hold ',', '-', ' ', '%', '=', ';', '|' "
        "('contig_12,len=4003', 'chr1,000', 'chr-1-2', '1-5', 'scaffold 7', 'GC50%', 'sc%2C1', ...) next to their twins without "
        "that character ('contig_12len=4003', 'chr1000', ...) and plain ones, all carrying features at the same coordinates; "
        "10-15 queries each asked as region tuple / 'seqid:start-end' string / keyword / Feature form and as limit= tuple / "
        "string of the four apis (string against tuple and both against the scan of the stored rows), 20% as the bare 'seqid' "
        "string; the featuretype restriction of these and of 30% of the list / tuple restrictions of the ordinary queries "
        "names a type more than once (['exon', 'CDS', 'exon']; 35%: built at run time from the featuretypes of a gene's "
        "children); seqids holding ':' are stored too and queried through the tuple / keyword / Feature forms.  'huge' cases: a "
        "database of 20-60 features on 2-3 seqids (genes with exon / CDS children at small coordinates, around 2^17 and 2^29, at "
        "2^30..2^45, and genes / children / loose features reaching 2^62 +-2 and 2^63 - 1, the largest storable coordinate) and 8-11 "
        "queries each with a bound from {2^62, 2^63 - 1, 2^63, 2^64, 10^20} (every value in every case) or a neighbour / 10^30 / "
        "99999999999999999999 / 2^100: 62% as the END of a two-sided query (start 1 / a feature's start or end +-1 / random small / "
        "2^29 / 2^62 / 2^63 - 1 / the end itself), 10% both bounds huge, 14% end only, 14% start only; overlap and completely_within, "
        "strand / featuretype restrictions, seqid omitted in 15%; every two-sided query is asked as region tuple / 'seqid:start-end' "
        "string (the digits) / keywords / Feature form and as limit= tuple and string of all_features / features_of_type / children / "
        "parents of a gene that reaches far out; each answer against the scan with exact Python int comparison")
REQUIRED = ["queries executed", "result rows compared", "sql: bin clause present", "sql: bin clause absent",
            "sql: region bin clause with 9..899 bins", "sql: limit bin clause with 9..899 bins", "sql: region within, both bounds in range, no bin clause (>= 900 bins)",
            "sql: limit, no bin clause (>= 900 bins)", "queries with an end >= 2**29", "one-sided queries",
            "queries touching a feature end exactly", "contract evaluations: helpers.make_query",
            "contract evaluations: bins.bins",
            "case-variant seqids: queries that the other spelling's features would have matched (none returned)",
            "case-variant seqids: such queries through region", "case-variant seqids: such queries through limit=",
            "wide queries (start <= 2^17, span 100-500 Mb): region within", "wide queries (start <= 2^17, span 100-500 Mb): limit within",
            "wide within queries returning features that lie inside the first 128 kb",
            "wide within queries with a bin clause in the SQL", "wide within queries without a bin clause in the SQL",
            "interleaved: generators consumed while another generator of the same FeatureDB was alive",
            "interleaved: nested loops with >= 2 outer items and a non-empty inner result",
            "interleaved: nested loops with region(feature) inside a loop over region(...)",
            "interleaved: schedules over >= 2 non-empty generators (one with >= 2 items)"] + \
           ["bin-end queries (end = m*2^%d): %s, a feature ending on that base returned" % (17 + 3 * k, w)
            for k in range(4) for w in ("region within", "region overlap", "limit within", "limit overlap")] + \
           ["interleaved: generators of %s" % a for a in ("region", "all_features", "features_of_type", "children", "parents")] + \
           ["id-less twins: results holding >= 2 byte-identical features, each returned once: %s" % a
            for a in ("region", "all_features(limit=)", "features_of_type(limit=)", "children(limit=)")] + \
           ["id-less twins: parents(limit=) of one of several byte-identical features, non-empty answer",
            "handles: update() calls on the second handle", "handles: features deleted by the second handle",
            "handles: queries naming a seqid that does not exist yet (nothing returned)",
            "handles: such queries through region", "handles: such queries through limit=",
            "handles: non-empty answers on the seqid added by the second handle: region",
            "handles: non-empty answers on the seqid added by the second handle: limit=",
            "handles: answers holding features the second handle added on an existing seqid: region",
            "handles: answers holding features the second handle added on an existing seqid: limit=",
            "handles: children(limit=) answers holding features added by the second handle",
            "handles: queries that a deleted feature would have matched (not returned): region",
            "handles: queries that a deleted feature would have matched (not returned): limit="] + \
           ["handles: such answers, form region/%s" % f for f in ("tuple", "string", "feature", "kw", "start-only", "end-only")] + \
           ["reversed: features stored with start > end",
            "reversed: completely_within answers holding a start > end feature whose start lies beyond the query end: region",
            "reversed: completely_within answers holding a start > end feature whose start lies beyond the query end: limit=",
            "reversed: overlap answers holding a start > end feature: region",
            "reversed: overlap answers holding a start > end feature: limit=",
            "reversed: children(limit=) answers holding a start > end feature",
            "reversed: parents(limit=) answers holding a start > end feature",
            "reversed: queries that a start > end feature satisfies in one coordinate only (not returned)",
            "big: features imported", "big: answers with more than 10 000 features, each returned once: region",
            "big: answers with more than 10 000 features, each returned once: all_features(limit=)",
            "big: such answers in which >= 1000 (start, end) pairs are shared by several returned features",
            "big: large region() generators consumed in chunks with complete queries in between",
            "big: queries answered between the chunks of a large generator",
            "big: two large generators consumed alternately"] + \
           ["big: such answers, form region/%s" % f for f, _ in G.REGION_FORMS] + \
           ["rewritten: database files built", "rewritten: databases reopened before the queries",
            "rewritten: update(merge_strategy='replace') calls",
            "rewritten: add_relation() calls whose parent_func / child_func set other coordinates",
            "rewritten: queries that the imported coordinates of a rewritten row would have matched (not returned): region",
            "rewritten: queries that the imported coordinates of a rewritten row would have matched (not returned): limit="] + \
           ["rewritten: rows now stored with the coordinates of another genomic bin: %s" % h for h in HOW_NAMES] + \
           ["rewritten: such answers with a bin clause in the SQL, row rewritten by %s" % h for h in HOW_NAMES] + \
           ["rewritten: rows rewritten into another bin of level %d (2^%d bases)" % (k, 17 + 3 * k) for k in range(5)] + \
           ["rewritten: rows rewritten into coordinates beyond 2^29"] + \
           ["rewritten: such answers with a bin clause in the SQL: %s" % w for w in
            ("region within", "limit= overlap", "limit= within", "all_features(limit=)", "features_of_type(limit=)",
             "children(limit=)", "parents(limit=)")] + \
           ["rewritten: such answers with a bin clause in the SQL, form region/%s" % f for f in ("tuple", "string", "feature", "kw")] + \
           ["rewritten: answers holding a row rewritten into another bin: region overlap",
            "directives: sequence-region rows found in the directives table of the database (plain SQL)",
            "directives: stored features reaching beyond the end declared for their seqid",
            "directives: ##sequence-region lines naming a seqid that no feature has",
            "directives: queries on a seqid that no ##sequence-region line names (others are named)",
            "directives: end-only answers holding a feature that reaches beyond the declared end"] + \
           ["directives: %s: %s" % (w, k) for w in ("completely_within answers holding a feature that ends beyond the declared end",
                                                   "overlap answers holding a feature that starts beyond the declared end")
            for k in ("region", "limit=")] + \
           ["directives: such answers, form %s" % f for f in ("region/tuple", "region/string", "region/feature", "region/kw",
                                                              "all_features/tuple", "features_of_type/tuple", "children/tuple",
                                                              "parents/tuple", "all_features/string")]
REQUIRED += ["odd seqids: databases built",
             "odd seqids: bare 'seqid' string form, non-empty answer equal to the keyword form",
             "odd seqids: bare 'seqid' string form, non-empty answer, seqid holding ','",
             "odd seqids: region string-form queries that another stored seqid's features would have matched (none returned)",
             "odd seqids: region string-form queries that the features of the twin seqid without the character would have "
             "matched (none returned)",
             "odd seqids: non-empty tuple / keyword / Feature form answers on a seqid holding ':'",
             "repeated featuretypes: restriction built from the featuretypes of a feature's children"] + \
            ["odd seqids: %s string form, non-empty answer equal to the tuple form, seqid holding %s" % (k, c)
             for k in ("region", "limit=") for c in ("','", "'-'", "' '", "'%'")] + \
            ["repeated featuretypes: non-empty answers, each feature once: %s" % a
             for a in ("region", "region within", "region overlap", "all_features(limit=)", "features_of_type(limit=)",
                       "children(limit=)", "parents(limit=)")]
REQUIRED += ["huge: databases built", "huge: stored features with an end >= 2**62",
             "huge: region answers judged, both bounds >= 2**62",
             "huge: non-empty region answers judged, end >= 2**63: overlap",
             "huge: region answers holding a feature that ends at or beyond 2**62, end >= 2**63",
             "huge: non-empty limit= answers judged, end >= 2**63: overlap", "huge: non-empty limit= answers judged, end >= 2**63: within",
             "huge: non-empty one-sided answers judged, bound 2**62 .. 2**63-1",
             "huge: one-sided answers judged, bound 2**62 .. 2**63-1: start-only",
             "huge: one-sided answers judged, bound 2**62 .. 2**63-1: end-only"] + \
            ["huge: region answers judged, end %s: form %s" % (b, f) for b in ("2**62 .. 2**63-1", ">= 2**63")
             for f in ("tuple", "string", "kw", "feature", "kw-noseqid")] + \
            ["huge: non-empty %s answers judged, end 2**62 .. 2**63-1: %s" % (k, w) for k in ("region", "limit=")
             for w in ("overlap", "within")] + \
            ["huge: limit= answers judged, end 2**62 .. 2**63-1: %s form" % f for f in ("tuple", "string")] + \
            ["huge: limit= answers judged, end >= 2**63: %s" % a for a in ("string form", "all_features", "features_of_type",
                                                                          "children", "parents")]
REQUIRED_CLASSES = ["region/%s/%s" % (f, w) for f, _ in G.REGION_FORMS for w in ("overlap", "within")] + \
                   ["%s/%s/%s" % (a, f, w) for a in ("all_features", "features_of_type", "children", "parents")
                    for f, _ in G.LIMIT_FORMS for w in ("overlap", "within")] + \
                   ["interleave/nested", "interleave/schedule", "handles/second handle updates the file", "big/one large answer",
                    "rewritten/rows rewritten with other coordinates",
                    "directives/queries on a database imported from a file with ##sequence-region lines",
                    "oddseq/seqids holding , - space % and repeated featuretype entries",
                    "huge/query bounds of 2**62 and more"]
ASSUMPTIONS = [
    "query bounds of 2**63 and more (beyond sqlite's INTEGER range; every bound up to 2**63 - 1 is judged in every form): the "
    "unchanged tree answers exactly through region() two-sided overlap queries (tuple / string / keyword / Feature form, seqid "
    "omitted) and through limit= given as a 'seqid:start-end' STRING (all_features, features_of_type, children, parents; overlap "
    "and completely_within) - there an exception is a violation; it raises OverflowError ('Python int too large to convert to "
    "SQLite INTEGER') from region(..., completely_within=True) in every form, from region() with one bound only, and from limit= "
    "given as a (seqid, start, end) TUPLE of the four apis, e.g. region(('chr1', 1, 2**63), completely_within=True), "
    "region(seqid='chr1', end=2**63), all_features(limit=('chr1', 1, 2**63)): in those forms an OverflowError is accepted and "
    "counted, every answer they do return is judged against the scan",
    "one bound only: a result R is accepted when {strictly beyond the bound} <= R <= {at or beyond the bound}; for "
    "completely_within the deciding coordinate is the feature's start (only start given) / end (only end given), "
    "otherwise the feature's end / start",
    "Feature form: judged against the documented behaviour (the query feature's strand is ignored, only strand= restricts)",
    "limit= is given as a (seqid, start, end) tuple or a 'seqid:start-end' string (the documented forms); seqids in "
    "string forms contain no ':' (the unchanged tree cannot express one: region('a:b:1-5') reads seqid 'a' and coordinates 'b' "
    "and raises ValueError; all_features(limit='a:b:1-5') raises too) - seqids holding ':' are queried through the tuple / "
    "keyword / Feature forms only; every other character of a stored seqid (',', '-', ' ', '%', '=', ';', '|') belongs to the "
    "seqid in the string forms as well",
    "the bare 'seqid' string form of region() (no coordinates) is judged only against region(seqid=...) with the same "
    "restrictions (equal multisets) and against the features of other seqids / outside the restrictions (none returned, each "
    "feature once); that it returns every feature of the seqid is counted, not demanded",
    "a featuretype iterable that names a type more than once restricts like the set of its entries (each feature once)",
    "queries with no bound at all and empty featuretype collections are outside the statement and not generated",
    "children/parents: two-level hierarchies only (level-1 relations), so the relation model is the Parent attribute",
    "seqids are compared as exact strings (letter case matters), as everywhere else in gffutils and in the GFF3 format",
    "interleaved generators: the database is not modified while they are alive; a generator is compared as a multiset with "
    "the same call consumed alone (no order is promised) and with the scan",
    "a line without ID attribute is a stored feature of its own (id '<featuretype>_<n>', n counting such lines of that "
    "featuretype in file order); byte-identical lines are as many stored features, each to be returned once",
    "handles: 'stored features' are those in the database file at the moment of the query, read with plain sqlite3 after the "
    "second object's update()/delete() returned (what update()/delete() must store is C10's; a file content other than "
    "added/deleted is only counted); every generator of the first object is exhausted before the file is changed; children/"
    "parents universes are the level-1 rows of the file's relations table; ids are named only while stored",
    "stored features with start > end: the statement's comparisons are applied as written (overlap: feature.start <= end and "
    "feature.end >= start; within: start <= feature.start and feature.end <= end).  NOT judged: region() overlap queries with "
    "start == end == the start or the end coordinate of such a feature - the unchanged tree returns the feature there (all "
    "region forms; e.g. feature 1001..1000, region(('c', 1001, 1001)) and region(('c', 1000, 1000))) although the comparisons "
    "say no, while limit= follows the comparisons; those features may or may not be returned and are counted in a monitor",
    "rewritten rows: 'the stored features' are the rows of the file after create_db(merge_strategy='replace') / update(..., "
    "merge_strategy='replace') / add_relation(parent_func=, child_func=) returned, read with plain sqlite3 (start, end, seqid, "
    "strand, featuretype columns and the level-1 rows of the relations table); WHAT those calls must store is not judged here "
    "(a content other than the expected one is only counted; a call that raises is skipped and counted); the stored bin column "
    "is shown in a violation's detail but is not itself compared",
    "directives ('##...' lines, wherever they stand in the file) are no features and take no part in the statement: the answers "
    "of a database imported from a file with directives are those of the scan of its features; a '##sequence-region' line does "
    "not bound the features of its seqid (circular genomes, stale directives)",
]
QUICK_SHARDS = 4
THOROUGH_SHARDS = 16
CAP_PER_REASON = 2   # replay files kept per reason class and shard; the rest is counted in a monitor

_DBS = {}            # (seed, n) -> (db, SET, stored bins)
_REASONS = Counter()


def setup(ctx):
    contracts.install_bins()
    contracts.install_make_query()
    sqltrace.install()


# ---------------------------------------------------------------------------------------------------------
def get_db(ctx, setp):
    import gffutils

    key = (setp["seed"], setp["n"], bool(setp.get("moved")), setp.get("flavour"), setp.get("directives"))
    if key not in _DBS:
        for k in list(_DBS):
            try:
                _DBS.pop(k)[0].conn.close()
            except Exception:
                pass
        SET = G.make_set(setp["seed"], setp["n"], flavour=setp.get("flavour"))
        SET["by_id"] = {f["id"]: f for f in SET["features"]}
        text, D = SET["text"], None
        if setp.get("directives") is not None:
            # the same features in a file that carries directives ('##sequence-region <seqid> <start> <end>' and others)
            D = G.make_directives(setp["directives"], SET)
            text, SET["declared"] = D["text"], D["declared"]
        if setp.get("moved"):
            # the same feature set, but every line is written at a placeholder position and moved to its real
            # coordinates by a transform: the stored bin has to be computed from the coordinates actually stored
            where = {f["id"]: (f["start"], f["end"]) for f in SET["features"]}
            lines = []
            for ln in text.split("\n"):
                c = ln.split("\t")
                if len(c) >= 9 and not ln.startswith("#"):
                    c[3], c[4] = "1", "2"
                lines.append("\t".join(c))

            def move(f):
                f.start, f.end = where[f.attributes["ID"][0]]
                return f
            db = gffutils.create_db("\n".join(lines), ":memory:", from_string=True, transform=move)
            ctx.mon("databases built through a coordinate-moving transform")
        else:
            db = gffutils.create_db(text, ":memory:", from_string=True)
        rows = db.conn.execute("SELECT id, seqid, featuretype, start, end, strand, bin FROM features").fetchall()
        stored = {r[0]: tuple(r)[1:] for r in rows}
        model = {f["id"]: (f["seqid"], f["featuretype"], f["start"], f["end"], f["strand"]) for f in SET["features"]}
        if {k: v[:5] for k, v in stored.items()} != model:
            # import fidelity is C01's business; here it is a precondition
            from gvmon.run import Inconclusive
            raise Inconclusive("the imported feature set differs from the model (see C01)")
        rel = sorted((r[0], r[1]) for r in db.conn.execute("SELECT parent, child FROM relations"))
        want = sorted((p, f["id"]) for f in SET["features"] for p in f["parents"])
        if rel != want:
            from gvmon.run import Inconclusive
            raise Inconclusive("the stored relations differ from the model (see C02)")
        ctx.mon("databases built")
        if setp.get("flavour"):
            ctx.mon("databases built: flavour '%s'" % setp["flavour"])
        ctx.mon("features imported", len(rows))
        if setp.get("flavour") == "reversed":
            ctx.mon("reversed: features stored with start > end", sum(1 for r in rows if r[3] > r[4]))
        if D is not None:
            kept = [r[0] for r in db.conn.execute("SELECT directive FROM directives")]
            ctx.mon("directives: databases imported from a file with ##sequence-region lines")
            ctx.mon("directives: ##sequence-region lines in the imported files", D["lines"])
            ctx.mon("directives: sequence-region rows found in the directives table of the database (plain SQL)",
                    sum(1 for x in kept if str(x).split()[:1] == ["sequence-region"]))
            ctx.mon("directives: ##sequence-region lines naming a seqid that no feature has", D["others"])
            ctx.mon("directives: stored features reaching beyond the end declared for their seqid",
                    sum(1 for f in SET["features"] if max(f["start"], f["end"]) > D["declared"].get(f["seqid"], 1 << 62)))
        _DBS[key] = (db, SET, {k: v[5] for k, v in stored.items()})
        sqltrace.reset()
        contracts.drain()
    return _DBS[key]


def ft_arg(q):
    if q["ft"] is None:
        return None
    form = q["ft_form"]
    if form == "str":
        return q["ft"][0]
    return {"list": list, "tuple": tuple, "set": set}[form](q["ft"])


def call(db, q):
    """The real call for query q consumed alone; returns the list of returned ids."""
    return [f.id for f in open_query(db, q)]


def open_query(db, q, feature=None):
    """The real call for query q; returns the generator.  `feature`: the Feature object to pass for the Feature form."""
    import gffutils

    api, form = q["api"], q["form"]
    seqid, start, end = q["seqid"], q["start"], q["end"]
    if api == "region":
        kw = dict(strand=q["strand"], featuretype=ft_arg(q), completely_within=q["within"])
        if form == "tuple":
            it = db.region((seqid, start, end), **kw)
        elif form == "string":
            it = db.region("%s:%d-%d" % (seqid, start, end), **kw)
        elif form == "feature":
            if feature is None:
                feature = gffutils.Feature(seqid=seqid, start=start, end=end, strand=q["fstrand"])
            it = db.region(feature, **kw)
        else:
            pos = {}
            if seqid is not None:
                pos["seqid"] = seqid
            if start is not None:
                pos["start"] = start
            if end is not None:
                pos["end"] = end
            it = db.region(**pos, **kw)
    else:
        limit = (seqid, start, end) if form == "tuple" else "%s:%d-%d" % (seqid, start, end)
        kw = dict(limit=limit, completely_within=q["within"])
        if api == "all_features":
            it = db.all_features(strand=q["strand"], featuretype=ft_arg(q), **kw)
        elif api == "features_of_type":
            it = db.features_of_type(ft_arg(q), strand=q["strand"], **kw)
        elif api == "children":
            it = db.children(q["id"], level=q["level"], featuretype=ft_arg(q), **kw)
        elif api == "parents":
            it = db.parents(q["id"], level=q["level"], featuretype=ft_arg(q), **kw)
        else:
            raise ValueError(api)
    return it


BIN_RE = re.compile(r"\bbin\s*=|\bfeatures\.bin\s+IN\s*\(([^)]*)\)", re.I)


def bin_clause():
    """(present, number of bins) for the feature SELECT of the last query, from the statement trace."""
    present, nb = False, 0
    for _, stmt in sqltrace.LOG:
        if "FROM features" not in stmt:
            continue
        ms = list(BIN_RE.finditer(stmt))
        if ms:
            present = True
            nb = sum((m.group(1).count(",") + 1) if m.group(1) is not None else 1 for m in ms)
    return present, nb


def report(ctx, case, reason_class, detail):
    _REASONS[reason_class] += 1
    if _REASONS[reason_class] > CAP_PER_REASON:
        ctx.mon("violations counted but not stored (reason already stored %dx in this shard): %s"
                % (CAP_PER_REASON, reason_class))
        return
    ctx.violation(case, detail)


def execute(ctx, case):
    if case["kind"] == "interleave":
        return execute_interleave(ctx, case)
    if case["kind"] == "handles":
        return execute_handles(ctx, case)
    if case["kind"] == "big":
        return execute_big(ctx, case)
    if case["kind"] == "rewritten":
        return execute_rewritten(ctx, case)
    if case["kind"] == "oddseq":
        return execute_oddseq(ctx, case)
    if case["kind"] == "huge":
        return execute_huge(ctx, case)
    q = case["query"]
    db, SET, stored_bin = get_db(ctx, case["set"])
    feats = SET["features"]
    uni = M.universe(feats, q["api"], q["id"])
    lower, upper = expect(ctx, uni, q)
    sqltrace.reset()
    ctx.mon("queries executed")
    ctx.mon("queries: %s %s" % (q["api"], q["form"]))
    try:
        got = call(db, q)
    except Exception as ex:
        for v in contracts.drain():
            report(ctx, case, "contract " + v.get("contract", "?"), v)
        report(ctx, case, "raised", {"why": "query raised %s" % (repr(ex)[:300],), "expected": lower[:30]})
        return {"expected": len(lower), "touch": False}
    present, nb = bin_clause()
    observe_sql(ctx, q, present, nb)
    ctx.mon("result rows compared", len(got))
    ctx.mon("expected rows (lower bound)", len(lower))
    bad = M.judge(got, lower, upper)
    if bad:
        cls, why = diagnose(q, uni, got, stored_bin)
        twins = SET.get("twins") or {}
        if cls.startswith("differs") and bad["missing"] and set(bad["missing"]) <= set(twins) and not bad["unexpected"]:
            cls, why = "twins:" + cls[8:], why + ": of several byte-identical lines without ID attribute (distinct stored " \
                                                "features) not every one is returned"
        E = (SET.get("declared") or {}).get(q["seqid"])
        if E is not None and q["end"] is not None and q["end"] > E:
            # naming the difference only: is it the answer to the query with its end clipped to the declared end?
            lo, up = M.expected(uni, q["seqid"], q["start"], E, q["within"], q["strand"], q["ft"])
            if M.judge(got, lo, up) is None:
                cls = "directives:" + ("region" if q["api"] == "region" else "limit=")
                why = "database imported from a file with ##sequence-region lines: the %s %s answer is that of the query end clipped to " \
                      "the end declared for the queried seqid (features reaching beyond it are missing)" % (
                          "region" if q["api"] == "region" else "limit=", "completely_within" if q["within"] else "overlap")
        detail = {"why": why, "query": describe(q), "n_got": len(got), "n_expected": len(lower),
                  "sql bin clause": present, "set": case["set"]}
        if E is not None:
            detail["end declared by ##sequence-region for the queried seqid"] = E
        by_id = {f["id"]: f for f in feats}
        for k, ids in bad.items():
            detail[k] = [[i, by_id[i]["seqid"], by_id[i]["start"], by_id[i]["end"], by_id[i]["strand"],
                          by_id[i]["featuretype"], "bin %s" % stored_bin.get(i)] for i in ids[:6] if i in by_id]
            detail["n " + k] = len(ids)
        report(ctx, case, cls, detail)
    else:
        observe_class(ctx, q, SET, uni, lower, present)
    for v in contracts.drain():
        report(ctx, case, "contract " + v.get("contract", "?"), v)
    s, e = q["start"], q["end"]
    touch = any((s is not None and s in (f["start"], f["end"])) or (e is not None and e in (f["start"], f["end"]))
                for f in uni if q["seqid"] is None or f["seqid"] == q["seqid"])
    return {"expected": len(lower), "touch": touch}


UNJUDGED = ("reversed: features not judged (region overlap query with start == end == the start or end coordinate of a "
            "stored feature with start > end: the unchanged tree returns it, the comparisons say no)")


def expect(ctx, uni, q):
    """(lower, upper) of the statement for query q over the universe uni (M.expected), minus the one sub-case in which the
    unchanged tree itself leaves the comparisons (see ASSUMPTIONS): those features may be returned or not."""
    lower, upper = M.expected(uni, q["seqid"], q["start"], q["end"], q["within"], q["strand"], q["ft"])
    x = q["start"]
    if q["api"] == "region" and not q["within"] and x is not None and x == q["end"]:
        odd = [f["id"] for f in uni if f["start"] > f["end"] and x in (f["start"], f["end"])
               and M.restricted(f, q["seqid"], q["strand"], q["ft"])]
        if odd:
            have = set(upper)
            upper = upper + [i for i in odd if i not in have]
            ctx.mon(UNJUDGED, len(odd))
    return lower, upper


def observe_reversed(ctx, q, SET, uni, lower):
    by_id = SET["by_id"]
    kind = "region" if q["api"] == "region" else "limit="
    two = q["start"] is not None and q["end"] is not None
    rev = [by_id[i] for i in lower if by_id[i]["start"] > by_id[i]["end"]]
    if rev:
        if q["within"]:
            if two and any(f["start"] > q["end"] for f in rev):
                ctx.mon("reversed: completely_within answers holding a start > end feature whose start lies beyond the query "
                        "end: %s" % kind)
                ctx.mon("reversed: such answers, form %s/%s" % (q["api"], q["form"]))
            else:
                ctx.mon("reversed: completely_within answers holding a start > end feature: %s" % kind)
        else:
            ctx.mon("reversed: overlap answers holding a start > end feature: %s" % kind)
        if q["api"] in ("children", "parents"):
            ctx.mon("reversed: %s(limit=) answers holding a start > end feature" % q["api"])
        if not two:
            ctx.mon("reversed: one-sided answers holding a start > end feature")
    if two:
        got = set(lower)
        a, b = q["start"], q["end"]
        for f in uni:
            if f["start"] > f["end"] and f["id"] not in got and M.restricted(f, q["seqid"], q["strand"], q["ft"]):
                half = (a <= f["start"]) != (f["end"] <= b) if q["within"] else (f["start"] <= b) != (f["end"] >= a)
                if half:
                    ctx.mon("reversed: queries that a start > end feature satisfies in one coordinate only (not returned)")
                    break


def observe_declared(ctx, q, SET, lower):
    """Databases whose file carried ##sequence-region lines: which answers reach beyond the declared end of the queried seqid."""
    E = SET["declared"].get(q["seqid"])
    if E is None:
        if q["seqid"] is not None:
            ctx.mon("directives: queries on a seqid that no ##sequence-region line names (others are named)")
        return
    if q["end"] is None or q["end"] <= E:
        return
    kind = "region" if q["api"] == "region" else "limit="
    ctx.mon("directives: queries whose end lies beyond the end declared for the queried seqid: %s" % kind)
    by_id = SET["by_id"]
    if q["start"] is None:
        if any(max(by_id[i]["start"], by_id[i]["end"]) > E for i in lower):
            ctx.mon("directives: end-only answers holding a feature that reaches beyond the declared end")
    elif q["within"]:
        if any(by_id[i]["end"] > E for i in lower):
            ctx.mon("directives: completely_within answers holding a feature that ends beyond the declared end: %s" % kind)
            ctx.mon("directives: such answers, form %s/%s" % (q["api"], q["form"]))
    elif any(by_id[i]["start"] > E for i in lower):
        ctx.mon("directives: overlap answers holding a feature that starts beyond the declared end: %s" % kind)
        ctx.mon("directives: such answers, form %s/%s" % (q["api"], q["form"]))


def observe_class(ctx, q, SET, uni, lower, present):
    """Monitors of the special workload classes (called for queries that agreed with the scan)."""
    kind = "region" if q["api"] == "region" else "limit"
    wo = "within" if q["within"] else "overlap"
    if SET.get("flavour") == "reversed":
        observe_reversed(ctx, q, SET, uni, lower)
    if SET.get("declared") is not None:
        observe_declared(ctx, q, SET, lower)
    other = SET.get("partner", {}).get(q["seqid"])
    if other is not None:
        twin, _ = M.expected(uni, other, q["start"], q["end"], q["within"], q["strand"], q["ft"])
        if twin:
            ctx.mon("case-variant seqids: queries that the other spelling's features would have matched (none returned)")
            ctx.mon("case-variant seqids: such queries through %s" % ("region" if kind == "region" else "limit="))
            ctx.mon("case-variant seqids: such queries, form %s/%s" % (kind, q["form"]))
    twins = SET.get("twins")
    if twins:
        if any(n > 1 for n in Counter(twins[i] for i in lower if i in twins).values()):
            ctx.mon("id-less twins: results holding >= 2 byte-identical features, each returned once: %s"
                    % (q["api"] if kind == "region" else q["api"] + "(limit=)"))
        if q["api"] == "parents" and lower and SET["by_id"][q["id"]].get("noid"):
            ctx.mon("id-less: parents(limit=) of a feature without ID attribute, non-empty answer")
            if q["id"] in twins:
                ctx.mon("id-less twins: parents(limit=) of one of several byte-identical features, non-empty answer")
    if q["ft"] is not None and len(set(q["ft"])) != len(q["ft"]):
        api = "region" if kind == "region" else q["api"] + "(limit=)"
        ctx.mon("repeated featuretypes: queries whose featuretype iterable names a type more than once: %s" % api)
        if lower:
            ctx.mon("repeated featuretypes: non-empty answers, each feature once: %s" % api)
    tag = q.get("tag")
    if tag == "wide":
        ctx.mon("wide queries (start <= 2^17, span 100-500 Mb): %s %s" % (kind, wo))
        if q["within"]:
            ctx.mon("wide within queries %s a bin clause in the SQL" % ("with" if present else "without"))
            by_id = SET["by_id"]
            if any(by_id[i]["end"] <= G.SMALL for i in lower):
                ctx.mon("wide within queries returning features that lie inside the first 128 kb")
    elif tag and tag.startswith("binend:"):
        k = int(tag[7:])
        by_id = SET["by_id"]
        if any(by_id[i]["end"] == q["end"] for i in lower):
            ctx.mon("bin-end queries (end = m*2^%d): %s %s, a feature ending on that base returned" % (17 + 3 * k, kind, wo))
        else:
            ctx.mon("bin-end queries: no stored feature ends on the query end")


# ---------------------------------------------------------------------------------------------------------
def judged(ctx, case, what, q, feats, got, alone):
    """One generator of an interleave case: against the same call consumed alone and against the scan."""
    uni = M.universe(feats, q["api"], q["id"])
    lower, upper = expect(ctx, uni, q)
    ctx.mon("interleaved: generators consumed while another generator of the same FeatureDB was alive")
    ctx.mon("interleaved: generators of %s" % q["api"])
    ctx.mon("result rows compared", len(got))
    why = None
    if sorted(got) != sorted(alone):
        why = "yields something else than the same call consumed alone with list()"
    else:
        bad = M.judge(got, lower, upper)
        if bad:
            why = "differs from the full scan (%s)" % ", ".join("%s: %s" % (k, v[:6]) for k, v in bad.items() if v)
    if why:
        report(ctx, case, "interleaved", {"why": "interleaved generators (%s): %s %s" % (what, q["api"], why),
                                          "query": describe(q), "got": got[:30], "alone": alone[:30], "n_got": len(got),
                                          "n_alone": len(alone), "n_expected": len(lower), "set": case["set"]})
        return None
    return len(lower)


def inner_query(inner, f):
    """The inner query of a nested loop for the yielded feature f (its seqid/start/end; '@outer' = its id)."""
    qi = dict(inner, seqid=f.seqid, start=int(f.start), end=int(f.end))
    if qi.get("id") == "@outer":
        qi["id"] = f.id
    return qi


def execute_interleave(ctx, case):
    """kind "interleave": {"set", "mode": "schedule"|"nested", "queries": [q...], "sched": seed, "zipped": bool,
    "inner": query template}.  Returns True when the interleaving could have made a difference."""
    db, SET, _ = get_db(ctx, case["set"])
    feats = SET["features"]
    qs = case["queries"]
    ctx.mon("queries executed", len(qs))
    try:
        if case["mode"] == "schedule":
            alones = [call(db, q) for q in qs]
            gens = [open_query(db, q) for q in qs]
            got = [[] for _ in qs]
            live = list(range(len(qs)))
            r = random.Random(case["sched"])
            turn = 0
            while live:
                i = live[turn % len(live)] if case["zipped"] else r.choice(live)
                turn += 1
                try:
                    got[i].append(next(gens[i]).id)
                except StopIteration:
                    live.remove(i)
            ok = True
            for q, g, a in zip(qs, got, alones):
                if judged(ctx, case, "zip/round robin" if case["zipped"] else "random schedule", q, feats, g, a) is None:
                    ok = False
            sizes = sorted(len(a) for a in alones if a)
            useful = ok and len(sizes) >= 2 and sizes[-1] >= 2
            if useful:
                ctx.mon("interleaved: schedules over >= 2 non-empty generators (one with >= 2 items)")
        else:
            q, inner = qs[0], case["inner"]
            # every call consumed alone first (the inner queries are built from the Feature objects the outer one yields)
            alone_feats = list(open_query(db, q))
            alone = [f.id for f in alone_feats]
            alone_inner = {}
            for f in alone_feats:
                if int(f.start) > int(f.end):
                    continue               # a query interval with start > end is outside the statement's quantifier
                alone_inner[f.id] = call(db, inner_query(inner, f))
            outer, inner_got, inner_qs = [], {}, {}
            for f in open_query(db, q):
                outer.append(f.id)
                if int(f.start) > int(f.end):
                    ctx.mon("interleaved: inner queries not made (the yielded feature has start > end: not a query interval)")
                    continue
                qi = inner_query(inner, f)
                inner_qs[f.id] = qi
                g = []
                for x in open_query(db, qi, feature=f if qi["form"] == "feature" else None):
                    g.append(x.id)
                inner_got.setdefault(f.id, []).extend(g)
            ok = judged(ctx, case, "outer loop of a nested loop", q, feats, outer, alone) is not None
            nonempty = 0
            for fid, g in inner_got.items():
                n = judged(ctx, case, "inner loop of a nested loop", inner_qs[fid], feats, g, alone_inner.get(fid, []))
                if n is None:
                    ok = False
                    break
                nonempty += 1 if n else 0
            useful = ok and len(alone) >= 2 and nonempty > 0
            if useful:
                ctx.mon("interleaved: nested loops with >= 2 outer items and a non-empty inner result")
                ctx.mon("interleaved: nested loops with %s inside a loop over %s" % (
                    "region(feature)" if inner["api"] == "region" and inner["form"] == "feature" else
                    "%s(%s...)" % (inner["api"], "region=" if inner["api"] == "region" else "limit="),
                    "region(...)" if q["api"] == "region" else "%s(limit=...)" % q["api"]))
    except Exception as ex:
        report(ctx, case, "raised", {"why": "interleaved generators raised %s" % (repr(ex)[:300],), "set": case["set"]})
        useful = False
    for v in contracts.drain():
        report(ctx, case, "contract " + v.get("contract", "?"), v)
    return useful


# ---------------------------------------------------------------------------------------------------------
def file_content(path):
    """The features of the database file as a model feature list, read with plain sqlite3 (never through gffutils);
    "parents" = the level-1 rows of the relations table.  None when the table holds rows of another level."""
    return content_of(dbdump.dump(path))


def content_of(d):
    """file_content of an already read dump."""
    if any(lv != 1 for _, _, lv in d["relations"]):
        return None
    up = {}
    for p, c, _ in d["relations"]:
        up.setdefault(c, []).append(p)
    return [{"id": f["id"], "seqid": f["seqid"], "featuretype": f["featuretype"], "strand": f["strand"],
             "start": f["start"], "end": f["end"], "parents": up.get(f["id"], [])} for f in d["features"]]


def execute_handles(ctx, case):
    """kind "handles": {"set": set parameters, "upd": seed of G.make_update, "b_early": bool, "rounds": [[query...], ...]}.

    The feature set is imported into a database FILE.  Handle A (a FeatureDB object on that file) answers rounds[0];
    then, for every step of the update, handle B (another FeatureDB object on the same file) adds features with update()
    and deletes some, and A - never reopened - answers the next round.  Every answer must equal the scan of what the file
    holds at that moment (read with plain sqlite3).  Returns True when A answered a non-empty region query on a seqid
    that appeared after A's first region() call."""
    import gffutils

    setp = case["set"]
    SET = G.make_set(setp["seed"], setp["n"], flavour=setp.get("flavour"))
    U = G.make_update(case["upd"], SET)
    new_seqid = U["new_seqid"]
    path, gff = ctx.tmp(".db"), ctx.tmp(".gff3")
    A = B = None
    useful = False

    def write(feats):
        with open(gff, "w", encoding="utf-8", newline="") as fh:
            fh.write(G.text_of(feats))

    def one_round(ri, queries, added, region_seen):
        nonlocal useful
        feats = file_content(path)
        if feats is None:
            ctx.skip("handles: the relations table holds rows of a level other than 1 (two-level hierarchy expected)")
            return False
        stored = {f["id"] for f in feats}
        seqids = {f["seqid"] for f in feats}
        ctx.mon("handles: rounds answered by the first handle")
        for q in queries:
            if q["id"] is not None and q["id"] not in stored:
                ctx.mon("handles: queries naming a feature that is not stored at that moment (not executed)")
                continue
            uni = M.universe(feats, q["api"], q["id"])
            lower, upper = expect(ctx, uni, q)
            sqltrace.reset()
            ctx.mon("queries executed")
            ctx.mon("handles: queries answered by the first handle")
            kind = "region" if q["api"] == "region" else "limit="
            try:
                got = call(A, q)
            except Exception as ex:
                report(ctx, case, "handles raised", {"why": "two handles on one file: %s query on the first handle raised %s"
                                                    % (kind, repr(ex)[:300]), "round": ri, "query": describe(q)})
                return False
            ctx.mon("result rows compared", len(got))
            bad = M.judge(got, lower, upper)
            if bad:
                fresh, C = None, None
                try:
                    C = gffutils.FeatureDB(path)
                    fresh = M.judge(call(C, q), lower, upper) is None
                except Exception:
                    pass
                finally:
                    if C is not None:
                        C.conn.close()
                why = "two handles on one file, round %d (%s): the first handle's %s answer differs from the scan of the file's " \
                      "current content" % (ri, "before any change" if ri == 0 else "after the second handle's update()/delete()", kind)
                if fresh:
                    why += "; a FeatureDB object opened now answers like the scan (the first handle is stale)"
                detail = {"why": why, "round": ri, "query": describe(q), "n_got": len(got), "n_expected": len(lower),
                          "seqid is new (added by the second handle)": q["seqid"] == new_seqid, "set": setp, "upd": case["upd"]}
                for k, ids in bad.items():
                    detail[k], detail["n " + k] = ids[:6], len(ids)
                report(ctx, case, "handles:" + kind + (":stale" if fresh else ""), detail)
                return False
            if ri == 0:
                if q["seqid"] is not None and q["seqid"] not in seqids:
                    ctx.mon("handles: queries naming a seqid that does not exist yet (nothing returned)")
                    ctx.mon("handles: such queries through %s" % kind)
            else:
                ctx.mon("handles: queries answered after the second handle changed the file: %s" % kind)
                new = [i for i in lower if i in added]
                if q["seqid"] == new_seqid and lower:
                    ctx.mon("handles: non-empty answers on the seqid added by the second handle: %s" % kind)
                    ctx.mon("handles: such answers, form %s/%s" % (q["api"], q["form"]))
                    if q["api"] == "region" and region_seen:
                        useful = True
                elif new:
                    ctx.mon("handles: answers holding features the second handle added on an existing seqid: %s" % kind)
                if q["api"] in ("children", "parents") and new:
                    ctx.mon("handles: %s(limit=) answers holding features added by the second handle" % q["api"])
                gone = M.expected(M.universe(case_deleted, q["api"], q["id"]), q["seqid"], q["start"], q["end"], q["within"],
                                  q["strand"], q["ft"])[0] if case_deleted else []
                if gone:
                    ctx.mon("handles: queries that a deleted feature would have matched (not returned): %s" % kind)
        return True

    case_deleted = []      # model features deleted so far (for the monitor only; their Parent values as written)
    try:
        try:
            write(SET["features"])
            gffutils.create_db(gff, path).conn.close()
            A = gffutils.FeatureDB(path)
            if case.get("b_early"):
                B = gffutils.FeatureDB(path)
        except Exception as ex:
            from gvmon.run import Inconclusive
            raise Inconclusive("handles: building the database file failed: %r" % (ex,))
        ctx.mon("handles: database files built")
        rounds = case["rounds"]
        if not one_round(0, rounds[0], set(), False):
            return False
        region_seen = any(q["api"] == "region" for q in rounds[0])
        added = set()
        model = {f["id"]: f for f in SET["features"]}
        for si, step in enumerate(U["steps"]):
            if si + 1 >= len(rounds):
                break
            try:
                if B is None:
                    B = gffutils.FeatureDB(path)
                write(step["add"])
                B.update(gff, make_backup=False)
                if step["delete"]:
                    B.delete(list(step["delete"]), make_backup=False)
            except Exception as ex:
                # update()/delete() themselves are C10's business; here they are the premise
                ctx.skip("handles: update()/delete() on the second handle raised %s" % type(ex).__name__)
                return False
            ctx.mon("handles: update() calls on the second handle")
            ctx.mon("handles: features added by the second handle", len(step["add"]))
            ctx.mon("handles: features deleted by the second handle", len(step["delete"]))
            for f in step["add"]:
                model[f["id"]] = f
                added.add(f["id"])
            for i in step["delete"]:
                case_deleted.append(model.pop(i))
                added.discard(i)
            now = file_content(path)
            if now is not None and sorted(f["id"] for f in now) != sorted(model):
                ctx.mon("handles: the file's content after update()/delete() is not what was added/deleted (C10's business; "
                        "the scan of the file stays the reference)")
            if not one_round(si + 1, rounds[si + 1], added, region_seen):
                return False
    finally:
        for h in (A, B):
            if h is not None:
                try:
                    h.conn.close()
                except Exception:
                    pass
        for p in (path, gff, path + "-journal", path + "-wal", path + "-shm"):
            if os.path.exists(p):
                os.unlink(p)
        for v in contracts.drain():
            report(ctx, case, "contract " + v.get("contract", "?"), v)
    return useful


# ---------------------------------------------------------------------------------------------------------
ODD_CHARS = [(",", "','"), ("-", "'-'"), (" ", "' '"), ("%", "'%'"), (":", "':'")]


def odd_class(seqid):
    names = [n for c, n in ODD_CHARS if c in seqid]
    return names or ["none of , - space % :"]


def execute_oddseq(ctx, case):
    """kind "oddseq": {"seed", "seqids": stored seqids, "queries": [...]} (G.gen_oddseq).  Seqids holding ',', '-', ' ', '%'
    (and their twins without that character, with features at the same coordinates) are stored; every query is asked in the
    tuple, 'seqid:start-end' string, keyword and Feature form of region() and as limit= tuple / string of the four apis,
    each answer judged against the scan of the stored rows (plain SQL) and the string form against the tuple form; the bare
    'seqid' string form against region(seqid=...) and against the stored features of other seqids.  The featuretype
    restriction is an iterable that may name a type several times (also built from the featuretypes of a gene's children).
    A seqid holding ':' is queried through the tuple / keyword / Feature forms only."""
    import gffutils
    from gvmon.run import Inconclusive

    model = G.make_odd(case["seed"], case["seqids"])
    try:
        db = gffutils.create_db(G.text_of(model), ":memory:", from_string=True)
        rows = db.conn.execute("SELECT id, seqid, featuretype, start, end, strand FROM features").fetchall()
        rel = db.conn.execute("SELECT parent, child FROM relations WHERE level = 1").fetchall()
    except Exception as ex:
        raise Inconclusive("oddseq: building the database failed: %r" % (ex,))
    up = {}
    for p, c in rel:
        up.setdefault(c, []).append(p)
    feats = [{"id": r[0], "seqid": r[1], "featuretype": r[2], "start": r[3], "end": r[4], "strand": r[5],
              "parents": up.get(r[0], [])} for r in rows]
    written = {f["id"]: f for f in model}
    if sorted(written) != sorted(f["id"] for f in feats):
        db.conn.close()
        raise Inconclusive("oddseq: the imported feature ids differ from the model (see C01)")
    renamed = sorted(set((written[f["id"]]["seqid"], f["seqid"]) for f in feats if written[f["id"]]["seqid"] != f["seqid"]))
    if renamed:
        # what the importer makes of the seqid column is C01's; the stored value is what is queried here
        ctx.mon("odd seqids: seqids stored otherwise than written (the stored spelling is queried)", len(renamed))
    to_stored = dict(renamed)
    stored_seqids = sorted(set(f["seqid"] for f in feats))
    ctx.mon("odd seqids: databases built")
    ctx.mon("features imported", len(rows))
    sqltrace.reset()
    contracts.drain()
    useful = False

    def ask(what, fn, lower, upper, q, extra=None):
        """Run one real call, judge it against the scan; returns the ids or None."""
        ctx.mon("queries executed")
        try:
            got = [f.id for f in fn()]
        except Exception as ex:
            report(ctx, case, "oddseq raised:" + what.split(" ")[0], {
                "why": "odd seqids / repeated featuretypes: %s raised %s" % (what, repr(ex)[:300]), "query": q,
                "stored seqids": stored_seqids})
            return None
        ctx.mon("result rows compared", len(got))
        bad = M.judge(got, lower, upper)
        if bad:
            by_id = {f["id"]: f for f in feats}
            d = {"why": "odd seqids / repeated featuretypes: %s differs from the full scan of the stored features" % what,
                 "query": q, "stored seqids": stored_seqids, "n_got": len(got), "n_expected": len(lower)}
            for k, ids in bad.items():
                d[k] = [[i, by_id[i]["seqid"], by_id[i]["start"], by_id[i]["end"], by_id[i]["featuretype"]] for i in ids[:6]
                        if i in by_id]
                d["n " + k] = len(ids)
            if bad["unexpected"] and any(by_id[i]["seqid"] != q["seqid"] for i in bad["unexpected"] if i in by_id):
                d["why"] += " (features of ANOTHER seqid returned)"
            if extra:
                d.update(extra)
            report(ctx, case, "oddseq:" + what.split(" ")[0] + (":twice" if bad["returned twice"] else ""), d)
            return None
        return got

    try:
        for q0 in case["queries"]:
            q = dict(q0, seqid=to_stored.get(q0["seqid"], q0["seqid"]))
            seqid, a, b, within, strand = q["seqid"], q["start"], q["end"], q["within"], q["strand"]
            colon = ":" in seqid
            # ---- the featuretype restriction
            ft = q["ft"]
            if q["ft_from"] is not None:
                ft = [c.featuretype for c in db.children(q["ft_from"])]       # a list built from children's featuretypes
                if not ft:
                    ft = None
                    ctx.mon("repeated featuretypes: gene without children (no restriction used)")
                else:
                    ctx.mon("repeated featuretypes: restriction built from the featuretypes of a feature's children")
            q["ft"] = ft
            rep = ft is not None and len(set(ft)) != len(ft)
            ftarg = None if ft is None else (tuple(ft) if q["ft_form"] == "tuple" else list(ft))
            cls = odd_class(seqid)
            if a is None:
                # ---- bare "seqid": against region(seqid=seqid) and against the features of every other seqid
                _, upper = [], [f["id"] for f in feats if M.restricted(f, seqid, strand, set(ft) if ft is not None else None)]
                kw = dict(strand=strand, featuretype=ftarg, completely_within=within)
                ref = ask("region/kw without coordinates", lambda: db.region(seqid=seqid, **kw), [], upper, q)
                if ref is None:
                    continue
                if colon:
                    ctx.mon("odd seqids: string forms not asked (the seqid holds ':')")
                    continue
                got = ask("region/string without coordinates ('seqid')", lambda: db.region(seqid, **kw), [], upper, q)
                if got is None:
                    continue
                if sorted(got) != sorted(ref):
                    report(ctx, case, "oddseq:bare", {
                        "why": "odd seqids: region(%r) (bare seqid string) does not return what region(seqid=%r) returns" % (seqid, seqid),
                        "query": q, "n string form": len(got), "n keyword form": len(ref), "stored seqids": stored_seqids})
                    continue
                if got:
                    useful = True
                    ctx.mon("odd seqids: bare 'seqid' string form, non-empty answer equal to the keyword form")
                    for c in cls:
                        ctx.mon("odd seqids: bare 'seqid' string form, non-empty answer, seqid holding %s" % c)
                    if sorted(got) == sorted(upper):
                        ctx.mon("odd seqids: bare 'seqid' answers holding every stored feature of the seqid (restrictions applied)")
                    if rep:
                        ctx.mon("repeated featuretypes: non-empty answers, each feature once: region")
                continue
            # ---- two bounds
            lower, upper = M.expected(feats, seqid, a, b, within, strand, ft)
            others = [s for s in stored_seqids if s != seqid and M.expected(feats, s, a, b, within, strand, ft)[0]]
            twin = [s for s in others if s == "".join(ch for ch in seqid if ch not in ", -%")
                    or any(s == seqid.replace(c, "") for c, _ in ODD_CHARS)]
            kw = dict(strand=strand, featuretype=ftarg, completely_within=within)
            forms = [("tuple", lambda: db.region((seqid, a, b), **kw)),
                     ("kw", lambda: db.region(seqid=seqid, start=a, end=b, **kw)),
                     ("feature", lambda: db.region(gffutils.Feature(seqid=seqid, start=a, end=b), **kw))]
            if not colon:
                forms.insert(1, ("string", lambda: db.region("%s:%d-%d" % (seqid, a, b), **kw)))
            answers = {}
            for name, fn in forms:
                got = ask("region/%s" % name, fn, lower, upper, q)
                if got is not None:
                    answers[name] = got
                    ctx.mon("odd seqids: queries: region %s" % name)
            if colon:
                ctx.mon("odd seqids: string forms not asked (the seqid holds ':')")
                if answers.get("tuple"):
                    ctx.mon("odd seqids: non-empty tuple / keyword / Feature form answers on a seqid holding ':'")
            if "string" in answers and "tuple" in answers and sorted(answers["string"]) != sorted(answers["tuple"]):
                report(ctx, case, "oddseq:string!=tuple", {"why": "odd seqids: region('seqid:start-end') differs from region((seqid, start, end))",
                                                          "query": q, "stored seqids": stored_seqids})
            if len(answers) == len(forms) and lower:
                useful = True
                if not colon:
                    for c in cls:
                        ctx.mon("odd seqids: region string form, non-empty answer equal to the tuple form, seqid holding %s" % c)
                    if others:
                        ctx.mon("odd seqids: region string-form queries that another stored seqid's features would have matched (none returned)")
                    if twin:
                        ctx.mon("odd seqids: region string-form queries that the features of the twin seqid without the character "
                                "would have matched (none returned)")
                if rep:
                    ctx.mon("repeated featuretypes: non-empty answers, each feature once: region")
                    ctx.mon("repeated featuretypes: non-empty answers, each feature once: region %s" % ("within" if within else "overlap"))
            # ---- limit= of the four apis
            kid = next((f["id"] for f in feats if q["gene"] in f["parents"]), None) if q["gene"] else None
            lims = [("tuple", (seqid, a, b))] + ([] if colon else [("string", "%s:%d-%d" % (seqid, a, b))])
            for api in ("all_features", "features_of_type", "children", "parents"):
                if api == "features_of_type" and ft is None:
                    continue
                ident = q["gene"] if api == "children" else kid if api == "parents" else None
                if api in ("children", "parents") and ident is None:
                    continue
                uni = M.universe(feats, api, ident)
                st = strand if api in ("all_features", "features_of_type") else None
                lo, upp = M.expected(uni, seqid, a, b, within, st, ft)
                res = {}
                for lname, lim in lims:
                    if api == "all_features":
                        fn = lambda lim=lim: db.all_features(limit=lim, strand=st, featuretype=ftarg, completely_within=within)
                    elif api == "features_of_type":
                        fn = lambda lim=lim: db.features_of_type(ftarg, limit=lim, strand=st, completely_within=within)
                    elif api == "children":
                        fn = lambda lim=lim: db.children(ident, limit=lim, featuretype=ftarg, completely_within=within)
                    else:
                        fn = lambda lim=lim: db.parents(ident, limit=lim, featuretype=ftarg, completely_within=within)
                    got = ask("%s(limit=%s)" % (api, lname), fn, lo, upp, dict(q, api=api, id=ident))
                    if got is not None:
                        res[lname] = got
                if len(res) == len(lims) and lo:
                    useful = True
                    if not colon:
                        for c in cls:
                            ctx.mon("odd seqids: limit= string form, non-empty answer equal to the tuple form, seqid holding %s" % c)
                        ctx.mon("odd seqids: limit= string form, non-empty answers: %s" % api)
                    if rep:
                        ctx.mon("repeated featuretypes: non-empty answers, each feature once: %s(limit=)" % api)
    finally:
        try:
            db.conn.close()
        except Exception:
            pass
        for v in contracts.drain():
            report(ctx, case, "contract " + v.get("contract", "?"), v)
    return useful


# ---------------------------------------------------------------------------------------------------------
HUGE_REFUSED = ("huge: calls with a bound >= 2**63 that raised OverflowError, accepted (the unchanged tree raises it there): %s")


def huge_band(x):
    return ">= 2**63" if x >= 2 ** 63 else "2**62 .. 2**63-1"


def execute_huge(ctx, case):
    """kind "huge": {"seed", "queries"} (G.gen_huge).  A small database (features at small coordinates, around 2**17 and
    2**29, and far out up to 2**63 - 1, the largest storable coordinate); every query has a bound of 2**62 or more (2**62,
    2**63 - 1, 2**63, 2**64, 10**20, neighbours, 10**30, 2**100) - as the end of a two-sided query (start small / on a
    feature / huge as well), or as the only bound - and is asked in every form: region tuple / 'seqid:start-end' string /
    keywords / Feature / seqid omitted, and limit= tuple / string of all_features / features_of_type / children / parents.
    Python compares the ints exactly, so the answer is the scan's.  With a bound >= 2**63 the forms listed in ASSUMPTIONS may
    raise OverflowError (counted); whatever they RETURN is judged."""
    import gffutils
    from gvmon.run import Inconclusive

    model = G.make_huge(case["seed"])
    try:
        db = gffutils.create_db(G.text_of(model), ":memory:", from_string=True)
        rows = db.conn.execute("SELECT id, seqid, featuretype, start, end, strand FROM features").fetchall()
        rel = sorted((r[0], r[1]) for r in db.conn.execute("SELECT parent, child FROM relations WHERE level = 1"))
    except Exception as ex:
        raise Inconclusive("huge: building the database failed: %r" % (ex,))
    if {r[0]: tuple(r)[1:] for r in rows} != {f["id"]: (f["seqid"], f["featuretype"], f["start"], f["end"], f["strand"])
                                               for f in model} or \
            rel != sorted((p, f["id"]) for f in model for p in f["parents"]):
        db.conn.close()
        raise Inconclusive("huge: the imported feature set differs from the model (see C01 / C02)")
    feats = model
    by_id = {f["id"]: f for f in feats}
    ctx.mon("huge: databases built")
    ctx.mon("features imported", len(rows))
    ctx.mon("huge: stored features with an end >= 2**62", sum(1 for f in feats if f["end"] >= 2 ** 62))
    sqltrace.reset()
    contracts.drain()
    useful = False

    def ask(what, fn, lower, upper, q, may_refuse):
        """One real call; returns the ids, "refused" (accepted OverflowError) or None (reported)."""
        ctx.mon("queries executed")
        try:
            got = [f.id for f in fn()]
        except Exception as ex:
            if may_refuse and isinstance(ex, OverflowError):
                ctx.mon(HUGE_REFUSED % may_refuse)
                return "refused"
            report(ctx, case, "huge raised:" + what, {
                "why": "query bound far beyond every stored coordinate: %s raised %s (expected: the %d features that satisfy the "
                       "comparison)" % (what, repr(ex)[:200], len(lower)), "query": q, "expected": lower[:12]})
            return None
        ctx.mon("result rows compared", len(got))
        bad = M.judge(got, lower, upper)
        if bad:
            d = {"why": "query bound far beyond every stored coordinate: %s differs from the full scan" % what, "query": q,
                 "n_got": len(got), "n_expected": len(lower)}
            for k, ids in bad.items():
                d[k] = [[i, by_id[i]["seqid"], by_id[i]["start"], by_id[i]["end"], by_id[i]["featuretype"]] for i in ids[:6]
                        if i in by_id]
                d["n " + k] = len(ids)
            report(ctx, case, "huge:" + what, d)
            return None
        return got

    try:
        for q in case["queries"]:
            seqid, a, b, within, strand, ft = q["seqid"], q["start"], q["end"], q["within"], q["strand"], q["ft"]
            top = max(x for x in (a, b) if x is not None)
            band = huge_band(top)
            over = top >= 2 ** 63
            wo = "within" if within else "overlap"
            kw = dict(strand=strand, featuretype=list(ft) if ft is not None else None, completely_within=within)
            lower, upper = M.expected(feats, seqid, a, b, within, strand, ft)
            if a is None or b is None:
                # ---- one bound
                pos = {k: v for k, v in (("seqid", seqid), ("start", a), ("end", b)) if v is not None}
                side = "start" if b is None else "end"
                got = ask("region/%s-only" % side, lambda: db.region(**pos, **kw), lower, upper, q,
                          "region, one bound" if over else None)
                if isinstance(got, list):
                    ctx.mon("huge: one-sided answers judged, bound %s: %s-only" % (band, side))
                    if lower:
                        useful = True
                        ctx.mon("huge: non-empty one-sided answers judged, bound %s" % band)
                    if side == "start" and not upper:
                        ctx.mon("huge: start-only queries beyond every stored feature (nothing returned)")
                continue
            # ---- two bounds: region
            refuse = "region, completely_within" if over and within else None
            if seqid is None:
                forms = [("kw-noseqid", lambda: db.region(start=a, end=b, **kw))]
            else:
                forms = [("tuple", lambda: db.region((seqid, a, b), **kw)),
                         ("string", lambda: db.region("%s:%d-%d" % (seqid, a, b), **kw)),
                         ("kw", lambda: db.region(seqid=seqid, start=a, end=b, **kw)),
                         ("feature", lambda: db.region(gffutils.Feature(seqid=seqid, start=a, end=b), **kw))]
            for name, fn in forms:
                got = ask("region/%s %s" % (name, wo), fn, lower, upper, q, refuse)
                if isinstance(got, list):
                    ctx.mon("huge: region answers judged, end %s: %s" % (band, wo))
                    ctx.mon("huge: region answers judged, end %s: form %s" % (band, name))
                    if lower:
                        useful = True
                        ctx.mon("huge: non-empty region answers judged, end %s: %s" % (band, wo))
                        if any(by_id[i]["end"] >= 2 ** 62 for i in lower):
                            ctx.mon("huge: region answers holding a feature that ends at or beyond 2**62, end %s" % band)
                    if a >= 2 ** 62:
                        ctx.mon("huge: region answers judged, both bounds >= 2**62")
            if seqid is None:
                continue
            # ---- two bounds: limit= of the four apis
            kid = next((f["id"] for f in feats if q["gene"] in f["parents"]), None) if q["gene"] else None
            for api in ("all_features", "features_of_type", "children", "parents"):
                if api == "features_of_type" and ft is None:
                    continue
                ident = q["gene"] if api == "children" else kid if api == "parents" else None
                if api in ("children", "parents") and ident is None:
                    continue
                uni = M.universe(feats, api, ident)
                st = strand if api in ("all_features", "features_of_type") else None
                lo, upp = M.expected(uni, seqid, a, b, within, st, ft)
                ftarg = list(ft) if ft is not None else None
                for lname, lim in (("tuple", (seqid, a, b)), ("string", "%s:%d-%d" % (seqid, a, b))):
                    if api == "all_features":
                        fn = lambda lim=lim: db.all_features(limit=lim, strand=st, featuretype=ftarg, completely_within=within)
                    elif api == "features_of_type":
                        fn = lambda lim=lim: db.features_of_type(ftarg, limit=lim, strand=st, completely_within=within)
                    elif api == "children":
                        fn = lambda lim=lim: db.children(ident, limit=lim, featuretype=ftarg, completely_within=within)
                    else:
                        fn = lambda lim=lim: db.parents(ident, limit=lim, featuretype=ftarg, completely_within=within)
                    got = ask("%s(limit=%s) %s" % (api, lname, wo), fn, lo, upp, dict(q, api=api, id=ident),
                              "limit= tuple" if over and lname == "tuple" else None)
                    if isinstance(got, list):
                        ctx.mon("huge: limit= answers judged, end %s: %s form" % (band, lname))
                        ctx.mon("huge: limit= answers judged, end %s: %s" % (band, api))
                        if lo:
                            useful = True
                            ctx.mon("huge: non-empty limit= answers judged, end %s: %s" % (band, wo))
    finally:
        try:
            db.conn.close()
        except Exception:
            pass
        for v in contracts.drain():
            report(ctx, case, "contract " + v.get("contract", "?"), v)
    return useful


# ---------------------------------------------------------------------------------------------------------
def execute_big(ctx, case):
    """kind "big": {"seed"}.  G.make_big(seed) -> a database with more than 10 000 features inside one interval (sites of
    several records with identical coordinates); G.big_queries(seed) -> queries with LARGE answers in every form, and
    schedules in which a large generator is consumed slowly while other queries run on the same FeatureDB.  Every answer is
    compared with the scan as a multiset of ids.  Returns True when large answers were seen and everything agreed."""
    import gffutils
    from gvmon.run import Inconclusive

    BIG = G.make_big(case["seed"])
    feats = BIG["features"]
    by_id = {f["id"]: f for f in feats}
    qs, slow = G.big_queries(case["seed"], BIG)
    try:
        db = gffutils.create_db(BIG["text"], ":memory:", from_string=True)
        rows = db.conn.execute("SELECT id, seqid, featuretype, start, end, strand FROM features").fetchall()
    except Exception as ex:
        raise Inconclusive("big: building the database failed: %r" % (ex,))
    if {r[0]: tuple(r)[1:] for r in rows} != {f["id"]: (f["seqid"], f["featuretype"], f["start"], f["end"], f["strand"])
                                               for f in feats}:
        db.conn.close()
        raise Inconclusive("big: the imported feature set differs from the model (see C01)")
    ctx.mon("big: databases built")
    ctx.mon("big: features imported", len(rows))
    sqltrace.reset()
    contracts.drain()
    ok_all, large = True, 0

    def differs(what, q, got, lower, upper, extra=None):
        """Report (and return True) when the answer `got` to q is not the scan's."""
        ctx.mon("result rows compared", len(got))
        bad = M.judge(got, lower, upper)
        if not bad:
            return False
        coords = Counter((by_id[i]["start"], by_id[i]["end"]) for i in got if i in by_id)
        detail = {"why": "large answer (%s): %s %s result differs from the full scan: %d returned, %d expected, %d missing, "
                         "%d unexpected, %d returned twice" % (what, q["api"], "completely_within" if q["within"] else "overlap",
                                                              len(got), len(lower), len(bad["missing"]), len(bad["unexpected"]),
                                                              len(bad["returned twice"])),
                  "query": describe(q), "n_got": len(got), "n_expected": len(lower),
                  "missing features whose (start, end) is shared with a returned feature":
                      sum(1 for i in bad["missing"] if coords.get((by_id[i]["start"], by_id[i]["end"]))),
                  "big": {k: BIG[k] for k in ("seqid", "lo", "hi", "inside")}}
        for k, ids in bad.items():
            detail[k] = [[i, by_id[i]["seqid"], by_id[i]["start"], by_id[i]["end"], by_id[i]["featuretype"]]
                         for i in ids[:6] if i in by_id]
        if extra:
            detail.update(extra)
        report(ctx, case, "big:" + what + ":" + ("region" if q["api"] == "region" else "limit="), detail)
        return True

    try:
        for q in qs:
            lower, upper = expect(ctx, feats, q)
            ctx.mon("queries executed")
            ctx.mon("queries: %s %s" % (q["api"], q["form"]))
            try:
                got = call(db, q)
            except Exception as ex:
                report(ctx, case, "big raised", {"why": "large answer: query raised %s" % (repr(ex)[:300],), "query": describe(q)})
                ok_all = False
                continue
            if differs("consumed at once", q, got, lower, upper):
                ok_all = False
                continue
            if len(lower) > 10000:
                large += 1
                api = "region" if q["api"] == "region" else q["api"] + "(limit=)"
                ctx.mon("big: answers with more than 10 000 features, each returned once: %s" % api)
                ctx.mon("big: such answers, form %s/%s" % (q["api"], q["form"]))
                ctx.mon("big: such answers, %s" % ("completely_within" if q["within"] else "overlap"))
                shared = sum(1 for n in Counter((by_id[i]["start"], by_id[i]["end"]) for i in lower).values() if n > 1)
                if shared >= 1000:
                    ctx.mon("big: such answers in which >= 1000 (start, end) pairs are shared by several returned features")
            else:
                ctx.mon("big: answers with at most 10 000 features")
        for sch in slow:
            r = random.Random(sch["chunks"])
            big, second = sch["big"], sch["second"]
            lo_b, up_b = expect(ctx, feats, big)
            lo_s, up_s = expect(ctx, feats, second)
            ctx.mon("queries executed", 2)
            try:
                if sch["mode"] == "slow":
                    g, got, between, done, bad_between = open_query(db, big), [], 0, False, False
                    while not done:
                        for _ in range(r.choice([1, 2, 10, 500, 3000, r.randrange(1, 3001)])):
                            try:
                                got.append(next(g).id)
                            except StopIteration:
                                done = True
                                break
                        s_got = call(db, second)
                        between += 1
                        if differs("complete query between the chunks of a large generator", second, s_got, lo_s, up_s,
                                   {"rows of the large generator consumed so far": len(got)}):
                            bad_between = True
                            break
                    if not bad_between:
                        got.extend(f.id for f in g)
                    ctx.mon("big: queries answered between the chunks of a large generator", between)
                    if differs("generator consumed in chunks, complete queries in between", big, got, lo_b, up_b,
                               {"queries in between": between, "query in between": describe(second)}) or bad_between:
                        ok_all = False
                    elif len(lo_b) > 10000 and between >= 2:
                        ctx.mon("big: large region() generators consumed in chunks with complete queries in between")
                else:
                    gens = [open_query(db, big), open_query(db, second)]
                    got = [[], []]
                    live = [0, 1]
                    while live:
                        for i in list(live):
                            for _ in range(r.choice([1, 1, 5, 100, 1000])):
                                try:
                                    got[i].append(next(gens[i]).id)
                                except StopIteration:
                                    live.remove(i)
                                    break
                    d1 = differs("two large generators consumed alternately", big, got[0], lo_b, up_b)
                    d2 = differs("two large generators consumed alternately", second, got[1], lo_s, up_s)
                    if d1 or d2:
                        ok_all = False
                    elif len(lo_b) > 10000 and len(lo_s) > 10000:
                        ctx.mon("big: two large generators consumed alternately")
            except Exception as ex:
                report(ctx, case, "big raised", {"why": "large answer (%s schedule) raised %s" % (sch["mode"], repr(ex)[:300]),
                                                 "query": describe(big), "second": describe(second)})
                ok_all = False
    finally:
        try:
            db.conn.close()
        except Exception:
            pass
        for v in contracts.drain():
            report(ctx, case, "contract " + v.get("contract", "?"), v)
    return ok_all and large > 0


# ---------------------------------------------------------------------------------------------------------
HOW = dict(zip(("create", "update", "relation"), HOW_NAMES))


def execute_rewritten(ctx, case):
    """kind "rewritten": {"set": set parameters, "rw": seed of G.make_rewrite, "fresh": bool, "queries": [query...]}.

    The feature set is imported into a database FILE and a part of its rows is REWRITTEN with other coordinates: lines that
    repeat an ID under merge_strategy='replace' (in the same create_db call, or in later update() calls), and add_relation()
    calls whose parent_func / child_func set other coordinates.  Then every query form is answered (by the FeatureDB object
    that did the rewriting, or by one opened afterwards) and compared with the scan of what the file holds NOW, read with
    plain sqlite3.  Returns True when bin-filtered answers held rows that were rewritten into another genomic bin."""
    import gffutils

    setp = case["set"]
    SET = G.make_set(setp["seed"], setp["n"], flavour=setp.get("flavour"))
    RW = G.make_rewrite(case["rw"], SET)
    path, gff = ctx.tmp(".db"), ctx.tmp(".gff3")
    db = None
    hits = 0

    def write(text):
        with open(gff, "w", encoding="utf-8", newline="") as fh:
            fh.write(text)

    how = {}                   # id -> how its row was rewritten last
    try:
        try:
            steps = list(RW["steps"])
            if RW["mode"] == "create":
                write(SET["text"] + G.text_of(steps[0]["feats"]))
                db = gffutils.create_db(gff, path, merge_strategy="replace")
                how.update((f["id"], "create") for f in steps[0]["feats"])
                steps = steps[1:]
            else:
                write(SET["text"])
                db = gffutils.create_db(gff, path)
        except Exception as ex:
            ctx.skip("rewritten: building the database file raised %s (import is not judged here)" % type(ex).__name__)
            return False
        try:
            for st in steps:
                if st["how"] == "replace":
                    write(G.text_of(st["feats"]))
                    db.update(gff, merge_strategy="replace", make_backup=False)
                    how.update((f["id"], "update") for f in st["feats"])
                    ctx.mon("rewritten: update(merge_strategy='replace') calls")
                else:
                    to, pid, cid = st["to"], st["parent"], st["child"]

                    def pf(parent, child, xy=to.get(pid)):
                        parent.start, parent.end = xy
                        return parent

                    def cf(parent, child, xy=to.get(cid)):
                        child.start, child.end = xy
                        return child

                    db.add_relation(db[pid] if st["as_object"] else pid, db[cid] if st["as_object"] else cid, 1,
                                    parent_func=pf if pid in to else None, child_func=cf if cid in to else None)
                    how.update((i, "relation") for i in to)
                    ctx.mon("rewritten: add_relation() calls whose parent_func / child_func set other coordinates")
        except Exception as ex:
            # what update() / add_relation() do is C10's business; here they are the premise
            ctx.skip("rewritten: update() / add_relation() raised %s" % type(ex).__name__)
            return False
        ctx.mon("rewritten: database files built")
        if case.get("fresh"):
            db.conn.close()
            db = gffutils.FeatureDB(path)
            ctx.mon("rewritten: databases reopened before the queries")
        d = dbdump.dump(path)
        feats = content_of(d)
        if feats is None:
            ctx.skip("rewritten: the relations table holds rows of a level other than 1 (two-level hierarchy expected)")
            return False
        stored = {f["id"]: f for f in feats}
        stored_bin = {f["id"]: f["bin"] for f in d["features"]}
        if len(stored) != len(feats):
            ctx.skip("rewritten: the file holds several rows under one id")
            return False
        norm = lambda fs: sorted((f["id"], f["seqid"], f["featuretype"], f["strand"], f["start"], f["end"], sorted(f["parents"]))
                                 for f in fs)
        if norm(feats) != norm(RW["final"]):
            ctx.mon("rewritten: the file's content is not what the rewriting was expected to store (C10's business; the scan of "
                    "the file stays the reference)")
        # evidence: which rows are now stored with the coordinates of another genomic bin than the imported ones
        movedbin = set()
        for i, (oa, ob) in RW["old"].items():
            f = stored.get(i)
            if f is None or (f["start"], f["end"]) == (oa, ob):
                continue
            ctx.mon("rewritten: rows stored with other coordinates than imported: %s" % HOW[how.get(i, "update")])
            key = G.bin_key(f["start"], f["end"])
            if key != G.bin_key(oa, ob):
                movedbin.add(i)
                ctx.mon("rewritten: rows now stored with the coordinates of another genomic bin: %s" % HOW[how.get(i, "update")])
                ctx.mon("rewritten: rows rewritten into %s" % ("coordinates beyond 2^29" if key == "out" else
                                                               "another bin of level %d (2^%d bases)" % (key[0], 17 + 3 * key[0])))
        ghosts = [dict(stored[i], start=oa, end=ob) for i, (oa, ob) in RW["old"].items() if i in stored]
        for q in case["queries"]:
            if q["id"] is not None and q["id"] not in stored:
                ctx.mon("rewritten: queries naming a feature that is not stored (not executed)")
                continue
            uni = M.universe(feats, q["api"], q["id"])
            lower, upper = expect(ctx, uni, q)
            sqltrace.reset()
            ctx.mon("queries executed")
            ctx.mon("rewritten: queries answered")
            kind = "region" if q["api"] == "region" else "limit="
            try:
                got = call(db, q)
            except Exception as ex:
                report(ctx, case, "rewritten raised", {"why": "rows rewritten after the import: %s query raised %s" % (kind, repr(ex)[:300]),
                                                       "query": describe(q), "mode": RW["mode"]})
                return False
            present, nb = bin_clause()
            ctx.mon("result rows compared", len(got))
            bad = M.judge(got, lower, upper)
            if bad:
                wo = "completely_within" if q["within"] else "overlap"
                detail = {"why": "rows rewritten after the import (%s): %s %s result differs from the scan of the coordinates now "
                                 "stored in the file" % (RW["mode"], kind, wo), "query": describe(q), "n_got": len(got),
                          "n_expected": len(lower), "sql bin clause": present, "set": setp, "rw": case["rw"]}
                for k, ids in bad.items():
                    detail[k] = [[i, stored[i]["seqid"], stored[i]["start"], stored[i]["end"], "stored bin %s" % stored_bin.get(i),
                                  "imported as %s" % (RW["old"].get(i),), HOW.get(how.get(i), "not rewritten")]
                                 for i in ids[:6] if i in stored]
                    detail["n " + k] = len(ids)
                if bad["missing"] and set(bad["missing"]) <= movedbin and not bad["unexpected"]:
                    detail["why"] += ": rows rewritten into another genomic bin are missing"
                report(ctx, case, "rewritten:%s:%s" % (kind, wo), detail)
                return False
            two = q["start"] is not None and q["end"] is not None
            wo = "within" if q["within"] else "overlap"
            mv = [i for i in lower if i in movedbin]
            if mv:
                ctx.mon("rewritten: answers holding a row rewritten into another bin: %s %s" % (kind, wo))
                if present:
                    hits += 1
                    ctx.mon("rewritten: such answers with a bin clause in the SQL: %s %s" % (kind, wo))
                    ctx.mon("rewritten: such answers with a bin clause in the SQL: %s" % (q["api"] if kind == "region" else q["api"] + "(limit=)"))
                    ctx.mon("rewritten: such answers with a bin clause in the SQL, form %s/%s" % (q["api"], q["form"]))
                    for h in set(how.get(i) for i in mv):
                        ctx.mon("rewritten: such answers with a bin clause in the SQL, row rewritten by %s" % HOW.get(h, "?"))
            if two and ghosts:
                gone = M.expected(M.universe(ghosts, q["api"], q["id"]), q["seqid"], q["start"], q["end"], q["within"],
                                  q["strand"], q["ft"])[0]
                if set(gone) - set(lower):
                    ctx.mon("rewritten: queries that the imported coordinates of a rewritten row would have matched (not returned): %s" % kind)
    finally:
        if db is not None:
            try:
                db.conn.close()
            except Exception:
                pass
        for p in (path, gff, path + "-journal", path + "-wal", path + "-shm"):
            if os.path.exists(p):
                os.unlink(p)
        for v in contracts.drain():
            report(ctx, case, "contract " + v.get("contract", "?"), v)
    return hits > 0


def gen_rewritten(rng):
    """A 'rewritten' case: a small feature set, a rewriting (G.make_rewrite) and 50-70 queries drawn against what the file
    should hold afterwards: 55% anchored on the rewritten rows' new coordinates, 15% on their imported coordinates."""
    setp = {"seed": rng.randrange(1 << 30), "n": rng.choice([60, 90, 120])}
    if rng.random() < 0.3:
        setp["flavour"] = "binends"
    SET = G.make_set(setp["seed"], setp["n"], flavour=setp.get("flavour"))
    rw = rng.randrange(1 << 30)
    RW = G.make_rewrite(rw, SET)
    final = RW["final"]
    new = [f for f in final if f["id"] in RW["old"]]
    used = sorted({x for f in new for x in (f["start"], f["end"])})
    FINAL = dict(SET, features=final, focus=sorted(set(SET["focus"]) | set(rng.sample(used, min(len(used), 20)))))
    hubs_new = [h for h in SET["hubs"] if any(h in f["parents"] for f in new)] or SET["hubs"]
    NEW = dict(FINAL, features=new, hubs=hubs_new)
    OLD = dict(FINAL, features=[dict(f, start=RW["old"][f["id"]][0], end=RW["old"][f["id"]][1]) for f in new], hubs=hubs_new)
    anchored = any(f["parents"] for f in new)
    moved_hubs = [f for f in new if f["id"] in SET["hubs"]]
    under = [f for f in final if any(h["id"] in f["parents"] for h in moved_hubs)]
    UP = dict(FINAL, features=moved_hubs + under)           # parents(limit=) of the children of rewritten parent features
    qs = []
    for _ in range(rng.randrange(50, 71)):
        r = rng.random()
        if r < 0.08 and under:
            for _ in range(40):
                q = G.gen_query(rng, UP)
                if q["api"] == "parents":
                    break
        else:
            q = G.gen_query(rng, NEW if r < 0.6 and anchored else OLD if r < 0.75 and anchored else FINAL)
        qs.append(q)
    return {"kind": "rewritten", "set": setp, "rw": rw, "fresh": rng.random() < 0.5, "queries": qs}


def gen_handles(rng, n):
    """A 'handles' case: small feature set, an update by a second handle, one round of queries per state of the file.
    The queries are drawn against the union of everything that is ever stored, so that round 0 already names the seqid
    and the features that the second handle adds later."""
    setp = {"seed": rng.randrange(1 << 30), "n": n}
    if rng.random() < 0.25:
        setp["flavour"] = "idless"
    SET = G.make_set(setp["seed"], setp["n"], flavour=setp.get("flavour"))
    upd = rng.randrange(1 << 30)
    U = G.make_update(upd, SET)
    every = SET["features"] + [f for st in U["steps"] for f in st["add"]]
    ALL = dict(SET, features=every, seqids=SET["seqids"] + [U["new_seqid"]], hubs=U["hubs"])
    NEW = dict(ALL, features=[f for f in every if f["seqid"] == U["new_seqid"]])
    hubs_new = [h for h in U["hubs"] if any(h in f["parents"] for f in NEW["features"])]
    anchored = bool(hubs_new)
    rounds = []
    for ri in range(len(U["steps"]) + 1):
        qs = []
        for _ in range(rng.randrange(30, 50)):
            r = rng.random()
            if r < 0.45 and anchored:
                # anchored on the features of the new seqid
                q = G.gen_query(rng, dict(NEW, hubs=hubs_new or U["hubs"]))
                if q["api"] == "parents" and rng.random() < 0.5:
                    q.update(api="region", form=rng.choice(["tuple", "string", "feature", "kw"]), id=None, level=None)
                    q["fstrand"] = rng.choice(G.STRANDS) if q["form"] == "feature" else None
            else:
                q = G.gen_query(rng, ALL)
            qs.append(q)
        rounds.append(qs)
    return {"kind": "handles", "set": setp, "upd": upd, "b_early": rng.random() < 0.5, "rounds": rounds}


def describe(q):
    d = {k: v for k, v in q.items() if v is not None}
    return d


def observe_sql(ctx, q, present, nb):
    s, e = q["start"], q["end"]
    ctx.mon("sql: bin clause present" if present else "sql: bin clause absent")
    kind = "region" if q["api"] == "region" else "limit"
    if present:
        ctx.mon("sql: %s bin clause with %s bins" % (kind, "1" if nb == 1 else "2..8" if nb < 9 else "9..899" if nb < 900 else ">=900"))
        ctx.mon("sql: %s %s with bin clause" % (kind, "within" if q["within"] else "overlap"))
        return
    two = s is not None and e is not None
    if not two:
        ctx.mon("sql: one bound, no bin clause")
    elif kind == "region" and not q["within"]:
        ctx.mon("sql: region overlap, no bin clause")
    elif e > S.LIMIT or s > S.LIMIT:
        ctx.mon("sql: %s, bound > 2**29, no bin clause" % kind)
    elif S.in_range(s, e) and len(S.required_set(s, e)) >= 900:
        if kind == "region":
            ctx.mon("sql: region within, both bounds in range, no bin clause (>= 900 bins)")
        else:
            ctx.mon("sql: limit, no bin clause (>= 900 bins)")
    else:
        ctx.mon("sql: %s, no bin clause (other)" % kind)


def diagnose(q, uni, got, stored_bin):
    """Name the difference: does the result equal what a named candidate defect of DESIGN section 5 would give?"""
    hyps = []
    two = q["start"] is not None and q["end"] is not None
    top = two and (q["end"] >= S.LIMIT or q["start"] >= S.LIMIT)
    if q["api"] == "region" and q["form"] == "feature":
        hyps.append("S")
    if q["api"] == "region" and q["within"] and two and q["end"] == S.LIMIT:
        hyps.append("B1")
    if q["api"] != "region" and top:
        hyps.append("B2")
    names = {
        "S": "Feature-form region is restricted to the query feature's own strand (documented: ignored; strand= is "
             "overridden too) [candidate F-C06-3]",
        "B1": "completely_within region query whose end equals 2**29 returns only features stored in bin 1 "
              "[candidate F-C06-1]",
        "B2": "limit= with a bound at or beyond 2**29 returns only features stored in bin 1 [candidate F-C06-2]",
    }
    combos = [[h] for h in hyps] + ([hyps] if len(hyps) > 1 else [])
    for combo in combos:
        strand = q["fstrand"] if "S" in combo else q["strand"]
        lo, up = M.expected(uni, q["seqid"], q["start"], q["end"], q["within"], strand, q["ft"])
        if "B1" in combo or "B2" in combo:
            lo = [i for i in lo if stored_bin.get(i) == 1]
            up = [i for i in up if stored_bin.get(i) == 1]
        if M.judge(got, lo, up) is None:
            return "+".join(combo), " AND ".join(names[h] for h in combo)
    api = q["api"] if q["api"] == "region" else "limit="
    return "differs:" + api, "%s %s result differs from the full scan (%s)" % (
        api, "completely_within" if q["within"] else "overlap", q["form"])


FLAVOURS = [None, "case", "reversed", None, "binends", "idless"]


def gen_interleave(rng, SET, setp):
    """An interleave case against SET (JSON-able; the schedule is a seed)."""
    feats = SET["features"]
    if rng.random() < 0.5:
        qs = [G.gen_query(rng, SET) for _ in range(rng.choice([2, 2, 3, 4]))]
        if SET.get("binends") and rng.random() < 0.5:
            qs[0] = G.gen_query(rng, SET, mode="binend")
        return {"kind": "interleave", "set": setp, "mode": "schedule", "queries": qs, "sched": rng.randrange(10 ** 9),
                "zipped": rng.random() < 0.5}
    # nested: an outer query with 2..40 expected features (so that the inner loop runs more than once, cheaply)
    q = None
    for _ in range(40):
        q = G.gen_query(rng, SET)
        if q["api"] != "region" and rng.random() < 0.6:
            q.update(api="region", form=rng.choice(["tuple", "string", "kw"]), id=None, level=None)
        uni = M.universe(feats, q["api"], q["id"])
        lower, _ = M.expected(uni, q["seqid"], q["start"], q["end"], q["within"], q["strand"], q["ft"])
        if 2 <= len(lower) <= 40:
            break
    inner = G.gen_query(rng, SET)
    if rng.random() < 0.5:
        inner.update(api="region", form="feature", id=None, level=None, fstrand=None)
    elif inner["api"] == "region":
        inner["form"] = rng.choice(["feature", "tuple", "string", "kw"])
    elif inner["api"] == "children" and rng.random() < 0.5:
        inner["id"] = "@outer"
    if inner["form"] == "feature":
        inner["fstrand"] = None          # the yielded Feature object itself is passed
    if inner["api"] == "region" and inner["form"] not in ("feature", "tuple", "string", "kw"):
        inner["form"] = "kw"
    if inner["api"] != "features_of_type" and rng.random() < 0.6:
        inner["ft"], inner["ft_form"] = None, None       # more non-empty inner results
    inner.update(seqid=None, start=None, end=None)
    return {"kind": "interleave", "set": setp, "mode": "nested", "queries": [q], "inner": inner}


def run(ctx):
    rng = ctx.rng
    quick = ctx.tier == "quick"
    nsets = 6 if quick else 24
    nq = ctx.budget(26000, 16 * 20 * 3600) // nsets
    n = 250 if quick else 300
    # two FeatureDB objects on one database file: the second one changes the file, the first one answers
    for _ in range(ctx.budget(40, 16 * 40)):
        case = gen_handles(rng, rng.choice([60, 90, 120]))
        useful = execute(ctx, case)
        ctx.case((case["set"]["seed"], case["upd"], case["b_early"]), bool(useful), cls="handles/second handle updates the file",
                 sample={"set": case["set"], "upd": case["upd"], "rounds": [len(r) for r in case["rounds"]]})
    # rows rewritten after the import with other coordinates (replace / add_relation), then every query form
    for _ in range(ctx.budget(48, 16 * 48)):
        case = gen_rewritten(rng)
        useful = execute(ctx, case)
        ctx.case((case["set"]["seed"], case["rw"], case["fresh"]), bool(useful), cls="rewritten/rows rewritten with other coordinates",
                 sample={"set": case["set"], "rw": case["rw"], "fresh": case["fresh"], "queries": len(case["queries"])})
    # seqids holding ',', '-', ' ', '%' (and twins without), every string form against the tuple form; featuretype
    # iterables naming a type several times
    for _ in range(ctx.budget(72, 16 * 220)):
        case = G.gen_oddseq(rng)
        useful = execute(ctx, case)
        ctx.case(("oddseq", case["seed"], repr(case["seqids"]), repr(case["queries"])), bool(useful),
                 cls="oddseq/seqids holding , - space % and repeated featuretype entries",
                 sample={"seqids": case["seqids"], "seed": case["seed"], "queries": case["queries"][:3]})
    # query bounds far beyond anything stored (2**62 ... 10**20, 2**100), in every query form
    for _ in range(ctx.budget(64, 16 * 200)):
        case = G.gen_huge(rng)
        useful = execute(ctx, case)
        ctx.case(("huge", case["seed"], repr(case["queries"])), bool(useful), cls="huge/query bounds of 2**62 and more",
                 sample={"seed": case["seed"], "queries": case["queries"][:3]})
    if ctx.shard % 4 == 0:
        # one LARGE answer (costs ~10 s, hence one shard of four)
        case = {"kind": "big", "seed": rng.randrange(1 << 30)}
        useful = execute(ctx, case)
        ctx.case(("big", case["seed"]), bool(useful), cls="big/one large answer", sample=case)
    first = rng.randrange(len(FLAVOURS))
    with_directives = set(rng.sample(range(nsets), nsets // 2))
    for si in range(nsets):
        setp = {"seed": rng.randrange(1 << 30), "n": n}
        flavour = FLAVOURS[(si + first) % len(FLAVOURS)]
        if flavour:
            setp["flavour"] = flavour
        elif rng.random() < 0.35:
            setp["moved"] = True
        if si in with_directives:
            # the same kind of feature set, imported from a file that carries ##sequence-region (and other) directives
            setp["directives"] = rng.randrange(1 << 30)
        _, SET, _ = get_db(ctx, setp)
        for qi in range(nq):
            if qi % 25 == 24:
                case = gen_interleave(rng, SET, setp)
                useful = execute(ctx, case)
                ctx.case((setp["seed"], repr(sorted((k, repr(v)) for k, v in case.items() if k != "set"))), useful,
                         cls="interleave/" + case["mode"],
                         sample={"set": setp, "mode": case["mode"], "queries": [describe(x) for x in case["queries"]],
                                 "inner": describe(case.get("inner") or {})})
                continue
            mode = None
            if flavour == "binends":
                mode = rng.choice(["wide", "wide", "binend", "binend", None])
            elif flavour == "reversed":
                mode = rng.choice(["reversed", "reversed", None])
            if "directives" in setp and rng.random() < (0.2 if mode else 0.4):
                mode = "declared"
            q = G.gen_query(rng, SET, mode)
            if "directives" in setp:
                ctx.classes["directives/queries on a database imported from a file with ##sequence-region lines"] += 1
            case = {"kind": "query", "set": setp, "query": q}
            r = execute(ctx, case)
            s, e = q["start"], q["end"]
            if (e is not None and e >= S.LIMIT) or (s is not None and s >= S.LIMIT):
                ctx.mon("queries with an end >= 2**29")
            if s is None or e is None:
                ctx.mon("one-sided queries")
            if r["touch"]:
                ctx.mon("queries touching a feature end exactly")
            if r["expected"]:
                ctx.mon("queries with non-empty expected result")
            nontrivial = r["expected"] > 0 and (G.near_boundary(s) or G.near_boundary(e))
            cls = "%s/%s/%s" % (q["api"], q["form"], "within" if q["within"] else "overlap")
            ctx.case((setp["seed"], sorted((k, repr(v)) for k, v in q.items())), nontrivial, cls=cls,
                     sample={"set": setp, "query": describe(q), "expected rows": r["expected"],
                             "boundary classes": [G.boundary_class(s), G.boundary_class(e)]})
    ctx.mon("contract evaluations: helpers.make_query", contracts.EVALS["helpers.make_query"])
    ctx.mon("contract evaluations: bins.bins", contracts.EVALS["bins.bins"])


MANIFEST = {
    "technique": "boundary-directed feature sets -> real create_db; every region/limit query vs brute-force scan of the model; "
                 "SQL statement trace shows bin pre-filter present/absent",
    "text": "Feature sets whose coordinates sit on and around every genomic-bin boundary and the 2**29 limit are imported by the "
            "real create_db; thousands of queries per database (all region forms, seqid omitted, one-sided, limit= on "
            "all_features/features_of_type/children/parents, completely_within on/off, strand and featuretype restrictions) "
            "are answered by the real code and compared, as multisets of ids, with a brute-force scan of the model list "
            "using the statement's predicates. The statement trace records for every query whether the bin clause was in "
            "the SQL, so both paths (with/without pre-filter, fewer/more than 900 bins, bounds beyond 2**29) are shown to "
            "have been exercised. Further databases hold seqids that differ only in letter case with twin features at the same "
            "coordinates (a query for one spelling must not return the other's), or small features in the first 128 kb plus "
            "features around the bin ends of every level, queried with 100-500 Mb completely_within spans and with ends on "
            "the last base of a bin. 'interleave' cases keep 2-4 generators of one FeatureDB alive (zip-like, random "
            "schedule, nested region(feature)/limit= loops inside a loop over another query): each must yield exactly what "
            "it yields alone. Databases of flavour 'idless' hold features without ID attribute, several of them "
            "byte-identical lines: each is one stored feature and must be returned once by region, limit= and "
            "children/parents(limit=). 'handles' cases open two FeatureDB objects on one database file: the first answers "
            "queries (also on a seqid that does not exist yet), the second adds features on a brand-new seqid and on existing "
            "ones with update() and deletes some, then the first - not reopened - must answer exactly like a scan of the file's "
            "current content. Databases of flavour 'reversed' store about a third of their features with start > end (insertion "
            "sites start = end + 1, origin-spanning features): the statement's comparisons are applied as written, through "
            "region and limit= alike. One 'big' case per run holds more than 10 000 features, most of them sharing their "
            "(start, end) with others, inside one interval: every form of region() and all_features(limit=) must return every "
            "one exactly once, also when the generator is consumed in chunks between other queries on the same FeatureDB. "
            "'rewritten' cases rewrite rows after the import with coordinates of another genomic bin (lines repeating an ID under "
            "merge_strategy='replace' in create_db and update, add_relation with parent_func / child_func that move a feature) and "
            "then ask every query form: the answers must be the scan of the coordinates now stored in the file. Half of the "
            "databases are imported from files carrying '##sequence-region' (and other) directives for the queried and for other "
            "seqids, with features reaching beyond the declared end and query ends beyond it: the answers are those of the scan. "
            "'huge' cases ask every query form with a bound of 2**62, 2**63 - 1, 2**63, 2**64, 10**20 and beyond (end of two-sided "
            "queries, only bound, limit=; ints and the digits of the string forms) on databases whose features reach 2**63 - 1: the "
            "answer is the scan's under exact integer comparison. "
            "Held = no executed query disagreed.",
    "note": "Trusted: the scan in gvmon/models/C06.py, sqlite3. One-sided queries are judged by a sandwich (strictly beyond <= "
            "result <= at or beyond). Not covered: queries without any bound, empty featuretype collections, hierarchies deeper "
            "than one level under limit=. Not judged: region() overlap queries with start == end == an end coordinate of a "
            "stored feature with start > end (the unchanged tree returns that feature; counted in a monitor).",
}
