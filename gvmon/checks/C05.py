"""
C05  Duplicate keys are resolved exactly as the chosen merge_strategy says.

Model-based monitor: histories of features with colliding keys are fed to the real create_db and FeatureDB.update
and, arrival by arrival, to the sequential reference model gvmon/models/C05.py; the final database (read with plain
sqlite3) must contain exactly the model's features (keys, columns, attribute value sets, forced columns as token sets)
and exactly the level-1 relations that the Parent values of the features *as finally stored* call for.  Every stored
feature is then read through the live FeatureDB handle (db[key], str(), region / all_features(limit=) at its position).

Violation reasons are kept apart by their first word:
    outcome:    raised / did not raise against the strategy
    features:   a feature lost or invented (key set)
    columns:    a stored column differs
    attributes: an attribute key or value lost, invented or repeated
    relations:  level-1 rows differ from the Parent values of the stored features   (see DESIGN.md F-C05-1)
    extra:      the fields after the attribute column are not those of the arrival the strategy keeps
    handle:     db[key] (live FeatureDB handle) differs from the model
    printed:    str(db[key]) is not the line the strategy keeps (dialect of the file)
    lookup:     a stored feature is not found by region(..., completely_within=True) / all_features(limit=) at its position
    shared:     a list object that the caller shares between features was changed by the import
Case kinds: "keyless" (case["keyspec"]: key from a ':field:' / callable id_spec or auto-numbered; attribute-less colliding features),
"shared" (case["share"]: features sharing value-list objects, see class Shared), "history" (with "built"/"modes": Feature objects whose coordinates are edited after construction, see feed),
"locked" (update() under a transient lock held by another connection, see execute_locked), "badforce".
"""
import os

from gvmon import dbdump
from gvmon.gen import C05 as G
from gvmon.models import C05 as M
from gvmon.models import dialect as MD
from gvmon.monitors import contracts

FORCE_NOTICE = r"(frame|strand) field will be merged for features with the same ID"
WFILTERS = ("error", "ignore", "default")
SHARE_MODES = ("transform", "objects", "iterator", "clone", "clone-dict")

RULE = ("histories of 1-2 colliding keys with 2-6 arrivals each (plus unique features, parent features and arrivals whose "
        "own id is an earlier '<key>_n'), columns drawn as variants that are equal / differ in forced / differ in other "
        "columns, attribute sets overlapping; strategies error, warning, replace, create_unique, merge x all 64 subsets of "
        "{seqid,source,featuretype,score,strand,frame} as force_merge_fields (enumerated for merge) x {GFF3, GTF importer} "
        "x {create_db only, create_db then 1-2 update() calls, optional reopen}; layered input classes: valueless attribute "
        "keys (on the stored feature / the newcomer / both / against the same key with values), start and/or end '.', "
        "force_merge_fields handed over in shuffled order, GTF importer under 6 non-default (transcript key, gene key) "
        "pairs (incl. swapped and decoy transcript_id/gene_id attributes) x all strategies, one key colliding in create_db "
        "and again in 2-4 later update() calls (reopen never/always/mixed), the documented verbose argument (not given / False "
        "/ True / 'debug') handed to create_db and every update - drawn per history and, in a dedicated block, one "
        "history run under all three values -, colliding lines with 0-2 extra (10th, 11th) columns that differ from "
        "arrival to arrival (under merge: equal per key), column variants of one key placed in different genomic bins "
        "(1-500, 40000001-40000500, 300000000-300000400, ...); colliding newcomers that are Feature objects whose start/end were "
        "edited after construction - by a transform handed to create_db / update (the text carries the construction "
        "coordinates) or by the caller before create_db / update(list of Features) -, positions drawn around the genomic-bin "
        "boundaries (131072, 1048576, 8388608; one base before / on / after), constructed in another bin (100..200-like, "
        "300 Mb away, shifted by 1 / 131072, longer by 1 / 70000) or with the stored feature's coordinates and edited away; "
        "stored lines that arrive again - verbatim (columns, keys, order, values, extras), or differing only in the order of the "
        "attribute keys and/or of the values - in the same run, a later run or an update() of their own, 1-2 times, over plain "
        "files (nothing else collides), ordinary histories and multi-run histories, with and without value lists that hold a "
        "value more than once (Note=a,a; Dbxref=X1,X2,X1) on the repeated and on other lines, every strategy; "
        "one history (every strategy, half of them 'warning'; plain, multi-run and repeated-line histories) run three times, while "
        "the process-wide warning filter (warnings.simplefilter inside catch_warnings) is 'error', 'ignore' and 'default', "
        "each run judged against the model; "
        "keys that do not come from an attribute - id_spec ':seqid:' / ':source:' / ':featuretype:' (str or list), a callable "
        "id_spec joining columns, or auto-numbered '<featuretype>_<n>' ids of features without the id attribute that a later "
        "literal id (ID=exon_1) hits and vice versa - with about half of the colliding arrivals (stored and/or newcomer) having no "
        "attributes at all, every strategy, merge mostly with a non-empty force_merge_fields whose columns differ, create_db and "
        "update(), GFF3 and GTF; features that SHARE value-list objects - a transform attaching one constant list object per key "
        "(and one Parent list) to every feature of create_db and of every update, lists / iterators of Feature objects whose equal "
        "value lists are one object, Feature objects made with copy.copy() from an earlier one with an own mapping (Attributes or "
        "dict) holding the template's list objects -, every strategy, unique features appended after the collisions; the shared "
        "list objects must hold afterwards what they held before; "
        "look-alike column variants of one key - column tuples that differ although the characters of two columns are merely "
        "redistributed across the boundary between them (start 1 / end 123 against 11 / 23, seqid chr1 / source A against chr / 1A; "
        "neighbouring columns and columns that become neighbours once force_merge_fields exempts one), values of two columns "
        "exchanged, another letter case, proper prefixes -, arriving in either order, again later and next to variants that differ "
        "in a forced column only, mostly merge (half with force_merge_fields), every strategy, GFF3 and GTF, create_db and update; "
        "one update() per quick run (thorough: every strategy) made while another sqlite3 connection holds a write "
        "transaction for 6.5-7 s (> the 5 s busy timeout) and then releases it, no key colliding; every stored feature is also read through the live "
        "handle (db[key], str(), region(completely_within=True) and all_features(limit=) at its position); non-trivial = >= 3 arrivals on one key; "
        "distinct = distinct (strategy, importer, force set/order, number of batches, per-key column-equality pattern, "
        "input classes, verbose)")
REQUIRED = ["histories", "arrivals", "stored features compared", "attribute value sets compared", "forced columns compared",
            "level-1 relation rows compared", "update() calls", "aborts observed (error)", "start/end force rejected",
            "autoid contract evaluations",
            # valueless attribute keys
            "union: valueless key on the stored feature only", "union: valueless key on the newcomer only",
            "union: valueless key on both", "union: valueless key meets the same key with values",
            "valueless attribute keys compared",
            # undefined coordinates
            "collision: start is '.' on both (columns agree)", "collision: end is '.' on both (columns agree)",
            "collision: start is '.' on one side only (columns differ)", "collision: end is '.' on one side only (columns differ)",
            "undefined ('.') coordinates compared",
            # GTF importer under non-default keys
            "level-1 relation rows compared under non-default GTF keys", "update() calls with transcript_key / gene_key",
            "replace: the replacement names a different level-1 parent (GTF, non-default keys)",
            "replace: the replacement names a different level-2 parent (GTF, non-default keys)",
            "level-2 gene rows compared (GTF)",
            # several import runs
            "histories colliding in create_db and in >= 2 later update() runs: create_unique",
            "histories colliding in create_db and in >= 2 later update() runs: merge",
            "... of these: reopened before every update", "... of these: same handle throughout",
            "... of these: fresh '<key>_n' keys filed in >= 3 different runs",
            # order of force_merge_fields
            "forced columns compared (force_merge_fields in non-canonical order)",
            "histories with force_merge_fields in non-canonical order (gff3)",
            "histories with force_merge_fields in non-canonical order (gtf)",
            # verbose
            "histories run with verbose=False", "histories run with verbose=True", "histories run with verbose='debug'",
            "one history run under verbose False / True / 'debug' (each judged against the model)",
            "update() calls with verbose='debug'",
            # extra columns, genomic bins
            "extra columns compared (stored row)", "extra columns compared (stored row, non-empty)",
            "replace: colliding arrivals differ in their extra columns", "replace: colliding arrivals lie >= 1 Mb apart",
            "warning: colliding arrivals differ in their extra columns", "warning: colliding arrivals lie >= 1 Mb apart",
            "create_unique: colliding arrivals differ in their extra columns",
            "create_unique: colliding arrivals lie >= 1 Mb apart", "merge: colliding arrivals lie >= 1 Mb apart",
            "region(completely_within=True) look-ups at the stored position",
            "all_features(limit=) look-ups at the stored position",
            "look-ups at the position of a feature that replaced one >= 1 Mb away",
            # live handle
            "db[key] compared with the model (columns, attributes, extra)",
            "printed lines compared with the kept arrival's line", "printed lines compared with the kept arrival's line (gtf)",
            "printed lines with extra columns compared",
            "printed lines of merged features compared (columns, attribute parts)",
            # coordinates edited after construction
            "features whose coordinates were edited after construction (by a transform)",
            "features whose coordinates were edited after construction (by the caller)",
            "update() calls with a transform that edits coordinates",
            "update() calls with a list of Feature objects edited by the caller",
            "edited colliding newcomer (by a transform): merged into key", "edited colliding newcomer (by the caller): merged into key",
            "edited colliding newcomer (by a transform): spawned", "edited colliding newcomer (by the caller): spawned",
            "edited colliding newcomer moved into the bin and onto the coordinates of the stored feature: merged into key",
            "edited colliding newcomer moved into another genomic bin: spawned",
            "edited colliding newcomer moved into another genomic bin: ignored",
            "edited colliding newcomer moved into another genomic bin: replaced",
            "edited colliding newcomer moved into another genomic bin: unique",
            "colliding newcomer built with the stored feature's coordinates, edited away: spawned",
            # stored lines arriving again, repeated values
            "merge: the newcomer repeats the stored line verbatim",
            "merge: the newcomer repeats the stored line verbatim, a value list of the line holds a repeated value",
            "merge: the newcomer repeats the stored line up to the order of the attribute keys",
            "merge: the newcomer repeats the stored line up to the order of the values",
            "merge: the newcomer repeats the stored line (with extra columns)",
            "merge: a value list of the stored feature holds a repeated value (the union has it once)",
            "merge: a value list of the newcomer holds a repeated value (the union has it once)",
            "merged features: value lists compared (each value once)",
            "unmerged features whose line repeats a value: value set compared (multiplicity not judged)",
            # process-wide warning filters
            "one history run under the warning filters 'error' / 'ignore' / 'default' (each judged against the model)",
            "histories run while the process-wide warning filter is 'error'",
            "histories run while the process-wide warning filter is 'error': strategy=warning",
            "histories run while the process-wide warning filter is 'error': strategy=merge",
            "histories run while the process-wide warning filter is 'default'",
            "warning filter 'error': strategy 'warning' ignored a later arrival and the import went on",
            "warning filter 'error': arrivals imported after the ignored one",
            "warning filter 'error': strategy 'warning' over create_db + update()",
            "warning filter 'default': strategy 'warning' ignored a later arrival and the import went on",
            "warning filter 'ignore': strategy 'warning' ignored a later arrival and the import went on",
            # keys that do not come from an attribute; colliding features without attributes
            "merge into a stored feature without attributes, a forced column brings a new value: key from field",
            "merge into a stored feature without attributes, a forced column brings a new value: key from callable",
            "merge into a stored feature without attributes, a forced column brings a new value: key from autoid",
            "merge into a stored feature without attributes, a forced column brings a new value (create_db)",
            "merge into a stored feature without attributes, a forced column brings a new value (update())",
            "merge into a stored feature without attributes, a forced column brings a new value: gff3",
            "merge into a stored feature without attributes, a forced column brings a new value: gtf",
            "merge of a newcomer without attributes, a forced column brings a new value",
            "collisions with a stored feature without attributes: key from field",
            "collisions with a stored feature without attributes: key from callable",
            "collisions with a stored feature without attributes: key from autoid",
            "features filed under an auto-numbered key",
            # features that share value-list objects
            "shared value-list objects compared after the import (contents unchanged)",
            "features handed over that share value-list objects",
            "update() calls with features that share value-list objects",
            "histories whose features share one Parent list object",
            "shared lists: a real merge followed by later features that collide with nothing",
        ] + ["histories whose features share value-list objects (%s)" % m for m in SHARE_MODES] + [
            "shared lists: a real merge followed by later features that collide with nothing (%s, %s)" % (m, w)
            for m in SHARE_MODES for w in ("create_db", "create_db + update()")] + [
            "histories whose features share value-list objects: strategy=%s" % st
            for st in ("warning", "replace", "create_unique", "merge")] + [
            # look-alike column variants
            "merge: the newcomer's checked columns differ from an earlier arrival's of the key but read the same when "
            "written one after the other: spawned",
            "merge: the newcomer's checked columns differ from an earlier arrival's of the key but read the same when "
            "written one after the other: merged into spawn",
            "merge: boundary-shifted newcomer (create_db)", "merge: boundary-shifted newcomer (update())",
            "merge: boundary-shifted newcomer, force_merge_fields not empty",
            "look-alike column variants: histories judged, gff3, create_db",
            "look-alike column variants: histories judged, gff3, create_db + update()",
            "look-alike column variants: histories judged, gtf, create_db",
            "look-alike column variants: histories judged, gtf, create_db + update()",
            # transient lock
            "transient lock: update() calls made while another connection held a write transaction > 5 s",
            "transient-lock cases judged"]
REQUIRED_CLASSES = (["strategy=" + s for s in M.STRATEGIES] + ["fmt=gff3", "fmt=gtf", "path=create", "path=create+update"]
                    + ["non-default GTF keys: strategy=" + s for s in M.STRATEGIES]
                    + ["non-default GTF keys: path=create", "non-default GTF keys: path=create+update"]
                    + ["collisions in create_db and >= 2 update() runs: strategy=" + s for s in ("create_unique", "merge")]
                    + ["arrival: " + a for a in ("new", "ignored", "replaced", "unique", "merged into key", "merged into spawn",
                                                 "spawned", "natural key collides with '<key>_n' entry")]
                    + ["force subset size=%d" % i for i in range(7)]
                    + ["verbose=%r: strategy=%s" % (v, s) for v in (False, True, "debug") for s in M.STRATEGIES]
                    + ["input class: extra columns, strategy=" + s for s in M.STRATEGIES]
                    + ["input class: variants in different genomic bins, strategy=" + s for s in M.STRATEGIES]
                    + ["coordinates edited after construction (%s): strategy=%s" % (m, s) for m in ("transform", "objects")
                       for s in M.STRATEGIES]
                    + ["input class: stored lines arrive again (verbatim / other key or value order), strategy=" + s for s in M.STRATEGIES]
                    + ["input class: value lists holding a value more than once, strategy=" + s for s in M.STRATEGIES]
                    + ["repeated lines: fmt=%s path=%s" % (f, p) for f in ("gff3", "gtf") for p in ("create", "create+update")]
                    + ["warning filter %r: strategy=%s" % (w, s) for w in WFILTERS for s in M.STRATEGIES]
                    + ["warning filter 'error': fmt=%s path=%s" % (f, p) for f in ("gff3", "gtf") for p in ("create", "create+update")]
                    + ["key not from an attribute (%s): strategy=%s" % (f, s) for f in ("field", "callable", "autoid") for s in M.STRATEGIES]
                    + ["key not from an attribute: fmt=%s path=%s" % (f, p) for f in ("gff3", "gtf") for p in ("create", "create+update")]
                    + ["shared value lists (%s): strategy=merge" % m for m in SHARE_MODES]
                    + ["shared value lists: fmt=%s path=%s" % (f, p) for f in ("gff3", "gtf") for p in ("create", "create+update")]
                    + ["look-alike column variants (%s): strategy=merge" % k for k in ("boundary", "swap", "case", "prefix")])
ASSUMPTIONS = [
    "one strategy, one force_merge_fields set and one id_spec per history (create_db and every update alike)",
    "a history in which the fresh '<key>_n' is already the key of another feature, or in which two candidates agree with "
    "the newcomer, is not judged (statement silent); the generator avoids them, the model skips and counts them",
    "values of forced columns contain no comma; a value list of one input line may hold a value more than once (Note=a,a): "
    "after a merge the feature has every value once ('without repeats'), whether the other feature brought the key or not; of "
    "a feature that is one arrival (never merged) only the value SET is judged then, and its printed line is not",
    "after an abort (strategy 'error') the state of the database is not judged",
    "GTF importer: run with gene/transcript inference disabled (derived features are C03's subject); the 'Parent link' of "
    "a GTF feature is the value of its transcript key (level 1) and of its gene key (level 2, filed directly from the "
    "line), under the keys the importer was given; only rows whose child is a stored feature are judged",
    "composed level-2 relations (GFF3) are not judged here (C02)",
    "a valueless attribute key is a key with an empty value list; the union of value lists keeps the key even when the "
    "union is empty; two '.' coordinates agree, '.' and a number differ",
    "the same transcript/gene keys are given to create_db (gtf_transcript_key / gtf_gene_key) and to every update "
    "(transcript_key / gene_key)",
    "the same verbose value is given to create_db and to every update; verbose only changes what is logged",
    "fields after the attribute column belong to the feature: 'replace' stores the last arrival's, 'warning' the first "
    "arrival's, create_unique each arrival's own; whether they must agree for a merge is not said: arrivals of one key "
    "carry the same extra fields under 'merge' (the model skips and counts anything else)",
    "a feature that is one arrival (not merged) prints as that arrival's line, the files being written in the one dialect "
    "the database detects; of a merged feature only the columns, the attribute parts (keys once, value sets) and the extra "
    "fields of the printed line are judged (order of keys and values free)",
    "a stored feature with defined coordinates is among region((seqid, start, end), completely_within=True) and "
    "all_features(limit=(seqid, start, end)); what else these return is C06's subject (only ids that are not stored at all "
    "are reported)",
    "a feature is what is handed to the importer: its columns are those it has after a transform / after the caller's "
    "edits, whatever they were when the object was constructed; a transform is a pure function of the feature's "
    "(start, end) that leaves an already edited feature alone (so it may be applied more than once)",
    "the outcome of a strategy does not depend on the process-wide warning filter; the one warning the unchanged tree emits "
    "itself on these paths - the UserWarning announcing frame / strand in force_merge_fields under 'merge', before "
    "anything is imported - is left un-escalated under the filter 'error' (message-specific 'ignore' entry)",
    "keys that do not come from an attribute: id_spec ':c:' gives the column c, a callable what it returns; a feature for which "
    "id_spec finds nothing is filed under '<featuretype>_<n>', n counting such features of the type over create_db and all "
    "updates (documented default of create_db); such a key collides like any other (a literal ID=exon_1 arriving after the "
    "auto-numbered exon_1, or the auto-numbered one arriving after the literal); an empty attribute column is a feature "
    "with no attributes; forced columns are compared as sets of comma-separated parts (order and multiplicity not judged)",
    "features sharing value-list objects: the feature handed to the importer has the values its lists hold when it is handed "
    "over (after the transform); a stored feature has its own values whoever else references the list objects, and the "
    "caller's list objects hold afterwards what they held before (reason 'shared')",
    "columns agree when each column has the same value (compared column by column, as the strings of the file); look-alike "
    "variants use letters and digits only, start <= end, no leading zeros",
    "transient lock: update() may raise sqlite3.OperationalError (then only a retry of the same update on a fresh handle, "
    "after the release, is judged) or return normally; either way the content must be the model's. Only update() is "
    "exercised (create_db makes its own file)",
]
QUICK_SHARDS = 4
THOROUGH_SHARDS = 16

L = lambda s: s.split()


def _rec(line, attrs):
    c = L(line)
    return {"seqid": c[0], "source": c[1], "featuretype": c[2], "start": c[3], "end": c[4], "score": c[5], "strand": c[6],
            "frame": c[7], "attrs": attrs, "extra": []}


def _mini(strategy, recs, force=()):
    return {"kind": "history", "fmt": "gff3", "strategy": strategy, "force": list(force), "idkey": "ID", "spec_form": "default",
            "batches": [recs], "reopen": False, "db": "memory", "pass_force_anyway": False, "pattern": [], "minimal": True}


# smallest histories for the three faces of F-C05-1 (run first on shard 0)
MINIMAL = [
    _mini("warning", [_rec("c1 s exon 1 9 . + .", [["ID", ["K"]], ["Parent", ["P1"]]]),
                      _rec("c1 s exon 1 9 . + .", [["ID", ["K"]], ["Parent", ["P2"]]])]),
    _mini("replace", [_rec("c1 s exon 1 9 . + .", [["ID", ["K"]], ["Parent", ["P1"]]]),
                      _rec("c1 s exon 1 9 . + .", [["ID", ["K"]], ["Parent", ["P2"]]])]),
    _mini("merge", [_rec("c1 s exon 1 9 . + .", [["ID", ["K"]], ["Parent", ["P1"]]]),
                    _rec("c1 t exon 1 9 . + .", [["ID", ["K"]], ["Parent", ["P2"]]]),
                    _rec("c1 t exon 1 9 . + .", [["ID", ["K"]], ["Parent", ["P3"]]])]),
]


def setup(ctx):
    contracts.install_all()
    contracts.install_autoid()


def point(fmt):
    if fmt == "gtf":
        return {"fmt": "gtf", "sep": "; ", "trailing": True, "repeated": False}
    return {"fmt": "gff3", "sep": ";", "trailing": False, "repeated": False}


def text_of(recs, fmt):
    D = point(fmt)
    return "\n".join(MD.render_line(r, D) for r in recs) + "\n"


def report(ctx, case, reason, msg, **detail):
    ctx.mon("violations: " + reason)
    d = {"why": "%s: %s" % (reason, msg), "strategy": case["strategy"], "force": case["force"], "importer": case["fmt"]}
    d.update(detail)
    if case.get("keyspec"):
        d["id_spec"] = case["keyspec"]
    if case.get("share"):
        d["features share value-list objects"] = case["share"]
    case = dict((k, v) for k, v in case.items() if k != "_shared")
    d["input"] = [text_of(b, case["fmt"]) for b in case["batches"]]
    if case.get("built"):
        d["features constructed at [start, end] and then edited to the input's (null: not edited)"] = case["built"]
        d["edited by"] = ["a transform" if m == "transform" else "the caller (list of Feature objects)" for m in case["modes"]]
    ctx.violation(case, d)


def link_keys(case):
    """(attribute key of the level-1 link, attribute key of the level-2 gene link or None)"""
    if case["fmt"] != "gtf":
        return "Parent", None
    tk, gk = case.get("gtfkeys") or ("transcript_id", "gene_id")
    return tk, gk


def reopen_before(case, bi):
    r = case["reopen"]
    return bool(r[bi - 1]) if isinstance(r, list) else bool(r)


def real_kwargs(case, bi=0):
    kw = {"merge_strategy": case["strategy"]}
    if case["strategy"] == "merge" or case.get("pass_force_anyway"):
        kw["force_merge_fields"] = list(case["force"])
    if case["spec_form"] in ("field", "field-list"):
        spec = ":%s:" % case["keyspec"]["field"]
        kw["id_spec"] = spec if case["spec_form"] == "field" else [spec]
    elif case["spec_form"] == "callable":
        cols = list(case["keyspec"]["cols"])
        kw["id_spec"] = lambda f: ":".join(str(getattr(f, c)) for c in cols)
    elif case["spec_form"] == "str":
        kw["id_spec"] = case["idkey"]
    elif case["spec_form"] == "list":
        kw["id_spec"] = [case["idkey"]]
    if "verbose" in case:
        kw["verbose"] = case["verbose"]
    if case["fmt"] == "gtf":
        kw.update(disable_infer_genes=True, disable_infer_transcripts=True)
        if case.get("gtfkeys"):
            tk, gk = case["gtfkeys"]
            if bi == 0:
                kw.update(gtf_transcript_key=tk, gtf_gene_key=gk)      # create_db's names
            else:
                kw.update(transcript_key=tk, gene_key=gk)              # update()'s names
    return kw


def feed(case, bi, b):
    """What is handed to create_db / update for batch bi -> (data, keyword arguments).  With "built": the Feature objects
    are constructed at other coordinates and edited to the record's afterwards, by a transform or by the caller."""
    fmt = case["fmt"]
    if case.get("share"):
        return case["_shared"].feed(bi, b)
    bl = case["built"][bi] if case.get("built") else None
    if not bl or not any(bl):
        return text_of(b, fmt), {"from_string": True}
    shown = [dict(r, start=p[0], end=p[1]) if p else r for r, p in zip(b, bl)]
    if case["modes"][bi] == "transform":
        final = dict(((int(p[0]), int(p[1])), (int(r["start"]), int(r["end"]))) for r, p in zip(b, bl) if p)

        def transform(f):
            to = final.get((f.start, f.end))
            if to is not None:
                f.start, f.end = to
            return f

        return text_of(shown, fmt), {"from_string": True, "transform": transform}
    from gffutils.feature import feature_from_line

    D = point(fmt)
    feats = []
    for r, p, sh in zip(b, bl, shown):
        f = feature_from_line(MD.render_line(sh, D))
        if p:
            if p[0] != r["start"]:
                f.start = int(r["start"])
            if p[1] != r["end"]:
                f.end = int(r["end"])
        feats.append(f)
    return feats, {}


class Shared(object):
    """Inputs whose features share value-list objects (case["share"], see gen_shared).  Every list object handed to the
    importer that is referenced by more than one feature / by the caller is registered with a copy of its contents;
    changed() lists those whose contents differ afterwards."""

    def __init__(self, case):
        self.case = case
        self.sh = case["share"]
        self.reg = []          # (description, list object, copy of its contents)
        self.nfeat = 0
        self.data = None
        mode = self.sh["mode"]
        if mode == "transform":
            self.consts = [(k, list(v)) for k, v in self.sh["const"]]
            for k, lst in self.consts:
                self.reg.append(("the list the transform attaches as %r to every feature" % k, lst, list(lst)))
            self.parent = list(self.sh["parent"]) if self.sh.get("parent") else None
            if self.parent is not None:
                self.reg.append(("the list the transform attaches as 'Parent' to every feature that is not an mRNA", self.parent,
                                 list(self.parent)))
        else:
            self.data = self.build()

    def build(self):
        import copy

        from gffutils.feature import feature_from_line

        case, mode = self.case, self.sh["mode"]
        D = point(case["fmt"])
        pool = {}
        out = []
        users = {}
        for b in case["batches"]:
            feats = []
            for r in b:
                g = feature_from_line(MD.render_line(r, D))
                if mode in ("objects", "iterator") or not feats:
                    f = g
                    for k, vals in r["attrs"]:
                        lst = pool.setdefault((k, tuple(vals)), list(vals))
                        f.attributes[k] = lst
                        users[id(lst)] = users.get(id(lst), 0) + 1
                else:
                    # a clone of the earlier feature of this run that has most value lists in common
                    want = dict((k, list(v)) for k, v in r["attrs"])
                    score = lambda t: sum(1 for k in want if k in t.attributes.keys() and t.attributes[k] == want[k])
                    tpl = max(feats, key=score)
                    f = copy.copy(tpl)
                    for c in M.COLS + ("extra",):
                        setattr(f, c, getattr(g, c))
                    amap = {} if mode == "clone-dict" else type(g.attributes)()
                    for k, vals in r["attrs"]:
                        if k in tpl.attributes.keys() and tpl.attributes[k] == list(vals):
                            lst = tpl.attributes[k]
                        else:
                            lst = list(vals)
                        amap[k] = lst
                        pool.setdefault((id(lst),), lst)
                        users[id(lst)] = users.get(id(lst), 0) + 1
                    f.attributes = amap
                feats.append(f)
                self.nfeat += 1
            out.append(feats)
        for key, lst in pool.items():
            if users.get(id(lst), 0) >= 2:
                self.reg.append(("a value list %r held by %d features of the input" % (lst, users[id(lst)]), lst, list(lst)))
        return out

    def feed(self, bi, b):
        case = self.case
        if self.sh["mode"] == "transform":
            strip = set(k for k, _ in self.consts)
            shown = [dict(r, attrs=[a for a in r["attrs"] if a[0] not in strip]) for r in b]
            consts, parent = self.consts, self.parent

            def transform(f):
                if parent is not None and f.featuretype != "mRNA":
                    f.attributes["Parent"] = parent
                for k, lst in consts:
                    f.attributes[k] = lst
                return f

            self.nfeat += len(b)
            return text_of(shown, case["fmt"]), {"from_string": True, "transform": transform}
        feats = self.data[bi]
        return (iter(feats) if self.sh["mode"] == "iterator" else feats), {}

    def changed(self):
        return [(what, now, was) for what, now, was in self.reg if list(now) != was]


def execute(ctx, case):
    """With "wfilter": the whole case (import, comparison, reads through the live handle) runs while the process-wide
    warning filter is that action (warnings.simplefilter inside catch_warnings); the oracle is the same."""
    wf = case.get("wfilter")
    if not wf:
        return execute_plain(ctx, case)
    import warnings

    with warnings.catch_warnings():
        warnings.simplefilter(wf)
        if wf == "error" and case["strategy"] == "merge" and set(case["force"]) & set(["frame", "strand"]):
            # the unchanged tree announces force_merge_fields naming frame / strand with a UserWarning of its own, before
            # anything is imported: that one notice stays un-escalated
            warnings.filterwarnings("ignore", message=FORCE_NOTICE, category=UserWarning)
            ctx.mon("filter 'error': notice about frame / strand in force_merge_fields left un-escalated")
        store = execute_plain(ctx, case)
    if store is not None and store is not True:
        ctx.mon("histories run while the process-wide warning filter is %r" % wf)
        ctx.mon("histories run while the process-wide warning filter is %r: strategy=%s" % (wf, case["strategy"]))
        if "ignored" in store.log:
            ctx.mon("warning filter %r: strategy 'warning' ignored a later arrival and the import went on" % wf)
            if store.log.index("ignored") < len(store.log) - 1:
                ctx.mon("warning filter %r: arrivals imported after the ignored one" % wf)
            if len(case["batches"]) > 1:
                ctx.mon("warning filter %r: strategy 'warning' over create_db + update()" % wf)
    return store


def execute_plain(ctx, case):
    if case["kind"] == "badforce":
        return execute_badforce(ctx, case)
    if case["kind"] == "locked":
        return execute_locked(ctx, case)
    import gffutils

    fmt, strategy = case["fmt"], case["strategy"]
    batches = case["batches"]
    tk, gk = link_keys(case)
    store, outcome = M.run(strategy, case["force"], batches, case["idkey"],
                           link_keys=[("level-1", tk)] + ([("level-2", gk)] if gk else []), keyspec=case.get("keyspec"))
    if outcome[0] == "silent":
        ctx.skip("statement silent: " + outcome[1].split("'")[0].strip())
        return None
    if case.get("share"):
        case = dict(case)
        case["_shared"] = Shared(case)          # not part of the stored case: rebuilt from case["share"] on replay
    dbfn = ctx.tmp(".db") if case["db"] == "file" else ":memory:"
    db = None
    try:
        for bi, b in enumerate(batches):
            expect_abort = outcome == ("abort", bi)
            kw = real_kwargs(case, bi)
            data, more = feed(case, bi, b)
            kw.update(more)
            try:
                if bi == 0:
                    db = gffutils.create_db(data, dbfn, **kw)
                else:
                    if reopen_before(case, bi) and dbfn != ":memory:":
                        db.conn.close()
                        db = gffutils.FeatureDB(dbfn)
                        ctx.mon("database reopened before update()")
                    db.update(data, make_backup=False, **kw)
                    ctx.mon("update() calls")
                    if case.get("share"):
                        ctx.mon("update() calls with features that share value-list objects (%s)" % case["share"]["mode"])
                        ctx.mon("update() calls with features that share value-list objects")
                    elif "transform" in kw:
                        ctx.mon("update() calls with a transform that edits coordinates")
                    elif isinstance(data, list):
                        ctx.mon("update() calls with a list of Feature objects edited by the caller")
                    if "transcript_key" in kw:
                        ctx.mon("update() calls with transcript_key / gene_key")
                    if "verbose" in kw:
                        ctx.mon("update() calls with verbose=%r" % (kw["verbose"],))
            except Exception as ex:
                if expect_abort:
                    ctx.mon("aborts observed (error)")
                    return store
                report(ctx, case, "outcome", "%s raised %r" % ("create_db" if bi == 0 else "update #%d" % bi, ex))
                contracts.drain()
                return store
            if expect_abort:
                report(ctx, case, "outcome", "strategy 'error': %s completed although a key arrives twice" % (
                    "create_db" if bi == 0 else "update #%d" % bi), stored=[f["id"] for f in dbdump.dump_db(db)["features"]])
                contracts.drain()
                return store
            if bi == 0 and db.dialect["fmt"] != fmt:
                ctx.skip("harness: file not routed to the %s importer" % fmt)
                return None
        ctx.mon("histories")
        ctx.mon("arrivals", store.count)
        if "verbose" in case:
            ctx.mon("histories run with verbose=%r" % (case["verbose"],))
        compare(ctx, case, db, store)
        if case.get("share"):
            shared_unchanged(ctx, case, store)
        observed(ctx, case, store)
    finally:
        try:
            if db is not None:
                db.conn.close()
        except Exception:
            pass
        if dbfn != ":memory:" and os.path.exists(dbfn):
            os.unlink(dbfn)
    for v in contracts.drain():
        ctx.violation(dict((k, x) for k, x in case.items() if k != "_shared"), v)
    return store


def shared_unchanged(ctx, case, store):
    """The list objects the caller shares between the features hold what they held before the import."""
    sh = case["_shared"]
    ctx.mon("shared value-list objects compared after the import (contents unchanged)", len(sh.reg))
    ctx.mon("features handed over that share value-list objects", sh.nfeat)
    bad = sh.changed()
    if bad:
        what, now, was = bad[0]
        report(ctx, case, "shared", "the import changed a list object of the caller: %s" % what, before=was, after=list(now),
               shared=case["share"], arrivals=store.log, changed=len(bad))


def noncanonical(case):
    f = case["force"]
    return case["strategy"] == "merge" and f != [c for c in M.COLS if c in f]


def observed(ctx, case, store):
    """Monitor counters of the input classes this (judged) history exercised."""
    for name, n in store.stats.items():
        if name.startswith("replace: ") and case["fmt"] == "gtf":
            name += " (GTF, %s keys)" % ("non-default" if case.get("gtfkeys") else "default")
        ctx.mon(name, n)
    if noncanonical(case):
        ctx.mon("histories with force_merge_fields in non-canonical order (%s)" % case["fmt"])
    if case.get("gtfkeys"):
        ctx.mon("GTF histories under non-default transcript/gene keys")
    nb = len(case["batches"])
    if case.get("keyspec"):
        form = case["keyspec"]["form"]
        ctx.mon("histories whose keys do not come from an attribute (%s)" % form)
        n = store.stats.get("merge into a stored feature without attributes, a forced column brings a new value", 0)
        if n:
            ctx.mon("merge into a stored feature without attributes, a forced column brings a new value: key from %s" % form, n)
            ctx.mon("merge into a stored feature without attributes, a forced column brings a new value: %s" % case["fmt"], n)
        for st in M.STRATEGIES:
            n = store.stats.get("%s: the stored feature of a collision has no attributes at all" % st, 0)
            if n:
                ctx.mon("collisions with a stored feature without attributes: key from %s" % form, n)
    if case.get("share"):
        mode = case["share"]["mode"]
        ctx.mon("histories whose features share value-list objects (%s)" % mode)
        ctx.mon("histories whose features share value-list objects: strategy=%s" % case["strategy"])
        if case["share"].get("parent"):
            ctx.mon("histories whose features share one Parent list object")
        words = store.log
        merged = [i for i, w in enumerate(words) if w.startswith("merged")]
        if merged and any(w == "new" for w in words[merged[0] + 1:]):
            ctx.mon("shared lists: a real merge followed by later features that collide with nothing")
            ctx.mon("shared lists: a real merge followed by later features that collide with nothing (%s, %s)" % (
                mode, "create_db" if nb == 1 else "create_db + update()"))
    if case.get("built"):
        ctx.mon("histories with features edited after construction")
        recs = [r for b in case["batches"] for r in b]
        pairs = [p for bl in case["built"] for p in bl]
        modes = [m for m, bl in zip(case["modes"], case["built"]) for _ in bl]
        first = {}
        for rec, p, mode, word in zip(recs, pairs, modes, store.log):
            key = dict((k, v) for k, v in rec["attrs"])[case["idkey"]][0]
            here = (rec["start"], rec["end"])
            if p:
                who = "by a transform" if mode == "transform" else "by the caller"
                ctx.mon("features whose coordinates were edited after construction (%s)" % who)
                if word != "new":
                    what = "spawned" if word.startswith("spawned") else word
                    ctx.mon("edited colliding newcomer (%s): %s" % (who, what))
                    if G.bin_of(*p) != G.bin_of(*here):
                        ctx.mon("edited colliding newcomer moved into another genomic bin: %s" % what)
                        if key in first and first[key] == here and G.bin_of(*p) != G.bin_of(*first[key]):
                            ctx.mon("edited colliding newcomer moved into the bin and onto the coordinates of the stored feature: %s" % what)
                    if key in first and tuple(p) == first[key] and first[key] != here:
                        ctx.mon("colliding newcomer built with the stored feature's coordinates, edited away: %s" % what)
            first.setdefault(key, here)
    runs = store.collision_runs()
    later = [r for r in runs if r > 0]
    if 0 in runs and len(later) >= 2:
        ctx.mon("histories colliding in create_db and in >= 2 later update() runs: " + case["strategy"])
        re = [reopen_before(case, r) and case["db"] == "file" for r in range(1, len(case["batches"]))]
        ctx.mon("... of these: %s" % ("reopened before every update" if all(re) else
                                      "same handle throughout" if not any(re) else "reopened before some updates"))
        fresh = [r for r, w in zip(store.runs, store.log) if w == "unique" or w.startswith("spawned")]
        if len(set(fresh)) >= 3:
            ctx.mon("... of these: fresh '<key>_n' keys filed in >= 3 different runs")


def compare(ctx, case, db, store):
    exp = store.expected()
    dump = dbdump.dump_db(db)
    got = dict((f["id"], f) for f in dump["features"])
    ok = True
    if len(got) != len(dump["features"]):
        report(ctx, case, "features", "two rows under one key", ids=[f["id"] for f in dump["features"]])
        return False
    lost = sorted(set(exp) - set(got))
    invented = sorted(set(got) - set(exp))
    if lost or invented:
        report(ctx, case, "features", "stored keys differ from the strategy's outcome", lost=lost, invented=invented,
               expected=sorted(exp), stored=sorted(got), arrivals=store.log)
        return False
    for key, e in exp.items():
        row = got[key]
        ctx.mon("stored features compared")
        for c in M.COLS:
            want = e["cols"][c]
            have = row[c]
            have = "." if have is None else str(have)
            if want == "." and c in ("start", "end"):
                ctx.mon("undefined ('.') coordinates compared")
            if isinstance(want, tuple):
                ctx.mon("forced columns compared")
                if noncanonical(case):
                    ctx.mon("forced columns compared (force_merge_fields in non-canonical order)")
                same = frozenset(have.split(",")) == want[1]
                want = sorted(want[1])
            else:
                same = have == want
            if not same:
                report(ctx, case, "columns", "column %s of %r" % (c, key), got=have, expected=want, merged=e["merged"],
                       arrivals=store.log)
                ok = False
                break
        attrs = row["attributes"]
        attrs = dict((k, v) for k, v in attrs) if isinstance(attrs, list) else attrs
        if sorted(attrs) != sorted(e["attrs"]):
            report(ctx, case, "attributes", "attribute keys of %r" % key, got=sorted(attrs), expected=sorted(e["attrs"]),
                   arrivals=store.log)
            ok = False
            continue
        for k, want in e["attrs"].items():
            ctx.mon("attribute value sets compared")
            if not want:
                ctx.mon("valueless attribute keys compared")
            have = attrs[k]
            if not e["merged"] and len(set(want)) != len(want) and isinstance(have, list):
                # a feature that is one arrival whose line repeats a value: how often the value is kept is not said
                ctx.mon("unmerged features whose line repeats a value: value set compared (multiplicity not judged)")
                have, want = sorted(set(have)), sorted(set(want))
            if e["merged"] and len(want) >= 1:
                ctx.mon("merged features: value lists compared (each value once)")
            if not isinstance(have, list) or sorted(have) != want:
                what = "repeated" if isinstance(have, list) and sorted(set(have)) == want else "lost or invented"
                report(ctx, case, "attributes", "values of %s of %r: %s" % (k, key, what), got=have, expected=want,
                       merged=e["merged"], arrivals=store.log)
                ok = False
                break
        # the fields after the attribute column
        ctx.mon("extra columns compared (stored row)")
        if e["extra"]:
            ctx.mon("extra columns compared (stored row, non-empty)")
        if (row["extra"] or []) != e["extra"]:
            report(ctx, case, "extra", "fields after the attribute column of %r are not those of the arrival that %s keeps"
                   % (key, case["strategy"]), got=row["extra"], expected=e["extra"], arrivals=store.log)
            ok = False
        # the same through the live handle
        if not live(ctx, case, db, key, e, row, set(got), key in store.moved):
            ok = False
    # ---- relations: Parent values of the features as finally stored
    gtf = case["fmt"] == "gtf"
    tk, gk = link_keys(case)
    want = store.links(tk)
    have = set((p, c) for p, c, lv in dump["relations"] if lv == 1 and (not gtf or c in got))
    ctx.mon("level-1 relation rows compared", len(want | have))
    if case.get("gtfkeys"):
        ctx.mon("level-1 relation rows compared under non-default GTF keys", len(want | have))
    if gtf and want == have:
        # the gene link of a GTF line is filed as a level-2 row of the feature the line ends up in
        want2 = store.links(gk)
        have2 = set((p, c) for p, c, lv in dump["relations"] if lv == 2 and c in got)
        ctx.mon("level-2 gene rows compared (GTF)", len(want2 | have2))
        if want2 != have2:
            report(ctx, case, "relations", "level-2 rows differ from the %s values of the stored features (%s)" % (
                gk, case["strategy"]), invented=sorted(have2 - want2), lost=sorted(want2 - have2),
                stored=dict((k, e["attrs"].get(gk, [])) for k, e in exp.items()), arrivals=store.log)
            ok = False
    if want != have:
        invented = sorted(have - want)
        lost = sorted(want - have)
        kinds = []
        for p, c in invented:
            kinds.append("%s->%s: no stored feature %s names %s" % (p, c, c, p))
        report(ctx, case, "relations", "level-1 rows differ from the %s values of the stored features (%s)" % (
            tk, case["strategy"]), invented=invented, lost=lost, explain=kinds[:6],
            stored=dict((k, e["attrs"].get(tk, [])) for k, e in exp.items()),
            arrivals=store.log)
        ok = False
    elif not gtf:
        for p in sorted(set(G.PARENTS) & set(got)):
            try:
                kids = set(c.id for c in db.children(p, level=1))
            except Exception as ex:
                report(ctx, case, "relations", "children(%r) raised %r" % (p, ex))
                ok = False
                break
            ctx.mon("children(parent, level=1) compared")
            if kids != set(c for pp, c in want if pp == p):
                report(ctx, case, "relations", "children(%r, level=1) differs" % p, got=sorted(kids),
                       expected=sorted(c for pp, c in want if pp == p))
                ok = False
                break
    return ok


def printed_parts(col, fmt):
    """Attribute column as printed in the file's dialect point -> [(key, [values])]  (values of the generators hold no
    reserved characters)."""
    if col == "":
        return []
    out = []
    if fmt == "gtf":
        col = col[:-1] if col.endswith(";") else col
        for part in col.split("; "):
            k, _, v = part.partition(" ")
            v = v[1:-1] if len(v) >= 2 and v[0] == v[-1] == '"' else v
            out.append((k, v.split(",") if v != "" else []))
    else:
        for part in col.split(";"):
            k, eq, v = part.partition("=")
            out.append((k, v.split(",") if eq and v != "" else []))
    return out


def live(ctx, case, db, key, e, row, stored, moved):
    """db[key] through the live FeatureDB handle: columns, attributes, extra fields, printed line, and the feature is found
    at its position."""
    fmt = case["fmt"]
    try:
        f = db[key]
        have = dict((c, getattr(f, c)) for c in M.COLS)
        api = dict((k, list(f.attributes[k])) for k in f.attributes.keys())
        extra = list(f.extra or [])
        line = str(f)
        fid = f.id
    except Exception as ex:
        report(ctx, case, "handle", "db[%r] / str(db[%r]) raised %r" % (key, key, ex))
        return False
    ok = True
    ctx.mon("db[key] compared")
    ctx.mon("db[key] compared with the model (columns, attributes, extra)")
    bad = None
    if fid != key:
        bad = ("id", fid, key)
    for c in M.COLS:
        want = e["cols"][c]
        v = "." if have[c] is None else str(have[c])
        if isinstance(want, tuple):
            if frozenset(v.split(",")) != want[1]:
                bad = (c, v, sorted(want[1]))
        elif v != want:
            bad = (c, v, want)
    if sorted(api) != sorted(e["attrs"]):
        bad = ("attribute keys", sorted(api), sorted(e["attrs"]))
    else:
        for k, want in e["attrs"].items():
            got_v = sorted(api[k])
            if not e["merged"] and len(set(want)) != len(want):
                got_v, want = sorted(set(got_v)), sorted(set(want))
            if got_v != want:
                bad = ("attribute " + k, api[k], want)
    if extra != e["extra"]:
        bad = ("extra", extra, e["extra"])
    if bad:
        report(ctx, case, "handle", "db[%r] differs from the strategy's outcome in: %s" % (key, bad[0]), got=bad[1],
               expected=bad[2], arrivals=store_log(case))
        ok = False
    # ---- printed line
    if e["rec"] is not None and any(len(set(v)) != len(v) for _, v in e["rec"]["attrs"]):
        ctx.mon("printed lines of unmerged features whose line repeats a value: not judged")
    elif e["rec"] is not None:
        want = MD.render_line(e["rec"], point(fmt))
        ctx.mon("printed lines compared with the kept arrival's line")
        if fmt == "gtf":
            ctx.mon("printed lines compared with the kept arrival's line (gtf)")
        if e["extra"]:
            ctx.mon("printed lines with extra columns compared")
        if line != want:
            report(ctx, case, "printed", "str(db[%r]) is not the line of the arrival that %s keeps" % (key, case["strategy"]),
                   got=line, expected=want)
            ok = False
    else:
        ctx.mon("printed lines of merged features compared (columns, attribute parts)")
        cols = line.split("\t")
        bad = None
        if len(cols) < 9:
            bad = ("number of columns", len(cols), 9)
        else:
            for c, v in zip(M.COLS, cols):
                want = e["cols"][c]
                if (frozenset(v.split(",")) != want[1]) if isinstance(want, tuple) else (v != want):
                    bad = ("column " + c, v, sorted(want[1]) if isinstance(want, tuple) else want)
            parts = printed_parts(cols[8], fmt)
            keys = [k for k, _ in parts]
            if sorted(keys) != sorted(e["attrs"]):
                bad = ("attribute keys (each once)", keys, sorted(e["attrs"]))
            else:
                for k, vals in parts:
                    if sorted(vals) != e["attrs"][k]:
                        bad = ("values of " + k, vals, e["attrs"][k])
            if cols[9:] != e["extra"]:
                bad = ("extra fields", cols[9:], e["extra"])
        if bad:
            report(ctx, case, "printed", "str(db[%r]) (merged feature) differs from the model in: %s" % (key, bad[0]),
                   got=bad[1], expected=bad[2], line=line)
            ok = False
    # ---- found at its position
    if row["start"] is not None and row["end"] is not None and ok:
        where = (row["seqid"], row["start"], row["end"])
        for name, fn in (("region(completely_within=True)", lambda: db.region(where, completely_within=True)),
                         ("all_features(limit=)", lambda: db.all_features(limit=where))):
            try:
                ids = [x.id for x in fn()]
            except Exception as ex:
                report(ctx, case, "lookup", "%s at %r raised %r" % (name, where, ex))
                ok = False
                continue
            ctx.mon("%s look-ups at the stored position" % name)
            if moved:
                ctx.mon("look-ups at the position of a feature that replaced one >= 1 Mb away")
            if key not in ids or not set(ids) <= stored:
                report(ctx, case, "lookup", "%s at the position %r of the stored feature %r %s" % (
                    name, where, key, "does not find it" if key not in ids else "returns ids that are not stored"),
                    got=ids, arrivals=store_log(case))
                ok = False
    return ok


def store_log(case):
    return M.run(case["strategy"], case["force"], case["batches"], case["idkey"], keyspec=case.get("keyspec"))[0].log


def execute_badforce(ctx, case):
    """force_merge_fields naming start/end is refused (ValueError) by create_db and by update."""
    import gffutils

    fmt = case["fmt"]
    kw = real_kwargs(case)
    text = text_of([r for b in case["batches"] for r in b], fmt)
    try:
        db = gffutils.create_db(text, ":memory:", from_string=True, **kw)
    except ValueError:
        ctx.mon("start/end force rejected")
    except Exception as ex:
        report(ctx, case, "outcome", "create_db(force_merge_fields=%s) raised %r, not ValueError" % (case["force"], ex))
    else:
        report(ctx, case, "outcome", "create_db accepted force_merge_fields=%s" % case["force"])
        db.conn.close()
    dbfn = ctx.tmp(".db")
    try:
        good = dict(kw, force_merge_fields=[])
        db = gffutils.create_db(text, dbfn, from_string=True, **good)
        before = dbdump.dump_db(db)
        try:
            db.update(text, from_string=True, make_backup=False, **kw)
        except ValueError:
            ctx.mon("start/end force rejected")
            d = dbdump.diff(before, dbdump.dump_db(db), keys=("features", "relations", "duplicates"))
            if d:
                report(ctx, case, "outcome", "refused update changed the database", diff=d)
        except Exception as ex:
            report(ctx, case, "outcome", "update(force_merge_fields=%s) raised %r, not ValueError" % (case["force"], ex))
        else:
            report(ctx, case, "outcome", "update accepted force_merge_fields=%s" % case["force"])
        db.conn.close()
    finally:
        if os.path.exists(dbfn):
            os.unlink(dbfn)
    contracts.drain()
    return True


def execute_locked(ctx, case):
    """
    update() of a file database while another sqlite3 connection (other thread) holds a write transaction on the file for
    longer than sqlite3's busy timeout (5 s) and then releases it.  No key collides.  Either update() raises
    sqlite3.OperationalError - then only a retry of the same update on a fresh handle is judged - or it returns, and then
    (as after the retry) the content must be the model's: every newcomer under its own key.
    """
    import sqlite3
    import threading
    import time

    import gffutils

    fmt, strategy = case["fmt"], case["strategy"]
    base, new = case["batches"]
    tk, gk = link_keys(case)
    store, outcome = M.run(strategy, case["force"], case["batches"], case["idkey"],
                           link_keys=[("level-1", tk)] + ([("level-2", gk)] if gk else []))
    if outcome[0] != "ok" or any(w != "new" for w in store.log):
        ctx.skip("harness: a transient-lock case in which keys collide")
        return None
    dbfn = ctx.tmp(".db")
    db = blocker = None
    try:
        db = gffutils.create_db(text_of(base, fmt), dbfn, from_string=True, **real_kwargs(case, 0))
        if db.dialect["fmt"] != fmt:
            ctx.skip("harness: file not routed to the %s importer" % fmt)
            return None
        db.conn.close()
        db = gffutils.FeatureDB(dbfn)
        blocker = sqlite3.connect(dbfn, check_same_thread=False, isolation_level=None)
        blocker.execute("BEGIN IMMEDIATE")
        t_lock = time.time()
        released = []

        def release():
            time.sleep(case["hold"])
            blocker.execute("ROLLBACK")
            released.append(time.time())

        th = threading.Thread(target=release)
        th.start()
        raised = None
        try:
            try:
                db.update(text_of(new, fmt), from_string=True, make_backup=False, **real_kwargs(case, 1))
            except sqlite3.OperationalError as ex:
                raised = ex
            except Exception as ex:
                th.join()
                report(ctx, case, "outcome", "update() while another connection held the write lock for %.1f s raised %r although no key "
                       "collides (sqlite3.OperationalError or success expected)" % (case["hold"], ex))
                contracts.drain()
                return store
            t_done = time.time()
        finally:
            th.join()
        ctx.mon("update() calls")
        ctx.mon("transient lock: update() calls made while another connection held a write transaction > 5 s")
        waited = t_done - t_lock
        if released and t_done < released[0]:
            ctx.mon("transient lock: update() ended before the lock was released")
        if raised is not None:
            ctx.mon("transient lock: update() raised sqlite3.OperationalError (%s)" % ("database is locked" if "locked" in str(raised) else "other"))
            # nothing is judged but the retry on a fresh handle
            try:
                db.conn.close()
            except Exception:
                pass
            db = gffutils.FeatureDB(dbfn)
            try:
                db.update(text_of(new, fmt), from_string=True, make_backup=False, **real_kwargs(case, 1))
            except Exception as ex:
                report(ctx, case, "outcome", "retry of the update on a fresh handle, after the lock was released, raised %r" % (ex,))
                contracts.drain()
                return store
            ctx.mon("update() calls")
            ctx.mon("transient lock: retry on a fresh handle compared with the model")
        else:
            ctx.mon("transient lock: update() returned normally after %s; content compared with the model" % (
                "waiting >= 5 s" if waited >= 5 else "< 5 s"))
        ctx.mon("histories")
        ctx.mon("arrivals", store.count)
        ctx.mon("transient-lock cases judged (strategy %s)" % strategy)
        ctx.mon("transient-lock cases judged")
        compare(ctx, case, db, store)
    finally:
        for c in (getattr(db, "conn", None), blocker):
            try:
                if c is not None:
                    c.close()
            except Exception:
                pass
        if os.path.exists(dbfn):
            os.unlink(dbfn)
    for v in contracts.drain():
        ctx.violation(case, v)
    return store


def account(ctx, case, store, klass=None):
    if store is None:
        return
    if store is True:
        ctx.case(("badforce", case["fmt"], case["force"]), True, cls="start/end in force_merge_fields")
        return
    nb = len(case["batches"])
    for cls in ("strategy=" + case["strategy"], "fmt=" + case["fmt"], "path=" + ("create" if nb == 1 else "create+update"),
                "db=" + case["db"]):
        ctx.classes[cls] += 1
    if case["strategy"] == "merge":
        ctx.classes["force subset size=%d" % len(case["force"])] += 1
    if noncanonical(case):
        ctx.classes["force order non-canonical: fmt=" + case["fmt"]] += 1
    if case.get("gtfkeys"):
        ctx.classes["non-default GTF keys: strategy=" + case["strategy"]] += 1
        ctx.classes["non-default GTF keys: path=" + ("create" if nb == 1 else "create+update")] += 1
    for o in case.get("opts", []):
        if o != "gtfkeys":
            ctx.classes["input class: " + {"flags": "valueless attribute keys", "dots": "'.' start/end",
                                           "extras": "extra columns", "farbins": "variants in different genomic bins",
                                           "edited": "coordinates edited after construction",
                                           "verbatim": "stored lines arrive again (verbatim / other key or value order)",
                                           "inner": "value lists holding a value more than once"}[o]
                        + ", strategy=" + case["strategy"]] += 1
    if case.get("repeats"):
        ctx.classes["repeated lines: fmt=%s path=%s" % (case["fmt"], "create" if nb == 1 else "create+update")] += 1
    if "verbose" in case:
        ctx.classes["verbose=%r: strategy=%s" % (case["verbose"], case["strategy"])] += 1
    if case.get("wfilter"):
        ctx.classes["warning filter %r: strategy=%s" % (case["wfilter"], case["strategy"])] += 1
        ctx.classes["warning filter %r: fmt=%s path=%s" % (case["wfilter"], case["fmt"], "create" if nb == 1 else "create+update")] += 1
    if case["kind"] == "locked":
        ctx.classes["transient lock during update(): strategy=" + case["strategy"]] += 1
    if case.get("keyspec"):
        ctx.classes["key not from an attribute (%s): strategy=%s" % (case["keyspec"]["form"], case["strategy"])] += 1
        ctx.classes["key not from an attribute: fmt=%s path=%s" % (case["fmt"], "create" if nb == 1 else "create+update")] += 1
    if case.get("share"):
        ctx.classes["shared value lists (%s): strategy=%s" % (case["share"]["mode"], case["strategy"])] += 1
        ctx.classes["shared value lists: fmt=%s path=%s" % (case["fmt"], "create" if nb == 1 else "create+update")] += 1
    for m in set(case.get("modes") or ()):
        ctx.classes["coordinates edited after construction (%s): strategy=%s" % (m, case["strategy"])] += 1
    runs = store.collision_runs()
    if 0 in runs and len(runs) >= 3:
        ctx.classes["collisions in create_db and >= 2 update() runs: strategy=" + case["strategy"]] += 1
    for a in store.log:
        ctx.classes["arrival: " + ("spawned" if a.startswith("spawned") else a)] += 1
        if a.startswith("spawned past"):
            ctx.classes["arrival: spawned although '<key>_n' candidates exist"] += 1
    nat = sum(1 for p in case.get("pattern", []) for x in p if str(x).startswith("n"))
    if nat:
        ctx.classes["arrival: natural key collides with '<key>_n' entry"] += nat
    many = any(len(p) >= 3 for p in case.get("pattern", []))
    ctx.case((case["strategy"], case["fmt"], case["force"] if noncanonical(case) else sorted(case["force"]), nb,
              case.get("pattern"), case.get("gtfkeys"), case.get("opts"), len(runs), repr(case.get("verbose")),
              case.get("modes"), [[bool(p) for p in bl] for bl in case.get("built") or []], case["kind"],
              str(case.get("repeats")), [len(b) for b in case["batches"]] if case.get("repeats") else None,
              case.get("wfilter"), str(case.get("keyspec")), case["spec_form"],
              str(sorted((case.get("share") or {}).items())), str(sorted((case.get("look") or {}).items()))),
             many or case["kind"] == "locked" or bool(case.get("repeats")) or any(w.startswith("merged") for w in store.log)
             and case["kind"] in ("keyless", "shared"),
             sample={"strategy": case["strategy"], "force": case["force"], "fmt": case["fmt"], "arrivals": store.log,
                     "verbose": case.get("verbose", "not given"),
                     "input": [text_of(b, case["fmt"]) for b in case["batches"]][:2]}, cls=klass)


def draw_opts(rng, fmt, shuffle=None):
    """Input classes layered over a history (each drawn independently)."""
    o = {"shuffle": (rng.random() < 0.5) if shuffle is None else shuffle}
    if rng.random() < 0.25:
        o["flags"] = True
    if rng.random() < 0.2:
        o["dots"] = rng.choice(["start", "end", "both"])
    if fmt == "gtf" and rng.random() < 0.35:
        o["gtfkeys"] = rng.choice(G.GTF_KEYS)
    if rng.random() < 0.3:
        o["extras"] = True
    if rng.random() < 0.25:
        o["farbins"] = True
    o["verbose"] = rng.choice([None, False, True, "debug"])
    return o


# ---- look-alike column variants (block 2l) ---------------------------------------------------------------------------
# Column tuples of one key that DIFFER but are easily taken for equal: the characters of two columns redistributed across
# the boundary between them (start 1 / end 123 against start 11 / end 23; seqid chr1 / source A against chr / 1A), the
# values of two columns exchanged, a value in another letter case, a value that is a proper prefix of the other.
LOOK_KINDS = ("boundary", "swap", "case", "prefix")
LOOK_POOL = {
    "seqid": ["chr1", "chr12", "c21", "chrX"],
    "source": ["s1", "AB", "src2", "1A"],
    "featuretype": ["exon", "CDS", "UTR5"],
    "start": ["1", "11", "12", "2", "23"],
    "end": ["123", "1234", "234", "2345", "345"],
    "score": [".", "15", "25", "0.5", "5"],
    "strand": ["+", "-", "."],
    "frame": [".", "0", "1", "2"],
}
LOOK_TEXT = ("seqid", "source", "featuretype")
LOOK_SHIFTABLE = ("seqid", "source", "featuretype", "start", "end", "score")


def look_valid(cols):
    import re

    for c in LOOK_TEXT:
        if not re.match(r"^[A-Za-z0-9]+$", cols[c]) or cols[c].isdigit():
            return False
    for c in ("start", "end"):
        if not re.match(r"^[1-9][0-9]{0,7}$", cols[c]):
            return False
    if int(cols["start"]) > int(cols["end"]):
        return False
    if cols["featuretype"] == "mRNA":
        return False
    return cols["score"] == "." or bool(re.match(r"^(0|[1-9][0-9]*)(\.[0-9]+)?$", cols["score"]))


def look_shifts(cols, pairs):
    """Every valid tuple that differs from cols by moving 1-2 characters across the boundary between columns a and b."""
    out = []
    for a, b in pairs:
        for k in (1, 2):
            for new_a, new_b in ((cols[a][:-k], cols[a][-k:] + cols[b]), (cols[a] + cols[b][:k], cols[b][k:])):
                new = dict(cols)
                new[a], new[b] = new_a, new_b
                if new_a and new_b and new != cols and look_valid(new):
                    out.append(new)
    return out


def look_variant(rng, cols, force, kind):
    """A look-alike of cols that differs from it in at least one column outside force (None: none exists)."""
    checked = [c for c in M.COLS if c not in force]
    if kind == "boundary":
        adjacent = [(a, b) for a, b in zip(checked, checked[1:]) if a in LOOK_SHIFTABLE and b in LOOK_SHIFTABLE]
        anyp = [(a, b) for i, a in enumerate(checked) for b in checked[i + 1:] if a in LOOK_SHIFTABLE and b in LOOK_SHIFTABLE]
        cands = look_shifts(cols, adjacent if rng.random() < 0.7 else anyp) or look_shifts(cols, anyp)
    elif kind == "swap":
        cands = []
        for a, b in (("seqid", "source"), ("source", "featuretype"), ("seqid", "featuretype")):
            if a in checked or b in checked:
                new = dict(cols)
                new[a], new[b] = cols[b], cols[a]
                cands.append(new)
    elif kind == "case":
        cands = [dict(cols, **{c: cols[c].swapcase()}) for c in LOOK_TEXT if c in checked]
    else:
        cands = [dict(cols, **{c: cols[c] + t}) for c in LOOK_SHIFTABLE if c in checked and cols[c] != "." for t in ("1", "0")]
        cands += [dict(cols, **{c: cols[c][:-1]}) for c in LOOK_SHIFTABLE if c in checked and len(cols[c]) > 1]
    cands = [n for n in cands if n != cols and look_valid(n) and any(n[c] != cols[c] for c in checked)]
    return rng.choice(cands) if cands else None


def concat_alike(a, b, force):
    """The columns outside force differ, but written one after the other (in the column order) they read the same."""
    checked = [c for c in M.COLS if c not in force]
    return any(a[c] != b[c] for c in checked) and "".join(a[c] for c in checked) == "".join(b[c] for c in checked)


def gen_lookalike(rng, fmt, strategy, force, path, kind):
    idkey = "ID" if fmt == "gff3" else rng.choice(["fid", "ID"])
    recs = []
    if fmt == "gff3":
        for p in G.PARENTS[:3]:
            if rng.random() < 0.6:
                cols = dict(G.columns(rng), featuretype="mRNA")
                recs.append(dict(cols, attrs=[["ID", [p]], ["Note", ["parent"]]], extra=[]))
    base = None
    for _ in range(50):
        base = dict((c, rng.choice(LOOK_POOL[c])) for c in M.COLS)
        first = look_variant(rng, base, force, kind) if look_valid(base) else None
        if first is not None:
            break
    else:
        return None
    variants = [base, first]
    if rng.random() < 0.5:                      # a second look-alike, of the base or of the first one
        v = look_variant(rng, rng.choice(variants), force, rng.choice(LOOK_KINDS) if rng.random() < 0.3 else kind)
        if v is not None and v not in variants:
            variants.append(v)
    free = [c for c in force if c in G.VALUES]
    if free and rng.random() < 0.6:             # the same columns up to a forced one: merges
        src = rng.choice(variants[:2])
        c = rng.choice(free)
        v = dict(src, **{c: rng.choice([x for x in LOOK_POOL[c] if x != src[c]])})
        if look_valid(v) and v not in variants:
            variants.append(v)
    key = rng.choice(G.BASES)
    order = [0, 1]
    rng.shuffle(order)
    order += [rng.randrange(len(variants)) for _ in range(rng.choice([0, 1, 1, 2, 3]))]
    for i, vi in enumerate(order):
        recs.append(dict(variants[vi], attrs=G.attributes(rng, fmt, idkey, key), extra=[]))
        if rng.random() < 0.2:
            u = "u%d" % len(recs)
            recs.append(dict(G.columns(rng), attrs=G.attributes(rng, fmt, idkey, u), extra=[]))
    if path == "create" or len(recs) < 2:
        batches = [recs]
    else:
        ncut = 1 if (len(recs) < 4 or rng.random() < 0.6) else 2
        cuts = sorted(rng.sample(range(1, len(recs)), ncut))
        batches = [recs[i:j] for i, j in zip([0] + cuts, cuts + [len(recs)])]
    return {
        "kind": "history", "fmt": fmt, "strategy": strategy, "force": list(force), "idkey": idkey,
        "spec_form": rng.choice(["default", "str"]) if (fmt == "gff3" and idkey == "ID") else rng.choice(["str", "list"]),
        "batches": batches, "reopen": rng.random() < 0.4,
        "db": "file" if (len(batches) > 1 or rng.random() < 0.25) else "memory",
        "pass_force_anyway": strategy != "merge" and rng.random() < 0.3,
        "pattern": [tuple(str(v) for v in order)], "look": {"kind": kind, "key": key},
    }


def observed_lookalike(ctx, case, store):
    """What the judged history exercised: collisions of a newcomer with an earlier arrival of its key whose columns differ
    from its own only by a look-alike."""
    kind, key, st = case["look"]["kind"], case["look"]["key"], case["strategy"]
    nb = len(case["batches"])
    ctx.mon("look-alike column variants (%s): histories judged" % kind)
    ctx.mon("look-alike column variants: histories judged, %s, %s" % (case["fmt"], "create_db" if nb == 1 else "create_db + update()"))
    force = case["force"] if st == "merge" else []
    recs = [(bi, r) for bi, b in enumerate(case["batches"]) for r in b]
    seen = []
    for (bi, r), word in zip(recs, store.log):
        if dict((k, v) for k, v in r["attrs"])[case["idkey"]][0] != key:
            continue
        cols = dict((c, r[c]) for c in M.COLS)
        if any(concat_alike(cols, o, force) for o in seen):
            what = "spawned" if word.startswith("spawned") else word
            ctx.mon("%s: the newcomer's checked columns differ from an earlier arrival's of the key but read the same when "
                    "written one after the other: %s" % (st, what))
            if st == "merge":
                ctx.mon("merge: boundary-shifted newcomer (%s)" % ("create_db" if bi == 0 else "update()"))
                if force:
                    ctx.mon("merge: boundary-shifted newcomer, force_merge_fields not empty")
        seen.append(cols)


def run(ctx):
    rng = ctx.rng
    if ctx.shard == 0:
        for case in MINIMAL:
            account(ctx, case, execute(ctx, case))
    # 1. merge: every subset of the forceable columns x importer x path
    reps = 5 if ctx.tier == "quick" else 60
    i = 0
    for force in M.subsets():
        for fmt in ("gff3", "gtf"):
            for path in ("create", "update"):
                i += 1
                if not ctx.mine(i):
                    continue
                for r in range(reps):
                    # half of the repetitions hand the subset over in a shuffled order
                    case = G.gen_history(rng, fmt, "merge", force, path, opts=draw_opts(rng, fmt, shuffle=bool(r % 2)))
                    account(ctx, case, execute(ctx, case))
    # 2. the other strategies (and more merge), random force sets
    for _ in range(ctx.budget(2600, 60000)):
        strategy = rng.choice(["error", "warning", "replace", "create_unique", "create_unique", "merge"])
        force = rng.choice(M.subsets())
        fmt = rng.choice(["gff3", "gtf"])
        case = G.gen_history(rng, fmt, strategy, force, rng.choice(["create", "update"]), opts=draw_opts(rng, fmt))
        account(ctx, case, execute(ctx, case))
    # 2b. GTF importer under non-default transcript/gene keys x every strategy x {create, create+update}
    i = 0
    for keys in G.GTF_KEYS:
        for strategy in M.STRATEGIES:
            for path in ("create", "update"):
                i += 1
                if not ctx.mine(i):
                    continue
                for _ in range(2 if ctx.tier == "quick" else 24):
                    force = rng.choice(M.subsets()) if strategy == "merge" else []
                    case = G.gen_history(rng, "gtf", strategy, force, path,
                                         opts=dict(draw_opts(rng, "gtf"), gtfkeys=keys))
                    account(ctx, case, execute(ctx, case))
    # 2c. one key colliding in create_db and again in 2-4 later update() calls
    for _ in range(ctx.budget(520, 9000)):
        strategy = rng.choice(["create_unique", "create_unique", "merge", "merge", "merge", "replace", "warning"])
        force = rng.choice(M.subsets()) if strategy == "merge" else []
        fmt = rng.choice(["gff3", "gtf"])
        case = G.gen_multirun(rng, fmt, strategy, force, opts=draw_opts(rng, fmt))
        account(ctx, case, execute(ctx, case))
    # 2d. one history under every value of the documented verbose argument
    for _ in range(ctx.budget(120, 3000)):
        strategy = rng.choice(list(M.STRATEGIES) + ["merge", "merge"])
        force = rng.choice(M.subsets()) if strategy == "merge" else []
        fmt = rng.choice(["gff3", "gtf"])
        gen = G.gen_multirun if rng.random() < 0.3 and strategy != "error" else None
        base = (gen(rng, fmt, strategy, force, opts=draw_opts(rng, fmt)) if gen else
                G.gen_history(rng, fmt, strategy, force, rng.choice(["create", "update"]), opts=draw_opts(rng, fmt)))
        done = 0
        for v in (False, True, "debug"):
            case = dict(base, verbose=v)
            st = execute(ctx, case)
            account(ctx, case, st)
            done += st is not None
        if done == 3:
            ctx.mon("one history run under verbose False / True / 'debug' (each judged against the model)")
    # 2e. extra columns that differ between the arrivals / arrivals in different genomic bins, every strategy
    for _ in range(ctx.budget(480, 10000)):
        strategy = rng.choice(["replace", "replace", "warning", "create_unique", "merge", "error"])
        force = rng.choice(M.subsets()) if strategy == "merge" else []
        fmt = rng.choice(["gff3", "gtf"])
        o = draw_opts(rng, fmt)
        r = rng.random()
        o.update(extras=r < 0.75, farbins=r > 0.4)
        o.pop("dots", None)
        if rng.random() < 0.25 and strategy != "error":
            case = G.gen_multirun(rng, fmt, strategy, force, opts=o)
        else:
            case = G.gen_history(rng, fmt, strategy, force, rng.choice(["create", "update"]), opts=o)
        account(ctx, case, execute(ctx, case))
    # 2f. colliding newcomers whose coordinates were edited after construction (by a transform / by the caller), around
    #     genomic-bin boundaries
    for _ in range(ctx.budget(640, 14000)):
        strategy = rng.choice(["merge", "merge", "merge", "replace", "warning", "create_unique", "error"])
        force = rng.choice(M.subsets()) if strategy == "merge" and rng.random() < 0.5 else []
        fmt = rng.choice(["gff3", "gff3", "gtf"])
        o = draw_opts(rng, fmt)
        case = G.gen_edited(rng, fmt, strategy, force, opts=o)
        account(ctx, case, execute(ctx, case))
    # 2h. stored lines that arrive again (verbatim, or in another key / value order), value lists that hold a value more
    #     than once; every strategy, GFF3 and GTF, create_db and update
    for i in range(ctx.budget(400, 11000)):
        strategy = "merge" if i % 2 == 0 else rng.choice(M.STRATEGIES)
        force = rng.choice(M.subsets()) if strategy == "merge" and rng.random() < 0.4 else []
        fmt = rng.choice(["gff3", "gff3", "gtf"])
        o = draw_opts(rng, fmt)
        case = G.gen_verbatim(rng, fmt, strategy, force, opts=o, inner=True if i % 4 == 0 else None)
        account(ctx, case, execute(ctx, case))
    # 2i. the same history while the process-wide warning filter is 'error' / 'ignore' / 'default': same outcome
    for i in range(ctx.budget(260, 7000)):
        strategy = "warning" if i % 2 == 0 else rng.choice(M.STRATEGIES)
        force = rng.choice(M.subsets()) if strategy == "merge" else []
        fmt = rng.choice(["gff3", "gtf"])
        o = draw_opts(rng, fmt)
        r = rng.random()
        if r < 0.25 and strategy != "error":
            base = G.gen_multirun(rng, fmt, strategy, force, opts=o)
        elif r < 0.4:
            base = G.gen_verbatim(rng, fmt, strategy, force, opts=o)
        else:
            base = G.gen_history(rng, fmt, strategy, force, rng.choice(["create", "update"]), opts=o)
        done = 0
        for wf in WFILTERS:
            case = dict(base, wfilter=wf)
            st = execute(ctx, case)
            account(ctx, case, st)
            done += st is not None
        if done == 3:
            ctx.mon("one history run under the warning filters 'error' / 'ignore' / 'default' (each judged against the model)")
    # 2j. keys that do not come from an attribute (':field:' / callable id_spec, auto-numbered ids hit by a literal id); about
    #     half of the colliding arrivals have no attributes at all; merge with force_merge_fields in 2 of 3 cases
    for i in range(ctx.budget(360, 12000)):
        strategy = "merge" if i % 3 else rng.choice(M.STRATEGIES)
        force = rng.choice([f for f in M.subsets() if f]) if strategy == "merge" and rng.random() < 0.85 else []
        fmt = rng.choice(["gff3", "gff3", "gtf"])
        case = G.gen_keyless(rng, fmt, strategy, force, rng.choice(["create", "update"]),
                             ("field", "callable", "autoid")[(i // 3) % 3 if strategy != "merge" else rng.randrange(3)],
                             opts=draw_opts(rng, fmt))
        account(ctx, case, execute(ctx, case))
    # 2k. features that share value-list objects (a transform attaching constant lists, interned / cloned Feature objects)
    for i in range(ctx.budget(360, 12000)):
        strategy = "merge" if i % 2 else rng.choice(M.STRATEGIES)
        force = rng.choice(M.subsets()) if strategy == "merge" and rng.random() < 0.4 else []
        fmt = rng.choice(["gff3", "gff3", "gtf"])
        mode = ("transform", "objects", "clone", "transform", "iterator", "clone-dict")[(i // 2) % 6]
        case = G.gen_shared(rng, fmt, strategy, force, mode, opts=draw_opts(rng, fmt))
        account(ctx, case, execute(ctx, case))
    # 2l. look-alike column variants of one key: columns that differ but whose characters are merely redistributed across the
    #     boundary of two columns (also the columns that become neighbours once force_merge_fields takes one out), exchanged
    #     values, other letter case, proper prefixes; mostly merge, every strategy, GFF3 and GTF, create_db and update
    for i in range(ctx.budget(700, 16000)):
        strategy = "merge" if i % 4 else rng.choice(M.STRATEGIES)
        force = rng.choice(M.subsets()) if strategy == "merge" and rng.random() < 0.5 else []
        fmt = rng.choice(["gff3", "gff3", "gtf"])
        kind = "boundary" if i % 3 else rng.choice(LOOK_KINDS[1:])
        case = gen_lookalike(rng, fmt, strategy, force, rng.choice(["create", "update"]), kind)
        if case is None:
            continue
        st = execute(ctx, case)
        if st is not None:
            observed_lookalike(ctx, case, st)
        account(ctx, case, st, klass="look-alike column variants (%s): strategy=%s" % (kind, strategy))
    # 2g. a transient lock held by another connection while update() inserts; nothing collides.  Quick: one case on the
    #     last shard; thorough: every strategy, one per shard
    if ctx.tier == "quick":
        todo = [rng.choice(["warning", "create_unique"])] if ctx.shard == ctx.nshards - 1 else []
    else:
        todo = [st for i, st in enumerate(M.STRATEGIES) if i % ctx.nshards == ctx.shard]
    for strategy in todo:
        case = G.gen_locked(rng, rng.choice(["gff3", "gff3", "gtf"]), strategy)
        account(ctx, case, execute(ctx, case))
    # 3. start/end cannot be forced
    for _ in range(ctx.budget(60, 1600)):
        case = G.gen_badforce(rng, rng.choice(["gff3", "gtf"]))
        account(ctx, case, execute(ctx, case))
    ctx.mon("autoid contract evaluations", contracts.EVALS["autoid"])


MANIFEST = {
    "technique": "sequential reference model of the five strategies vs real create_db / update; content read with plain "
                 "sqlite3; relations judged against the Parent values of the stored features",
    "text": "Generated histories of colliding keys (2-6 arrivals per key, third and later arrivals steered onto earlier "
            "'<key>_n' entries) are imported by the real GFF3 and GTF importers through create_db and FeatureDB.update under "
            "each strategy and, for merge, every subset of the six forceable columns. The final features table must equal "
            "the model's (keys, columns, attribute value sets without repeats, forced columns as token sets), 'error' must "
            "abort, start/end in force_merge_fields must be refused, and the level-1 relations must be exactly the Parent "
            "values of the features as finally stored. Layered over the histories: valueless attribute keys, '.' start/end, "
            "shuffled force_merge_fields, non-default GTF transcript/gene keys (level-1 and direct level-2 rows judged under "
            "the given keys), keys that collide in create_db and again in several later update() runs, the verbose argument "
            "(False / True / 'debug', also one history under all three), colliding lines with differing extra (10th, 11th) "
            "columns and arrivals in different genomic bins. Every stored feature is also read through the live handle: "
            "db[key] against the model, str(db[key]) against the kept arrival's line (merged features: columns and attribute "
            "parts), and it must be found by region(completely_within=True) and all_features(limit=) at its position. "
            "Colliding newcomers are also handed over as Feature objects whose coordinates were edited after construction (by a "
            "transform or by the caller), across genomic-bin boundaries, onto or away from the stored feature's columns; and an "
            "update() in which nothing collides runs while another connection holds a write transaction beyond the busy "
            "timeout: it must fail with sqlite3.OperationalError (a retry then gives the model's content) or store every "
            "newcomer under its own key. Stored lines also arrive again verbatim or in another key / value order, with value "
            "lists that hold a value more than once: under merge the feature must end up with every value once. Keys also come "
            "from ':field:' / callable id_specs and auto-numbered ids, with colliding features that have no attributes at all "
            "(forced columns must be the set of values of all merged lines); and inputs whose features share value-list objects "
            "(constant-attaching transform, interned / copy.copy()-cloned Feature objects) must be stored each with its own values, "
            "no invented relation rows, the caller's list objects unchanged.",
    "note": "Trusted: gvmon/models/C05.py and the reference renderer. The relation part is reported under its own reason "
            "('relations: ...') so that it can be told apart from feature/attribute mismatches.",
}
