"""
C12  Genomic binning is sound.

Oracle: the arithmetic specification in gvmon/models/binspec.py, installed as
an icontract postcondition on the real gffutils.bins.bins (so it also judges
every call made by Feature construction, astuple(), make_query and region),
plus boundary-level checks of the "Hence" clause and of Feature.bin / the
stored bin column.
"""
import os
import sqlite3

from gvmon.models import binspec as S
from gvmon.monitors import contracts

RULE = ("pairs (start,end) from the boundary set {m*2^(17+3k)+d : |d|<=2} U {0,2^29,...}+-2 enumerated "
        "exhaustively x {gff,bed} x {one,set}, random pairs beyond; a pair is non-trivial when an end lies "
        "within +-2 of a bin boundary and its two ends fall in different finest bins (or it is out of range); "
        "distinct = distinct (start,end,fmt,one) / distinct interval pairs for the overlap clause")
REQUIRED = ["debug helpers of the bins module called before further checks", "repeated calls after the caller mutated the returned set", "bins of features constructed by gffutils checked",
            "stored bin after coordinate edit checked", "bins.bins contract evaluations", "overlap pairs checked", "Feature.bin checked", "stored bin column checked",
            "stored bin checked after an update of a GTF database", "region(<edited Feature>) compared with the tuple form",
            "region(<merge() output>) compared with the tuple form", "queries on a primed handle after another handle moved the features",
            "query forms (tuple, string, wider string) checked against a stored bin",
            "Feature.bin checked for coordinates given in a non-int integer representation",
            "stored bin checked for Feature objects built from non-int integer representations"]
ASSUMPTIONS = [
    "the specification in gvmon/models/binspec.py is a faithful reading of the statement",
    "'bed' is judged through bins(s,e,'bed') == bins(s+1,e,'gff') for non-empty half-open intervals only",
    "for start > end (empty closed interval) only well-formedness of the result is asked",
    "a coordinate handed to Feature() as an integral float / Decimal / Fraction / int subclass / decimal text denotes that "
    "integer ('int-like' in the constructor's documentation); non-integral values are never generated",
]
EXHAUSTIVE_NOTE = "all ordered pairs of the boundary set x {gff,bed} x {one,set} are executed (quick: reduced set; thorough: full set)"
QUICK_SHARDS = 4
THOROUGH_SHARDS = 16


def boundary_values(tier):
    vals = set()
    ms_full = [0, 1, 2, 3, 7, 8, 9, 63, 64, 65, 511, 512, 513, 4094, 4095, 4096]
    ms_quick = [0, 1, 2, 8, 64, 512, 4095, 4096]
    ms = ms_full if tier == "thorough" else ms_quick
    ds = (-2, -1, 0, 1, 2) if tier == "thorough" else (-1, 0, 1, 2)
    for k in range(5):
        sz = S.size(k)
        for m in ms:
            if m * sz <= S.LIMIT:
                for d in ds:
                    vals.add(m * sz + d)
    for base in (0, S.LIMIT, S.LIMIT + 2 ** 17):
        for d in (-2, -1, 0, 1, 2):
            vals.add(base + d)
    vals.update([-1000, 5, 1000, 2 ** 17 + 777, 2 ** 28 + 12345, 2 ** 30])
    return sorted(vals)


def near_boundary(x):
    for k in range(5):
        r = x % S.size(k)
        if r <= 2 or r >= S.size(k) - 2:
            return True
    return False


def nontrivial(s, e):
    if not S.in_range(s, e):
        return True
    return (near_boundary(s) or near_boundary(e)) and ((s - 1) >> 17) != ((e - 1) >> 17)


def setup(ctx):
    contracts.install_bins()


def drain(ctx, case):
    for v in contracts.drain():
        ctx.violation(case, v)


def call_direct(ctx, s, e, fmt, one):
    """One call of the real function judged twice: by the contract and directly."""
    from gffutils import bins as B

    case = {"kind": "call", "start": s, "end": e, "fmt": fmt, "one": one}
    try:
        r = B.bins(s, e, fmt=fmt, one=one)
    except Exception as ex:
        ctx.violation(case, {"why": "bins raised %r" % (ex,)})
        return
    why = S.check_call(s, e, fmt, one, r)
    if why:
        contracts.drain()
        ctx.violation(case, {"why": why})
        return
    drain(ctx, case)
    if not one and isinstance(r, set) and ((s ^ e) & 3) == 0:
        # the result belongs to the caller: emptying it must not change what the next identical call answers
        r.clear()
        r2 = B.bins(s, e, fmt=fmt, one=False)
        ctx.mon("repeated calls after the caller mutated the returned set")
        why = S.check_call(s, e, fmt, False, r2)
        if why:
            contracts.drain()
            ctx.violation(case, {"why": "second identical call after the caller emptied the first result: " + why})
            return
        drain(ctx, case)


def execute(ctx, case):
    from gffutils import bins as B
    import gffutils

    kind = case["kind"]
    if kind == "call":
        call_direct(ctx, case["start"], case["end"], case["fmt"], case["one"])
    elif kind == "overlap":
        a, b = case["a"], case["b"]
        ba = B.bins(a[0], a[1], one=True)
        sb = B.bins(b[0], b[1], one=False)
        bb = B.bins(b[0], b[1], one=True)
        sa = B.bins(a[0], a[1], one=False)
        ctx.mon("overlap pairs checked")
        if not isinstance(sb, (set, frozenset)) or ba not in sb:
            ctx.violation(case, {"why": "bin of %s = %r is not in the bin set of overlapping %s" % (a, ba, b)})
        elif not isinstance(sa, (set, frozenset)) or bb not in sa:
            ctx.violation(case, {"why": "bin of %s = %r is not in the bin set of overlapping %s" % (b, bb, a)})
        drain(ctx, case)
    elif kind == "feature":
        s, e = case["start"], case["end"]
        f = gffutils.Feature(seqid="c", start=s, end=e, strand=case.get("strand", "."))
        expect = B.bins(s, e, one=True)
        ctx.mon("Feature.bin checked")
        why = S.check_one(s, e, f.bin)
        if why or f.bin != expect:
            ctx.violation(case, {"why": why or "Feature.bin %r != bins(start,end) %r" % (f.bin, expect)})
        t = f.astuple()
        if t[-1] != expect or S.check_one(s, e, t[-1]):
            ctx.violation(case, {"why": "astuple() bin %r != bins(start,end) %r" % (t[-1], expect)})
        from gffutils import helpers

        hb = helpers._bin_from_dict({"start": str(s), "end": str(e)})
        if hb != expect:
            ctx.violation(case, {"why": "_bin_from_dict %r != bins(start,end) %r" % (hb, expect)})
        drain(ctx, case)
    elif kind == "intlike":
        intlike_feature(ctx, case)
    elif kind == "intlike_stored":
        intlike_stored(ctx, case)
    elif kind == "edited":
        edited_insert(ctx, case)
    elif kind == "gtf_update":
        gtf_update(ctx, case)
    elif kind == "stale_query_feature":
        stale_query_feature(ctx, case)
    elif kind == "derived":
        # Feature objects that gffutils itself constructs (gaps between features): their bin is bins(start, end) too
        pairs = case["pairs"]
        lines = []
        for i, (a, b, c, d) in enumerate(pairs):
            lines.append("chr%d\tsrc\texon\t%d\t%d\t.\t+\t.\tID=l%d" % (i, a, b, i))
            lines.append("chr%d\tsrc\texon\t%d\t%d\t.\t+\t.\tID=r%d" % (i, c, d, i))
        db = gffutils.create_db("\n".join(lines), ":memory:", from_string=True)
        try:
            gaps = list(db.interfeatures(db.all_features(order_by=("seqid", "start"))))
            for g in gaps:
                ctx.mon("bins of features constructed by gffutils checked")
                why = S.check_one(g.start, g.end, g.bin)
                if why or g.bin != B.bins(g.start, g.end, one=True):
                    ctx.violation(case, {"why": "a Feature constructed by gffutils (gap %d-%d) carries bin %r, bins(start, end) is %r"
                                         % (g.start, g.end, g.bin, B.bins(g.start, g.end, one=True))})
                    break
        finally:
            db.conn.close()
        drain(ctx, case)
    elif kind == "stored":
        # import lines with these coordinates; read the raw bin column back
        coords = case["coords"]
        strands = case.get("strands") or ["+"] * len(coords)
        lines = ["chr1\tsrc\tgene\t%d\t%d\t.\t%s\t.\tID=g%d" % (s, e, strands[i], i) for i, (s, e) in enumerate(coords)]
        try:
            db = gffutils.create_db("\n".join(lines), ":memory:", from_string=True)
        except Exception as ex:
            ctx.violation(case, {"why": "import of boundary coordinates raised %r" % (ex,)})
            contracts.drain()
            return
        rows = db.conn.execute("SELECT id, start, end, bin FROM features ORDER BY rowid").fetchall()
        for (i, (s, e)), row in zip(enumerate(coords), rows):
            ctx.mon("stored bin column checked")
            got = row[3]
            why = S.check_one(s, e, got)
            if why or got != B.bins(s, e, one=True):
                ctx.violation(case, {"why": "stored bin of (%d,%d): %s" % (s, e, why or "%r != bins()" % (got,))})
                break
            # and the stored bin must be found by a query whose interval overlaps the feature
            if S.in_range(s, e) and s <= e:
                qs = B.bins(max(1, s - 1), min(S.LIMIT - 1, e + 1), one=False)
                if got not in qs:
                    ctx.violation(case, {"why": "stored bin %r not in query bin set" % (got,)})
                    break
        db.conn.close()
        drain(ctx, case)


def gtf_update(ctx, case):
    """A GTF database (genes and transcripts inferred) updated with further exons of an existing transcript that lie in
    another genomic bin: whatever the update does to the stored rows, every row's bin is bins(start, end) of the coordinates
    stored with it, and a query around a row's position finds it."""
    import gffutils
    from gffutils import bins as B

    def ex(i, s, e):
        return 'chr1\tsrc\texon\t%d\t%d\t.\t+\t.\tgene_id "g1"; transcript_id "t1"; exon_number "%d";' % (s, e, i)
    base = "\n".join(ex(i, s, e) for i, (s, e) in enumerate(case["exons"])) + "\n"
    more = "\n".join(ex(100 + i, s, e) for i, (s, e) in enumerate(case["more"])) + "\n"
    dbfn = ctx.tmp(".db")
    try:
        db = gffutils.create_db(base, dbfn, from_string=True)
        prime(db)
        for strategy in case["strategies"]:
            db.update(more, from_string=True, merge_strategy=strategy, make_backup=False)
        rows = db.conn.execute("SELECT id, seqid, start, end, bin FROM features").fetchall()
        for fid, seqid, s_, e_, b_ in rows:
            if s_ is None or e_ is None:
                continue
            ctx.mon("stored bin checked after an update of a GTF database")
            if b_ != B.bins(s_, e_, one=True):
                ctx.violation(case, {"why": "after update() of a GTF database a row's bin is not bins(start, end) of its stored coordinates",
                                     "feature": fid, "stored": [s_, e_, b_], "bins()": B.bins(s_, e_, one=True)})
                return
            if S.in_range(s_, e_) and s_ <= e_:
                hits = [f.id for f in db.all_features(limit=(seqid, s_, e_), completely_within=True)]
                hits2 = [f.id for f in db.region((seqid, s_, e_), completely_within=True)]
                if fid not in hits or fid not in hits2:
                    ctx.violation(case, {"why": "after update() of a GTF database a stored feature is not found by a query around its position",
                                         "feature": fid, "coords": [s_, e_], "limit": hits, "region": hits2})
                    return
        db.conn.close()
    except Exception as ex_:
        ctx.violation(case, {"why": "GTF create/update raised %r" % (ex_,)})
    finally:
        if os.path.exists(dbfn):
            os.unlink(dbfn)
    drain(ctx, case)


def stale_query_feature(ctx, case):
    """region(<Feature>) uses the Feature's seqid, start and end as they are NOW - a Feature fetched from the database and
    widened by the caller (flanks), or the interval merge() yields, asks the same as the tuple of its coordinates."""
    import gffutils

    coords = case["coords"]
    lines = ["chr1\tsrc\tgene\t%d\t%d\t.\t+\t.\tID=g%d" % (s_, e_, i) for i, (s_, e_) in enumerate(coords)]
    try:
        db = gffutils.create_db("\n".join(lines), ":memory:", from_string=True)
        for i, (ds, de) in enumerate(case["widen"]):
            f = db["g%d" % (i % len(coords))]
            how = i % 3
            if how == 0:
                f.start, f.end = max(1, f.start - ds), f.end + de
            elif how == 1:
                f.stop = f.end + de
            else:
                f[3] = max(1, f.start - ds)
                f[4] = f.end + de
            if not (S.in_range(f.start, f.end) and f.start <= f.end):
                continue
            for cw in (True, False):
                a = sorted(x.id for x in db.region(region=f, completely_within=cw))
                b = sorted(x.id for x in db.region(("chr1", f.start, f.end), completely_within=cw))
                c = sorted(x.id for x in db.region(f, completely_within=cw))
                ctx.mon("region(<edited Feature>) compared with the tuple form")
                if a != b or c != b:
                    ctx.violation(case, {"why": "region(<Feature whose coordinates were edited after it was fetched>) differs from "
                                                "region((seqid, start, end)) of its coordinates", "completely_within": cw,
                                         "feature": [f.start, f.end], "by_feature": a, "by_tuple": b})
                    db.conn.close()
                    return
        merged = list(db.merge(db.all_features(order_by=("seqid", "strand", "start"))))
        for m in merged:
            if S.in_range(m.start, m.end) and m.start <= m.end:
                a = sorted(x.id for x in db.region(m, completely_within=True))
                b = sorted(x.id for x in db.region(("chr1", m.start, m.end), completely_within=True))
                ctx.mon("region(<merge() output>) compared with the tuple form")
                if a != b:
                    ctx.violation(case, {"why": "region(<feature yielded by merge()>) differs from region((seqid, start, end)) of its coordinates",
                                         "feature": [m.start, m.end], "by_feature": a, "by_tuple": b})
                    break
        db.conn.close()
    except Exception as ex_:
        ctx.violation(case, {"why": "region(<Feature>) raised %r" % (ex_,)})
    drain(ctx, case)

# --- coordinates in integer *representations* other than int -----------------------------------------------------
# "a Feature's bin always equals bins(start, end)": the pair is an integer pair, but a caller computes coordinates
# (midpoints, scaled positions, values of a numeric table) and hands them over as whatever type the arithmetic gave.
INT_REPS = ("int", "str", "float", "Decimal", "Fraction", "intsub")


class _Pos(int):
    """An int subclass (as numeric libraries and enums hand out)."""


def as_rep(v, rep):
    import decimal
    import fractions

    if rep == "str":
        return str(v)
    if rep == "float":
        x = float(v)
        assert x == v and x.is_integer()
        return x
    if rep == "Decimal":
        return decimal.Decimal(v)
    if rep == "Fraction":
        return fractions.Fraction(v, 1)
    if rep == "intsub":
        return _Pos(v)
    return int(v)


def intlike_feature(ctx, case):
    """Feature(start=<integer in some representation>, end=...) carries bins(start, end) of that integer pair, in
    .bin and in the tuple that is written on insert."""
    import gffutils
    from gffutils import bins as B

    s, e = case["start"], case["end"]
    try:
        f = gffutils.Feature(seqid="c", start=as_rep(s, case["srep"]), end=as_rep(e, case["erep"]), strand=case.get("strand", "."))
        fb = f.bin
        tb = f.astuple()[-1]
        fs, fe = f.start, f.end
    except Exception as ex:
        contracts.drain()
        ctx.violation(case, {"why": "Feature() with int-like coordinates raised %r" % (ex,)})
        return
    expect = B.bins(s, e, one=True)
    ctx.mon("Feature.bin checked for coordinates given in a non-int integer representation")
    why = S.check_one(s, e, fb)
    if why or fb != expect:
        ctx.violation(case, {"why": "Feature.bin %r of coordinates given as %s/%s is not bins(start, end) = %r%s"
                                    % (fb, case["srep"], case["erep"], expect, (" (" + why + ")") if why else "")})
    elif tb != expect:
        ctx.violation(case, {"why": "astuple() bin %r of coordinates given as %s/%s is not bins(start, end) = %r"
                                    % (tb, case["srep"], case["erep"], expect)})
    elif fs != s or fe != e:
        ctx.violation(case, {"why": "Feature.start/.end %r/%r do not denote the integers given" % (fs, fe)})
    drain(ctx, case)


def intlike_stored(ctx, case):
    """Feature objects built from such coordinates and written (create_db from objects / update): the stored bin is
    bins(start, end) of the stored coordinates and queries around the position find the feature."""
    import gffutils
    from gffutils import bins as B

    feats = case["feats"]       # [(start, end, srep, erep)]
    dbfn = ctx.tmp(".db")
    try:
        objs = [gffutils.Feature(seqid="chr1", source="src", featuretype="gene", start=as_rep(s, sr), end=as_rep(e, er),
                                 strand="+", attributes={"ID": ["n%d" % i]}) for i, (s, e, sr, er) in enumerate(feats)]
        if case["how"] == "create":
            db = gffutils.create_db(iter(objs), dbfn)
        else:
            db = gffutils.create_db("chr1\tsrc\tgene\t100\t900\t.\t+\t.\tID=g0\n", dbfn, from_string=True)
            prime(db)
            db.update(objs, make_backup=False)
        rows = {r[0]: r for r in db.conn.execute("SELECT id, start, end, bin FROM features")}
        for i, (s, e, sr, er) in enumerate(feats):
            fid = "n%d" % i
            r = rows.get(fid)
            ctx.mon("stored bin checked for Feature objects built from non-int integer representations")
            if r is None or r[1] != s or r[2] != e:
                ctx.violation(case, {"why": "feature %s not stored at the coordinates given" % fid, "row": [repr(x) for x in r] if r else None})
                return
            why = S.check_one(s, e, r[3])
            if why or r[3] != B.bins(s, e, one=True):
                ctx.violation(case, {"why": "stored bin %r of a Feature built from %s/%s coordinates is not bins(start, end) = %r"
                                            % (r[3], sr, er, B.bins(s, e, one=True)), "feature": fid, "coords": [s, e]})
                return
            got = db[fid]
            if got.bin != B.bins(s, e, one=True):
                ctx.violation(case, {"why": "fetched Feature.bin %r is not bins(start, end)" % (got.bin,), "feature": fid, "coords": [s, e]})
                return
            if S.in_range(s, e) and s <= e:
                q = ("chr1", max(1, s - 1), min(S.LIMIT - 1, e + 1))
                hits = [x.id for x in db.region(q, completely_within=True)]
                hits2 = [x.id for x in db.features_of_type("gene", limit=q)]
                hits3 = [x.id for x in db.all_features(limit=q, completely_within=True)]
                if fid not in hits or fid not in hits2 or fid not in hits3:
                    ctx.violation(case, {"why": "a stored feature (built from %s/%s coordinates) is not found by a query around its position" % (sr, er),
                                         "feature": fid, "coords": [s, e], "region": hits, "features_of_type": hits2, "all_features": hits3})
                    return
        db.conn.close()
    except Exception as ex:
        ctx.violation(case, {"why": "writing Feature objects with int-like coordinates raised %r" % (ex,), "how": case["how"]})
    finally:
        for p in (dbfn, dbfn + ".bak"):
            if os.path.exists(p):
                os.unlink(p)
    drain(ctx, case)


def prime(db):
    """Queries of every kind before anything moves: whatever a handle remembers from them must not outlive a write."""
    for cw in (True, False):
        list(db.region(("chr1", 1, 2 ** 29 - 2), completely_within=cw))
        list(db.region("chr1:1-1000000", completely_within=cw))
        list(db.all_features(limit=("chr1", 1, 2 ** 29 - 2), completely_within=cw))
    list(db.region(seqid="chr1", start=5))
    list(db.all_features())


def edited_insert(ctx, case):
    """Bin assigned *on insert*: coordinates edited between construction and insert (a transform that shifts
    features; a fetched feature edited and written back with update(replace)) must be stored under bins(start, end)
    of the coordinates actually stored, and a query around the new position must find the feature."""
    import os
    import gffutils
    from gffutils import bins as B

    moves = case["moves"]          # [(start, end, new_start, new_end)]
    lines = ["chr1\tsrc\tgene\t%d\t%d\t.\t+\t.\tID=g%d" % (s, e, i) for i, (s, e, ns, ne) in enumerate(moves)]
    target = {"g%d" % i: (ns, ne) for i, (s, e, ns, ne) in enumerate(moves)}
    dbfn = ctx.tmp(".db")
    try:
        if case["how"] == "transform":
            def tr(f):
                f.start, f.end = target[f.attributes["ID"][0]]
                return f
            db = gffutils.create_db("\n".join(lines), dbfn, from_string=True, transform=tr)
        elif case["how"] == "second-handle":
            # this handle has answered queries before; the features then move through ANOTHER handle on the same file
            db = gffutils.create_db("\n".join(lines), dbfn, from_string=True)
            prime(db)
            other = gffutils.FeatureDB(dbfn)
            edited = []
            for f in other.all_features():
                f.start, f.end = target[f.id]
                edited.append(f)
            other.update(edited, merge_strategy="replace", make_backup=False)
            other.conn.close()
            ctx.mon("queries on a primed handle after another handle moved the features")
        elif case["how"] == "add_relation-hooks":
            # the documented hook functions of add_relation return the (edited) features, which are written back
            db = gffutils.create_db("\n".join(lines), dbfn, from_string=True)
            prime(db)

            def move(f):
                f.start, f.end = target[f.id]
                return f
            ids = sorted(target)
            for fid in ids[1:]:
                db.add_relation(ids[0], fid, 1, child_func=lambda parent, child: move(child))
            db.add_relation(ids[0], ids[1], 2, parent_func=lambda parent, child: move(parent))
        else:
            db = gffutils.create_db("\n".join(lines), dbfn, from_string=True)
            prime(db)
            edited = []
            for f in db.all_features():
                f.start, f.end = target[f.id]
                edited.append(f)
            db.update(edited, merge_strategy="replace", make_backup=False)
        rows = {r[0]: r for r in db.conn.execute("SELECT id, start, end, bin FROM features")}
        for fid, (ns, ne) in target.items():
            ctx.mon("stored bin after coordinate edit checked")
            r = rows.get(fid)
            if r is None or (r[1], r[2]) != (ns, ne):
                ctx.violation(case, {"why": "edited feature %s not stored at its new coordinates" % fid, "row": list(r) if r else None})
                return
            why = S.check_one(ns, ne, r[3])
            if why or r[3] != B.bins(ns, ne, one=True):
                ctx.violation(case, {"why": "bin stored on insert is not bins(start, end) of the stored coordinates: %s" % (why or "%r != %r" % (r[3], B.bins(ns, ne, one=True))),
                                     "feature": fid, "stored": [r[1], r[2], r[3]], "how": case["how"]})
                return
            if S.in_range(ns, ne) and ns <= ne:
                hits = [f.id for f in db.region(("chr1", ns, ne), completely_within=True)]
                hits2 = [f.id for f in db.all_features(limit=("chr1", ns, ne))]
                # the same query in the documented string form, and a wider one that starts with fewer digits
                hits3 = [f.id for f in db.region("chr1:%d-%d" % (ns, ne))]
                wide = "chr1:%d-%d" % (max(1, ns // 10 * 9 if ns > 20 else 1), min(S.LIMIT - 1, ne + 1500))
                hits4 = [f.id for f in db.all_features(limit=wide)] + ["|"] + [f.id for f in db.region(wide)]
                # ... and without a seqid (start and end alone), overlap and completely-within
                hits5 = [f.id for f in db.region(start=ns, end=ne)] + ["|"] + \
                        [f.id for f in db.region(start=max(1, ns - 1), end=min(S.LIMIT - 1, ne + 1), completely_within=True)] + ["|"] + \
                        [f.id for f in db.region(start=max(1, ns - 70000), end=min(S.LIMIT - 1, ne + 70000))]
                if hits5.count(fid) != 3:
                    ctx.violation(case, {"why": "a stored feature is not found by a query around its position that names no seqid",
                                         "feature": fid, "coords": [ns, ne], "region(start=, end=) x3": hits5})
                    return
                ctx.mon("query forms (tuple, string, wider string) checked against a stored bin")
                if fid not in hits3 or hits4.count(fid) != 2:
                    ctx.violation(case, {"why": "a stored feature is not found by a query given in string form around its position",
                                         "feature": fid, "coords": [ns, ne], "region(str)": hits3, "wider": wide, "limit/region(wider)": hits4})
                    return
                if fid not in hits or fid not in hits2:
                    ctx.violation(case, {"why": "a feature stored after a coordinate edit is not found by a query around its position",
                                         "feature": fid, "coords": [ns, ne], "region": hits, "limit": hits2, "how": case["how"]})
                    return
        db.conn.close()
    except Exception as ex:
        ctx.violation(case, {"why": "insert after a coordinate edit raised %r" % (ex,), "how": case["how"]})
    finally:
        for p in (dbfn, dbfn + ".bak"):
            if os.path.exists(p):
                os.unlink(p)
    drain(ctx, case)


def run(ctx):
    vals = boundary_values(ctx.tier)
    rng = ctx.rng
    # 1. exhaustive ordered pairs over the boundary set
    idx = 0
    n = nt = 0
    for s in vals:
        for e in vals:
            idx += 1
            if not ctx.mine(idx):
                continue
            for fmt in ("gff", "bed"):
                for one in (True, False):
                    call_direct(ctx, s, e, fmt, one)
                    n += 1
                    if nontrivial(s + (1 if fmt == "bed" else 0), e):
                        nt += 1
    ctx.case_enum(n, nt, sample={"kind": "call", "start": vals[len(vals) // 2], "end": vals[len(vals) // 2 + 3],
                                 "fmt": "gff", "one": False})
    ctx.mon("boundary values", len(vals) if ctx.shard == 0 else 0)
    ctx.mon("exhaustive boundary pairs x fmt x one", n)
    ctx.exhaustive = False  # random part follows
    # 2. random pairs
    for _ in range(ctx.budget(20000, 1200000)):
        r = rng.random()
        if r < 0.5:
            s = rng.randrange(1, S.LIMIT)
            e = min(S.LIMIT + 5, s + int(rng.expovariate(1 / 200000.0)))
        elif r < 0.8:
            s = rng.choice(vals) + rng.randrange(-3, 4)
            e = rng.choice(vals) + rng.randrange(-3, 4)
        else:
            s = rng.randrange(-5, S.LIMIT + 5)
            e = rng.randrange(-5, S.LIMIT + 5)
        fmt = rng.choice(("gff", "gff", "bed"))
        one = rng.random() < 0.5
        call_direct(ctx, s, e, fmt, one)
        ctx.case(("call", s, e, fmt, one), nontrivial(s + (1 if fmt == "bed" else 0), e), cls="random call")
    # 2b. the module's documented debugging helpers are called in between: they must not disturb later answers
    import contextlib, io
    from gffutils import bins as B
    with contextlib.redirect_stdout(io.StringIO()):
        B.print_bin_sizes()
        try:
            B.test()
        except AssertionError:
            ctx.violation({"kind": "call", "start": 0, "end": 1, "fmt": "bed", "one": True}, {"why": "gffutils.bins.test() fails"})
    ctx.mon("debug helpers of the bins module called before further checks")
    for s, e in ((1, 1), (200000, 200010), (2 ** 17, 2 ** 17 + 1), (2 ** 20 - 3, 2 ** 20 + 3), (5, 2 ** 28)):
        for fmt in ("gff", "bed"):
            for one in (True, False):
                call_direct(ctx, s, e, fmt, one)
    # 3. overlap ("Hence") clause on in-range overlapping / nested intervals
    inr = [v for v in vals if 1 <= v < S.LIMIT]
    for _ in range(ctx.budget(15000, 480000)):
        if rng.random() < 0.7:
            p = sorted(rng.choice(inr) for _ in range(4))
        else:
            p = sorted(rng.randrange(1, S.LIMIT) for _ in range(4))
        shape = rng.randrange(3)
        if shape == 0:   # overlapping
            a, b = (p[0], p[2]), (p[1], p[3])
        elif shape == 1:  # nested
            a, b = (p[0], p[3]), (p[1], p[2])
        else:            # touching in one base
            a, b = (p[0], p[1]), (p[1], p[3])
        case = {"kind": "overlap", "a": a, "b": b}
        execute(ctx, case)
        ctx.case(("overlap", a, b), near_boundary(a[1]) or near_boundary(b[0]), sample=case, cls="overlap pair")
    # 4. Feature.bin on construction
    for _ in range(ctx.budget(3000, 200000)):
        s = rng.choice(vals) + rng.randrange(-1, 2)
        e = rng.choice(vals) + rng.randrange(-1, 2)
        if s < 0 or e < 0:
            continue  # negative coordinates are not features of the grammar
        case = {"kind": "feature", "start": s, "end": e, "strand": rng.choice(["+", "-", ".", "-"])}
        execute(ctx, case)
        ctx.case(("feature", s, e), nontrivial(s, e), sample=case, cls="Feature construction")
    # 4b. the same, coordinates handed over in another integer representation (result of caller arithmetic)
    for _ in range(ctx.budget(2400, 120000)):
        if rng.random() < 0.6:
            s = rng.choice(vals) + rng.randrange(-1, 2)
            e = rng.choice(vals) + rng.randrange(-1, 2)
        else:
            s = rng.randrange(1, S.LIMIT)
            e = min(S.LIMIT + 5, s + int(rng.expovariate(1 / 200000.0)))
        if s < 0 or e < 0:
            continue
        srep = rng.choice(INT_REPS[1:])
        erep = srep if rng.random() < 0.6 else rng.choice(INT_REPS)
        case = {"kind": "intlike", "start": s, "end": e, "srep": srep, "erep": erep, "strand": rng.choice("+-.")}
        execute(ctx, case)
        ctx.case(("intlike", s, e, srep, erep), nontrivial(s, e), sample=case if rng.random() < 0.01 else None,
                 cls="Feature construction from int-like coordinates")
    inr3 = [v for v in vals if 1 <= v < S.LIMIT - 10]
    for _ in range(ctx.budget(48, 1600)):
        feats = []
        for _ in range(8):
            s = rng.choice(inr3) if rng.random() < 0.7 else rng.randrange(1, S.LIMIT - 2 ** 21)
            e = min(S.LIMIT - 1, s + rng.choice([0, 1, 2, 500, 70000, 2 ** 17, 2 ** 20 + 3]))
            srep = rng.choice(INT_REPS[1:])
            feats.append((s, e, srep, srep if rng.random() < 0.6 else rng.choice(INT_REPS)))
        case = {"kind": "intlike_stored", "how": rng.choice(["create", "update"]), "feats": feats}
        execute(ctx, case)
        ctx.case(("intlike_stored", case["how"], feats), True, sample=case if rng.random() < 0.1 else None,
                 cls="Feature objects with int-like coordinates stored")
    # 5. stored bin column
    for _ in range(ctx.budget(40, 1600)):
        coords = []
        for _ in range(25):
            s = max(0, rng.choice(vals) + rng.randrange(-1, 2))
            e = max(0, rng.choice(vals) + rng.randrange(-1, 2))
            if rng.random() < 0.8 and s > e:
                s, e = e, s
            coords.append((s, e))
        case = {"kind": "stored", "coords": coords, "strands": [rng.choice("+-.") for _ in coords]}
        execute(ctx, case)
        ctx.case(("stored", coords), True, cls="imported boundary features")
    # 6. bin assigned on insert after the coordinates were edited
    inr2 = [v for v in vals if 1 <= v < S.LIMIT - 10]
    for _ in range(ctx.budget(60, 2400)):
        moves = []
        for _ in range(8):
            s0 = rng.choice(inr2); e0 = min(S.LIMIT - 1, s0 + rng.randrange(0, 3000))
            s1 = rng.choice(inr2); e1 = min(S.LIMIT - 1, s1 + rng.choice([0, 1, 2, 500, 2 ** 17, 2 ** 20 + 3]))
            moves.append((s0, e0, s1, e1))
        case = {"kind": "edited", "how": rng.choice(["transform", "update-replace", "add_relation-hooks", "second-handle"]), "moves": moves}
        execute(ctx, case)
        ctx.case(("edited", case["how"], moves), True, sample=case if rng.random() < 0.1 else None, cls="insert after coordinate edit")
    # 6b. GTF databases updated with exons in another bin; queries given as edited Feature objects
    for _ in range(ctx.budget(40, 1600)):
        edge = rng.choice([v for v in vals if 5000 < v < S.LIMIT - 10 ** 6])
        exons = [(max(1, edge - 4000 + 300 * i), max(1, edge - 4000 + 300 * i) + 100) for i in range(rng.randrange(1, 4))]
        more = [(edge + rng.choice([2 ** 17, 2 ** 20, 5, 3000]) + 500 * i, edge + rng.choice([2 ** 17, 2 ** 20, 5, 3000]) + 500 * i + 80)
                for i in range(rng.randrange(1, 3))]
        more = [(a, max(a, b)) for a, b in more]
        case = {"kind": "gtf_update", "exons": exons, "more": more, "strategies": [rng.choice(["create_unique", "merge", "replace"])]}
        execute(ctx, case)
        ctx.case(("gtf_update", exons, more, case["strategies"]), True, sample=case if rng.random() < 0.1 else None, cls="GTF database updated")
    for _ in range(ctx.budget(40, 1600)):
        coords = []
        for _ in range(12):
            edge = rng.choice([v for v in vals if 3000 < v < S.LIMIT - 10 ** 6])
            s0 = max(1, edge + rng.randrange(-2500, 2500))
            coords.append((s0, s0 + rng.randrange(0, 3000)))
        widen = [(rng.choice([0, 0, 1500, 2 ** 17]), rng.choice([1, 2000, 2 ** 17 + 5, 2 ** 20])) for _ in range(10)]
        case = {"kind": "stale_query_feature", "coords": coords, "widen": widen}
        execute(ctx, case)
        ctx.case(("stale_query_feature", coords, widen), True, sample=case if rng.random() < 0.1 else None, cls="query by edited Feature")
    # 7. Feature objects built by gffutils itself next to bin boundaries
    for _ in range(ctx.budget(40, 1600)):
        pairs = []
        for _ in range(10):
            edge = rng.choice([v for v in vals if 2000 < v < S.LIMIT - 5000])
            a = max(1, edge - rng.randrange(0, 900))
            b = a + rng.randrange(0, 3) if rng.random() < 0.5 else edge + rng.randrange(-2, 3)
            b = max(a, b)
            c = b + rng.randrange(2, 2000)
            d = c + rng.randrange(0, 50)
            pairs.append((a, b, c, d))
        case = {"kind": "derived", "pairs": pairs}
        execute(ctx, case)
        ctx.case(("derived", pairs), True, cls="features constructed by gffutils")
    ctx.mon("bins.bins contract evaluations", contracts.EVALS["bins.bins"])

MANIFEST = {
    "technique": "icontract postcondition on the real bins.bins + boundary-exhaustive and random call workload vs arithmetic spec",
    "text": "Every call of the real bins.bins made by the workload (all ordered pairs of the +-2 bin-boundary coordinate set in "
            "both conventions and both result forms, random pairs, and every call made indirectly by Feature construction, "
            "astuple, import and query building) is judged by an arithmetic specification written from the statement; the "
            "overlap clause and the stored bin column are checked on boundary-directed intervals. Held means: no executed "
            "call disagreed. Exhaustive only over the boundary set, exploratory elsewhere. Also: the bin stored on insert after coordinates were edited (transform, fetched-edited-replaced), the bin of Feature objects gffutils constructs itself (gaps), and a repeated identical call after the caller emptied the returned set.",
    "note": "Trusted: the spec in gvmon/models/binspec.py, icontract, CPython. Not covered: coordinates never generated "
            "(the integer line is sampled away from boundaries).",
}
