"""
C14  Directives are all kept in order; comments, blanks and FASTA are not features.

History + model: a 15-line reference classifier over the generated file vs three observation points of the real
code (DataIterator.directives after full iteration, db.directives after import, directives of the reopened file).
"""
import itertools
import os

from gvmon import dbdump
from gvmon.monitors import contracts

RULE = ("files = interleavings of directive/comment/blank/feature lines: all sequences of <= 5 (quick) / <= 8 (thorough) "
        "line kinds x checklines {0,1,2,10}, and random files with 0..30 features before a directive, with/without a "
        "##FASTA or bare '>' section holding ##-looking and tab-separated lines, LF and CRLF, path, gzip path and from_string, "
        "inferred and supplied dialect; random files whose directive texts have blanks/tabs at either end and empty tab-separated "
        "columns; files with one directive/comment/feature line of 2^k+d characters, k=12..21 (quick) / ..23 (thorough); non-trivial = a directive sits after feature number checklines+1 (beyond the "
        "inspection window) or a FASTA section is present; distinct by (file text, checklines, input form)")
REQUIRED = ["pairs of iterators with overlapping lifetimes", "DataIterator.directives compared", "db.directives compared", "reopened directives compared",
            "directives beyond the window observed", "files with FASTA section", "directives compared after update + delete + reopen", "files with bare CR line ends",
            "db.directives compared after the caller's own iterator started another pass", "multi-member gzip files",
            "directives whose text ends with a tab", "directives whose text begins or ends with blanks or tabs",
            "files with one very long line", "directives longer than 1 MiB compared"]
ASSUMPTIONS = [
    "the FASTA section starts at a line that is exactly '##FASTA' or begins with '>'",
    "blank lines are truly empty (whitespace-only lines are not generated)",
    "files without any feature line are only run through DataIterator (create_db rejects empty input)",
]
EXHAUSTIVE_NOTE = "all sequences of line kinds up to the length bound x checklines {0,1,2,10}"
QUICK_SHARDS = 4


def classify(lines):
    """Reference: (directives, number of feature lines)."""
    directives, nfeat = [], 0
    for line in lines:
        if line == "##FASTA" or line.startswith(">"):
            break
        if line.startswith("##"):
            directives.append(line[2:])
        elif line.startswith("#") or line == "":
            continue
        else:
            nfeat += 1
    return directives, nfeat


def build(kinds, fasta=None):
    lines = []
    nf = 0
    for i, k in enumerate(kinds):
        if k == "D":
            # directive shapes: ordinary, '###' (text '#'), bare '##' (empty text), text with blanks
            lines.append(["##d%d sequence-region chr1 1 %d" % (i, 1000 + i), "###", "##dir %d" % i, "##", "## spaced  %d " % i,
                          "##d%d sequence-region chr1 1 %d" % (i, 1000 + i),
                          # characters that str.splitlines() takes for line ends although file reading does not
                          "##note%d form\x0cfeed\u2028sep\x85nel\x1cfs end" % i,
                          # the marker itself occurring again inside the text; banner lines
                          "##note %d: see the ##FASTA line ## and #this" % i, "####################", "#######",
                          # text that merely begins like the FASTA marker
                          "##FASTA-source genome%d.fa.gz" % i, "##FASTAfile %d" % i,
                          # the marker is '##FASTA' exactly: other letter cases are ordinary directives
                          "##fasta", "##Fasta",
                          # version directives of every shape are directives, kept as written
                          "##gff-version 3.1.26", "##gff-version", "##gff-version-note see docs", "##gff-version   3"][(i + len(kinds)) % 18])
        elif k == "C":
            # comment shapes: ordinary, '#!' pragma-style, bare '#', '# ##'
            lines.append(["#comment %d\twith\ttabs ##not-a-directive" % i, "#!genome-build GRCh%d" % i, "#", "# ## not a directive",
                          "#\tx", "# vt\x0bx\u2029chr1\ts\tgene\t1\t2\t.\t+\t.\tID=ghost%d" % i][(i + len(kinds)) % 6])
        elif k == "B":
            lines.append("")
        else:
            nf += 1
            lines.append("chr1\tsrc\tgene\t%d\t%d\t.\t+\t.\tID=g%d;Name=n%d" % (nf * 10, nf * 10 + 5, nf, nf))
    if fasta == "fasta":
        lines += ["##FASTA", ">chr1 desc", "ACGTNNNN", "##inside-fasta", "chrF\tsrc\tgene\t1\t2\t.\t+\t.\tID=fake"]
    elif fasta == "bare":
        # a header line is a header line whatever follows the '>' (also tab-separated text that looks like nine columns)
        header = [">chr1", ">chr1 desc", ">chr1\tsrc\tgene\t1\t2\t.\t+\t.\tID=header", ">\t\t\t\t\t\t\t\t\t"][len(lines) % 4]
        lines += [header, "ACGT", "##after-header", "chrF\tsrc\tgene\t1\t2\t.\t+\t.\tID=fake2", "#c"]
    return lines


def setup(ctx):
    contracts.install_all()


def execute(ctx, case):
    import gffutils
    from gffutils.iterators import DataIterator

    if case["kind"] == "overlapping":
        try:
            return overlapping(ctx, case)
        except Exception as ex:
            ctx.violation(case, {"why": "two DataIterators with overlapping lifetimes: iteration raised %r" % (ex,)})
            return
    lines = expand_long(ctx, case)
    ck = case["checklines"]
    eol = case.get("eol", "\n")
    text = eol.join(lines) + (eol if case.get("final_eol", True) else "")
    if eol == "\r":
        ctx.mon("files with bare CR line ends")
    exp_dir, exp_n = classify(lines)
    if case.get("edge_ws"):
        ctx.mon("directives whose text begins or ends with blanks or tabs", sum(1 for d in exp_dir if d != d.strip(" \t")))
        ctx.mon("directives whose text ends with a tab", sum(1 for d in exp_dir if d.endswith("\t")))
    if len(text) > 20000:
        # long-line files: keep replay files and reports small (the case itself holds everything needed to rebuild the text)
        def _short_violation(c, d, _v=ctx.violation):
            _v(c, dict((k, elide(v)) for k, v in d.items()) if isinstance(d, dict) else d)
        ctx = _Elided(ctx, _short_violation)
    supplied = case.get("supplied_dialect", False)
    kw = {"checklines": ck}
    if supplied:
        from gffutils import constants
        kw["dialect"] = dict(constants.dialect)
    src = None
    if case["input"] == "path":
        src = ctx.tmp(".gff")
        with open(src, "w", encoding="utf-8", newline="") as fh:
            fh.write(text)
        data, fs = src, False
    elif case["input"] == "gz":
        import gzip
        src = ctx.tmp(".gff.gz")
        raw = text.encode("utf-8")
        cut = raw.find(b"\n", len(raw) // 3) + 1
        if 0 < cut < len(raw) and len(raw) % 2 == 0:
            # a multi-member gzip file (bgzip output, cat a.gz b.gz): later members hold directives and features too
            with gzip.open(src, "wb") as fh:
                fh.write(raw[:cut])
            with gzip.open(src, "ab") as fh:
                fh.write(raw[cut:])
            ctx.mon("multi-member gzip files")
        else:
            with gzip.open(src, "wb") as fh:
                fh.write(raw)
        data, fs = src, False
    else:
        data, fs = text, True
    dbfn = ctx.tmp(".db")
    try:
        # observation point 1: the iterator, after full iteration
        try:
            it = DataIterator(data, from_string=fs, **kw)
            feats = list(it)
            got = list(it.directives)
        except Exception as ex:
            ctx.violation(case, {"why": "DataIterator raised %r" % (ex,), "text": text})
            return
        ctx.mon("DataIterator.directives compared")
        if got != exp_dir:
            ctx.violation(case, {"why": "DataIterator.directives differs after full iteration", "got": got, "expected": exp_dir, "text": text})
            return
        if len(feats) != exp_n:
            ctx.violation(case, {"why": "DataIterator yielded %d features, file has %d feature lines" % (len(feats), exp_n), "text": text})
            return
        if exp_n == 0:
            return
        # observation point 2: the database
        kept = None
        try:
            if case["input"] != "string" and (len(text) + ck) % 4 == 1:
                # the data is a DataIterator the caller keeps; after the import the caller starts another pass over it and
                # abandons it - the database's directives are the database's own
                kept = DataIterator(data, **kw)
                db = gffutils.create_db(kept, dbfn, **kw)
            else:
                db = gffutils.create_db(data, dbfn, from_string=fs, **kw)
        except Exception as ex:
            ctx.violation(case, {"why": "create_db raised %r" % (ex,), "text": text})
            return
        try:
            if kept is not None:
                first_look = list(db.directives)
                for _f in kept:
                    break
                ctx.mon("db.directives compared after the caller's own iterator started another pass")
                if list(db.directives) != first_look:
                    ctx.violation(case, {"why": "db.directives changed when the caller iterated the DataIterator it had handed to create_db again",
                                         "before": first_look, "after": list(db.directives), "text": text})
                    return
            ctx.mon("db.directives compared")
            beyond = directives_beyond_window(lines, ck)
            if beyond:
                ctx.mon("directives beyond the window observed", beyond)
            if list(db.directives) != exp_dir:
                ctx.violation(case, {"why": "db.directives differs after import", "got": list(db.directives),
                                     "expected": exp_dir, "directives_beyond_window": beyond, "text": text})
                return
            n = db.count_features_of_type()
            if n != exp_n:
                ctx.violation(case, {"why": "%d features stored, file has %d feature lines" % (n, exp_n), "text": text})
                return
        finally:
            db.conn.close()
        # observation point 3: reopened file (+ independent reader)
        db2 = gffutils.FeatureDB(dbfn)
        try:
            ctx.mon("reopened directives compared")
            raw = dbdump.dump(dbfn)["directives"]
            if list(db2.directives) != exp_dir or raw != exp_dir:
                ctx.violation(case, {"why": "directives differ after reopening", "got": list(db2.directives), "raw_table": raw,
                                     "expected": exp_dir, "text": text})
                return
            # observation point 4: the database is used further (features added and removed, no directive in the added
            # data) and opened again: the directives it was imported with are still all there, in order
            if (len(text) + ck) % 3 == 0:
                try:
                    db2.update("chrU\tsrc\tgene\t5\t9\t.\t+\t.\tID=added_later\n", from_string=True, make_backup=False)
                    db2.delete("added_later", make_backup=False)
                except Exception as ex:
                    ctx.violation(case, {"why": "update/delete on the imported database raised %r" % (ex,), "text": text})
                    return
                db2.conn.close()
                db2 = gffutils.FeatureDB(dbfn)
                ctx.mon("directives compared after update + delete + reopen")
                raw = dbdump.dump(dbfn)["directives"]
                if list(db2.directives) != exp_dir or raw != exp_dir:
                    ctx.violation(case, {"why": "directives differ after an update and a delete on the database and reopening it",
                                         "got": list(db2.directives), "raw_table": raw, "expected": exp_dir, "text": text})
                    return
        finally:
            db2.conn.close()
    finally:
        for p in (src, dbfn):
            if p and os.path.exists(p):
                os.unlink(p)
        for v in contracts.drain():
            ctx.violation(case, v)


def overlapping(ctx, case):
    """Two iterators over different files whose lifetimes overlap: each keeps its own directives."""
    from gffutils.iterators import DataIterator

    la, lb = case["lines_a"], case["lines_b"]
    pa, pb = ctx.tmp(".a.gff"), ctx.tmp(".b.gff")
    try:
        for p, ls in ((pa, la), (pb, lb)):
            with open(p, "w", encoding="utf-8", newline="") as fh:
                fh.write("\n".join(ls) + "\n")
        ea, na = classify(la)
        eb, nb = classify(lb)
        a = DataIterator(pa, checklines=case["checklines"])
        b = DataIterator(pb, checklines=case["checklines"])          # built before a was read
        if case["how"] == "lockstep":
            ia, ib = iter(a), iter(b)
            fa, fb = [], []
            while True:
                x = next(ia, None)
                y = next(ib, None)
                if x is None and y is None:
                    break
                if x is not None:
                    fa.append(x)
                if y is not None:
                    fb.append(y)
        else:
            fb = list(b)
            fa = list(a)
        ctx.mon("pairs of iterators with overlapping lifetimes")
        if list(a.directives) != ea or list(b.directives) != eb or len(fa) != na or len(fb) != nb:
            ctx.violation(case, {"why": "two DataIterators alive at the same time do not each keep their own directives/features",
                                 "a": [list(a.directives), len(fa)], "expected_a": [ea, na],
                                 "b": [list(b.directives), len(fb)], "expected_b": [eb, nb]})
    finally:
        for p in (pa, pb):
            if os.path.exists(p):
                os.unlink(p)


LONG_FILL = ["ACGT", "lorem ipsum ", "x #> ##y "]


def expand_long(ctx, case):
    """Lines of the case; with case['long'] = {index, length, fill} line `index` is padded to exactly `length` characters
    with a repeated filler (the case stays small, the file does not)."""
    lines = list(case["lines"])
    lg = case.get("long")
    if lg:
        j, n = lg["index"], lg["length"]
        fill = LONG_FILL[lg["fill"]]
        pad = n - len(lines[j])
        if pad > 0:
            lines[j] = lines[j] + (fill * (pad // len(fill) + 1))[:pad]
        ctx.mon("files with one very long line")
        ctx.mon("longest line, characters (sum over files)", len(lines[j]))
        if len(lines[j]) > (1 << 20):
            ctx.mon("files with a line longer than 1 MiB")
        if lines[j].startswith("##") and len(lines[j]) > (1 << 20):
            ctx.mon("directives longer than 1 MiB compared")
    return lines


def elide(v):
    if isinstance(v, str) and len(v) > 600:
        return "%s ...[%d characters]... %s" % (v[:300], len(v), v[-100:])
    if isinstance(v, (list, tuple)):
        return [elide(x) for x in v]
    return v


class _Elided(object):
    """ctx whose violation() shortens megabyte strings in the detail."""

    def __init__(self, ctx, violation):
        self.__dict__["_ctx"] = ctx
        self.__dict__["violation"] = violation

    def __getattr__(self, name):
        return getattr(self._ctx, name)


EDGE = ["", "", " ", "\t", "\t\t", " \t", "\t ", "   "]
WORDS = ["contig", "chr2", "500", "species", "human", "sequence-region", "1", "note", "x", ""]


def edge_ws_directive(rng):
    """A directive line whose text has blanks/tabs at either end and between (possibly empty) columns: tab-delimited
    payloads, padded lines, bare '##' + whitespace.  Never the FASTA marker."""
    sep = rng.choice(["\t", " ", "\t\t", " \t", "  "])
    body = sep.join(rng.choice(WORDS) for _ in range(rng.randrange(0, 5)))
    return "##" + rng.choice(EDGE) + body + rng.choice(EDGE)


def directives_beyond_window(lines, ck):
    """Number of directives located after feature number ck+1 (and before any FASTA section)."""
    nf = 0
    n = 0
    for line in lines:
        if line == "##FASTA" or line.startswith(">"):
            break
        if line.startswith("##"):
            if nf >= ck + 1:
                n += 1
        elif line.startswith("#") or line == "":
            pass
        else:
            nf += 1
    return n


def run(ctx):
    rng = ctx.rng
    maxlen = 5 if ctx.tier == "quick" else 8
    i = 0
    n = nt = 0
    sample = None
    for L in range(1, maxlen + 1):
        for kinds in itertools.product("DCBF", repeat=L):
            for ck in (0, 1, 2, 10):
                i += 1
                if not ctx.mine(i):
                    continue
                fasta = [None, "fasta", "bare"][i % 3] if (i % 4 == 0) else None
                lines = build(kinds, fasta)
                case = {"kind": "file", "lines": lines, "checklines": ck, "input": "string" if i % 5 == 0 else ("gz" if i % 5 == 1 else "path"),
                        "supplied_dialect": i % 7 == 0}
                if i % 11 == 0 and case["input"] != "gz":
                    case["eol"] = "\r"      # classic Mac line ends (text files only: gzip input is split on LF)
                execute(ctx, case)
                n += 1
                if fasta:
                    ctx.mon("files with FASTA section")
                if directives_beyond_window(lines, ck) or fasta:
                    nt += 1
                    sample = case
    ctx.case_enum(n, nt, sample=sample)
    ctx.mon("enumerated interleavings x checklines", n)
    for _ in range(ctx.budget(120, 4000)):
        ka = [rng.choice("DDCBF") for _ in range(rng.randrange(2, 9))] + ["F"]
        kb = [rng.choice("DCBFF") for _ in range(rng.randrange(2, 9))] + ["F"]
        case = {"kind": "overlapping", "lines_a": build(ka), "lines_b": build(kb + ["D"]), "checklines": rng.choice([0, 1, 10]),
                "how": rng.choice(["lockstep", "b-first"])}
        execute(ctx, case)
        ctx.case(("overlapping", case["lines_a"], case["lines_b"], case["checklines"], case["how"]), True, cls="overlapping iterators")
    if ctx.tier == "thorough" and ctx.shard == 0:
        import sqlite3
        try:
            c0 = sqlite3.connect(":memory:")
            limit = c0.getlimit(sqlite3.SQLITE_LIMIT_VARIABLE_NUMBER)
            c0.close()
        except Exception:
            limit = 32766
        nd = min(limit, 300000) + 50
        lines = ["##d %d" % j for j in range(nd)] + ["chr1\tsrc\tgene\t1\t5\t.\t+\t.\tID=g1"]
        case = {"kind": "file", "lines": lines, "checklines": 10, "input": "path"}
        execute(ctx, case)
        ctx.mon("files with more directives than SQLite's bound-parameter limit")
        ctx.case(("many directives", nd), True, cls="very many directives")
    for _ in range(ctx.budget(600, 40000)):
        ck = rng.choice([0, 1, 2, 10])
        kinds = []
        for _ in range(rng.randrange(1, 4)):
            kinds += ["F"] * rng.randrange(0, 31)
            kinds += [rng.choice("DDCB")] * rng.randrange(1, 3)
        kinds += ["F"] * rng.randrange(0, 5)
        rng_f = rng.random()
        fasta = "fasta" if rng_f < 0.2 else ("bare" if rng_f < 0.3 else None)
        lines = build(kinds, fasta)
        case = {"kind": "file", "lines": lines, "checklines": ck, "input": rng.choice(["path", "path", "string", "gz"]),
                "eol": "\r\n" if rng.random() < 0.15 else "\n", "final_eol": rng.random() < 0.9,
                "supplied_dialect": rng.random() < 0.1}
        if case["input"] != "gz" and rng.random() < 0.08:
            case["eol"] = "\r"
        execute(ctx, case)
        if fasta:
            ctx.mon("files with FASTA section")
        ctx.case((lines, ck, case["input"], case["eol"], case["supplied_dialect"]),
                 bool(directives_beyond_window(lines, ck) or fasta), sample=None, cls="random file")
    # directive texts with blanks/tabs at either end and empty tab-separated columns: recorded as the text after '##'
    for _ in range(ctx.budget(400, 12000)):
        ck = rng.choice([0, 1, 2, 10])
        kinds = []
        for _ in range(rng.randrange(1, 4)):
            kinds += ["F"] * rng.randrange(0, 14)
            kinds += [rng.choice("DDDCB")] * rng.randrange(1, 3)
        kinds += ["F"] * rng.randrange(0, 3)
        rng_f = rng.random()
        fasta = "fasta" if rng_f < 0.15 else ("bare" if rng_f < 0.25 else None)
        lines = build(kinds, fasta)
        for j, k in enumerate(kinds):
            if k == "D":
                lines[j] = edge_ws_directive(rng)
        case = {"kind": "file", "lines": lines, "checklines": ck, "input": rng.choice(["path", "path", "string", "gz"]),
                "eol": "\r\n" if rng.random() < 0.15 else "\n", "final_eol": rng.random() < 0.9,
                "supplied_dialect": rng.random() < 0.1, "edge_ws": True}
        execute(ctx, case)
        if fasta:
            ctx.mon("files with FASTA section")
        ctx.case((lines, ck, case["input"], case["eol"], case["supplied_dialect"]),
                 bool(directives_beyond_window(lines, ck) or fasta), sample=None, cls="directive text with edge whitespace")
    # one very long line (directive, comment or feature) among ordinary ones: line lengths around powers of two from 4 KiB
    # to 2 MiB (quick) / 8 MiB (thorough) - the sizes of read buffers and of any per-line bound
    ladder = list(range(12, 22)) if ctx.tier == "quick" else list(range(12, 24))
    i = 0
    for k in ladder:
        for which in ("D", "C", "F"):
            i += 1
            if not ctx.mine(i):
                continue
            ck = rng.choice([0, 1, 2, 10])
            kinds = ["D"] + ["F"] * rng.randrange(0, 4) + ["C"] + ["F"] * rng.randrange(0, 3) + ["X", "B", "D"] + ["F"] * rng.randrange(1, 3) + ["D"]
            j = kinds.index("X")
            kinds[j] = which
            fasta = rng.choice([None, None, "fasta", "bare"])
            lines = build(kinds, fasta)
            if which == "F":
                lines[j] += ";Note="
            length = (1 << k) + rng.choice([-1, 0, 1, 2, 37, 1000])
            case = {"kind": "file", "lines": lines, "checklines": ck, "input": rng.choice(["path", "string", "gz"]),
                    "eol": rng.choice(["\n", "\n", "\r\n"]), "final_eol": True,
                    "long": {"index": j, "length": length, "fill": rng.randrange(len(LONG_FILL)) if which != "F" else 0}}
            execute(ctx, case)
            if fasta:
                ctx.mon("files with FASTA section")
            ctx.case(("long", lines, ck, case["input"], case["eol"], length, case["long"]["fill"]), True, cls="file with one very long line")


MANIFEST = {
    "technique": "reference line classifier vs DataIterator.directives / db.directives / reopened database; exhaustive interleavings + random files",
    "text": "Every generated file is classified by a 15-line reference reader and the directive list is compared at three "
            "observation points of the real code (iterator after full iteration, database after import, reopened database "
            "and the raw directives table read with plain sqlite3); feature counts show that comment, blank, FASTA and "
            "post-FASTA lines produce nothing. All interleavings of the four line kinds up to a length bound are executed "
            "for four checklines values; longer files are random with directives placed after the inspection window. Input forms are path, gzip path and from_string, LF, CRLF and (text files) bare CR; directive/comment texts include bare '##', '#!' pragmas and characters str.splitlines() splits on; the thorough tier adds a file with more directives than SQLite accepts as bound parameters. Two further classes: directive texts with blanks/tabs at either end and empty tab-separated columns (recorded as the text after '##', nothing trimmed), and files holding one directive, comment or feature line of about 2^k characters up to 2 MiB (quick) / 8 MiB (thorough) - recorded whole, no extra feature.",
    "note": "Trusted: the reference classifier. Whitespace-only lines and '##FASTA' with trailing blanks are not generated.",
}
