"""
Reference model of C15: the gap between consecutive features, written from the property statement.
Does not import gffutils.

A feature is a dict {seqid, start, end, strand, featuretype, attrs} with attrs = {key: [values...]}.
A caller may write a value list as a bare string: that is ONE value (values_of), never a sequence of characters.
"""
import re

NUMBER = re.compile(r"^-?[0-9]+(\.[0-9]+)?$")


def values_of(v):
    """The values an attribute entry stands for: a bare string is one value."""
    return [v] if isinstance(v, str) else list(v)


def is_number(v):
    return bool(NUMBER.match(v))


def sorted_union(a, b, numeric_sort):
    vals = set(a) | set(b)
    if numeric_sort and vals and all(is_number(v) for v in vals):
        return sorted(vals, key=lambda v: (float(v), v))
    return sorted(vals)


def union_attributes(prev_attrs, next_attrs, numeric_sort=False):
    """Per-key sorted union of both neighbours' values; several ID values are joined by '-' into one."""
    out = {}
    for k in list(prev_attrs) + [k for k in next_attrs if k not in prev_attrs]:
        out[k] = sorted_union(prev_attrs.get(k, ()), next_attrs.get(k, ()), numeric_sort)
    if len(out.get("ID", ())) > 1:
        out["ID"] = ["-".join(out["ID"])]
    return out


def gap(prev, nxt, new_featuretype=None, merge_attributes=True, numeric_sort=False, update_attributes=None):
    """The feature between prev and nxt, or None when the statement says there is none."""
    if prev["seqid"] != nxt["seqid"]:
        return None
    bases_between = nxt["start"] - prev["end"] - 1
    if bases_between < 1:
        return None
    g = {
        "seqid": prev["seqid"],
        "start": prev["end"] + 1,
        "end": nxt["start"] - 1,
        "featuretype": new_featuretype if new_featuretype is not None
        else "inter_%s_%s" % (prev["featuretype"], nxt["featuretype"]),
        "strand": prev["strand"] if prev["strand"] == nxt["strand"] else ".",
    }
    if merge_attributes:
        attrs = union_attributes(prev["attrs"], nxt["attrs"], numeric_sort)
        if update_attributes:
            for k, v in update_attributes.items():
                attrs[k] = values_of(v)
        g["attrs"] = attrs
    else:
        # the statement describes the attributes of the union only; with the union switched off
        # only the keys of update_attributes are determined
        g["attrs"] = None
        g["must_have"] = {k: values_of(v) for k, v in (update_attributes or {}).items()}
    return g


def gaps(features, **kw):
    """(gap list in pair order, number of suppressed pairs by reason); every gap carries under "pair" the positions
    of its two neighbours in `features` (bookkeeping for the evidence counters, not part of the expectation)"""
    out = []
    suppressed = {"seqid change": 0, "touching": 0, "overlapping": 0}
    for i, (prev, nxt) in enumerate(zip(features, features[1:])):
        g = gap(prev, nxt, **kw)
        if g is not None:
            g["pair"] = [i, i + 1]
            out.append(g)
        elif prev["seqid"] != nxt["seqid"]:
            suppressed["seqid change"] += 1
        elif nxt["start"] == prev["end"] + 1:
            suppressed["touching"] += 1
        else:
            suppressed["overlapping"] += 1
    return out, suppressed


def start_ordered(exons):
    return sorted(exons, key=lambda e: e["start"])


def introns(exons, **kw):
    """Gaps between the start-ordered exons of one transcript (starts must be distinct); "pair" refers to
    start_ordered(exons)."""
    return gaps(start_ordered(exons), **kw)


def site_pair(intron):
    """The two-base sites of one intron as (seqid, start, end, strand): [start, start+1] and [end-1, end]."""
    return [(intron["seqid"], intron["start"], intron["start"] + 1, intron["strand"]),
            (intron["seqid"], intron["end"] - 1, intron["end"], intron["strand"])]


FIVE = "five_prime_cis_splice_site"
THREE = "three_prime_cis_splice_site"


def site_label(side, transcript_strand):
    """side: 'left' = first two bases of the intron, 'right' = last two."""
    if transcript_strand == "+":
        return FIVE if side == "left" else THREE
    if transcript_strand == "-":
        return THREE if side == "left" else FIVE
    return "splice_site"


def splice_sites(exons, transcript_strand, numeric_sort=False):
    """Two-base sites [start, start+1] and [end-1, end] of every intron of the transcript."""
    out = []
    ins, sup = introns(exons, new_featuretype="intron", numeric_sort=numeric_sort)
    for g in ins:
        out.append({"seqid": g["seqid"], "start": g["start"], "end": g["start"] + 1, "strand": g["strand"],
                    "featuretype": site_label("left", transcript_strand), "pair": g["pair"]})
        out.append({"seqid": g["seqid"], "start": g["end"] - 1, "end": g["end"], "strand": g["strand"],
                    "featuretype": site_label("right", transcript_strand), "pair": g["pair"]})
    return out, sup
