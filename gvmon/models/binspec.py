"""
Arithmetic specification of the 5-level UCSC binning scheme, written from the
statement of C12 alone (never imports gffutils).

level k (0 = finest) has bins of 2**(17+3k) bases; bin (k, i) covers the
1-based closed interval [i*size + 1, (i+1)*size]; its number is OFFS[k] + i.
"""
OFFS = [4681, 585, 73, 9, 1]
LIMIT = 2 ** 29
NBINS = [LIMIT >> (17 + 3 * k) for k in range(5)]  # 4096, 512, 64, 8, 1


def size(k):
    return 1 << (17 + 3 * k)


def decode(b):
    """bin number -> (level, index) or None when b is not a bin of the scheme."""
    if isinstance(b, bool) or not isinstance(b, int):
        return None
    for k in range(5):
        if OFFS[k] <= b < OFFS[k] + NBINS[k]:
            return k, b - OFFS[k]
    return None


def extent(k, i):
    s = size(k)
    return i * s + 1, (i + 1) * s


def in_range(start, end):
    """gff convention: 1 <= start, 0 <= end < 2**29 (and start < 2**29)."""
    return 1 <= start < LIMIT and 0 <= end < LIMIT


def smallest_level_containing(a, b):
    """Smallest level whose single bin contains [a, b] (1-based closed); None if none."""
    if a < 1 or b > LIMIT:
        return None
    for k in range(5):
        if (a - 1) >> (17 + 3 * k) == (b - 1) >> (17 + 3 * k):
            return k
    return None


def check_one(start, end, result):
    """Return None if `result` is acceptable for bins(start, end, one=True) [gff], else a reason."""
    if not in_range(start, end):
        if result != 1 or isinstance(result, bool) or not isinstance(result, int):
            return "out-of-range coordinates must map to bin 1, got %r" % (result,)
        return None
    d = decode(result)
    if d is None:
        return "not an integer bin of the scheme: %r" % (result,)
    if start > end:
        return None  # empty interval: any bin of the scheme is accepted
    k, i = d
    lo, hi = extent(k, i)
    if not (lo <= start and end <= hi):
        return "bin %d = level %d [%d,%d] does not contain [%d,%d]" % (result, k, lo, hi, start, end)
    kstar = smallest_level_containing(start, end + 1)
    if kstar is not None and k > kstar:
        return "bin %d (level %d) is coarser than the smallest bin containing [%d,%d] (level %d)" % (
            result, k, start, end + 1, kstar)
    return None


def required_set(start, end):
    """Every bin overlapping [start, end] (start <= end, in range)."""
    req = set()
    for k in range(5):
        sh = 17 + 3 * k
        req.update(range(OFFS[k] + ((start - 1) >> sh), OFFS[k] + ((end - 1) >> sh) + 1))
    return req


def allowed_set(start, end):
    """Every bin overlapping [start-1, end+1] clipped to the chromosome."""
    a = max(1, start - 1)
    b = min(LIMIT, end + 1)
    return required_set(a, b)


def check_set(start, end, result):
    if not in_range(start, end):
        if not isinstance(result, (set, frozenset)) or set(result) != {1}:
            return "out-of-range coordinates must map to {1}, got %r" % (_short(result),)
        return None
    if not isinstance(result, (set, frozenset)):
        return "one=False must return a set, got %r" % (type(result).__name__,)
    for b in result:
        if decode(b) is None:
            return "set contains %r which is not a bin of the scheme" % (b,)
    if start > end:
        return None
    missing = required_set(start, end) - result
    if missing:
        return "set misses overlapping bin(s) %s for [%d,%d]" % (sorted(missing)[:5], start, end)
    extra = set(result) - allowed_set(start, end)
    if extra:
        return "set contains bin(s) %s touching neither [%d,%d] nor a neighbouring base" % (
            sorted(extra)[:5], start, end)
    return None


def _short(x):
    r = repr(x)
    return r if len(r) < 80 else r[:80] + "..."


def check_call(start, stop, fmt, one, result):
    """Spec for a call of the real function in either convention."""
    if not isinstance(start, int) or not isinstance(stop, int):
        return None
    if fmt == "bed":
        # bins(s, e, 'bed') == bins(s+1, e, 'gff') is only claimed for non-empty
        # half-open intervals (e > s); otherwise only well-formedness is asked.
        if stop <= start:
            if one:
                return None if decode(result) is not None else "not an integer bin: %r" % (_short(result),)
            ok = isinstance(result, (set, frozenset)) and all(decode(b) is not None for b in result)
            return None if ok else "not a set of bins: %r" % (_short(result),)
        start = start + 1
    elif fmt != "gff":
        return None
    return check_one(start, stop, result) if one else check_set(start, stop, result)
