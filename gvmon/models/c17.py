"""
Reference model for C17 (attribute container, JSON form, merge_attributes), written from the property
statement.  Does not import gffutils.

Value forms used in cases:  ["scalar", "text"] | ["list", [..]] | ["tuple", [..]]
"""
import math
import re

# what everybody calls a number: optional sign, ASCII digits, optional fraction, optional exponent
STRICT_NUMBER = re.compile(r"[+-]?(?:[0-9]+(?:\.[0-9]*)?|\.[0-9]+)(?:[eE][+-]?[0-9]+)?\Z")


def build(form):
    """The Python object handed to the code under test for one value form."""
    kind, val = form
    if kind == "scalar":
        return val
    if kind == "list":
        return list(val)
    if kind == "tuple":
        return tuple(val)
    raise ValueError(kind)


def expected_sequence(form):
    """Statement: values are always sequences of strings; a scalar is wrapped into a one-item list."""
    kind, val = form
    return [val] if kind == "scalar" else list(val)


def is_sequence_of_str(v):
    return isinstance(v, (list, tuple)) and all(isinstance(x, str) for x in v)


class Model(object):
    """Insertion-ordered key -> list of str mapping following a list of container operations."""

    def __init__(self, pairs=()):
        self.d = {}
        for k, v in pairs:
            self.d[k] = list(v)

    def set(self, k, form):
        self.d[k] = expected_sequence(form)

    def setdefault(self, k, form):
        if k not in self.d:
            self.d[k] = expected_sequence(form)

    def delete(self, k):
        self.d.pop(k, None)

    def pairs(self):
        return [[k, list(v)] for k, v in self.d.items()]


def view_ok(stored, seen):
    """always_return_list=False 'only changes how single-item lists are viewed'.
    Returns (ok, changed): the view of anything that is not a one-item sequence must be the stored value;
    a one-item sequence may be shown as that sequence or as its only item."""
    st = list(stored)
    if isinstance(seen, (list, tuple)) and list(seen) == st:
        return True, False
    if len(st) == 1 and isinstance(seen, str) and seen == st[0]:
        return True, True
    return False, False


# --- merge_attributes ----------------------------------------------------------
def values_of(v):
    """The values an argument contributes for one key (a scalar string counts as one value)."""
    return [v] if isinstance(v, str) else list(v)


def union(a_pairs, b_pairs):
    out = {}
    for pairs in (a_pairs, b_pairs):
        for k, v in pairs:
            out.setdefault(k, set()).update(values_of(v))
    return out


def _float_or_none(s):
    try:
        return float(s)
    except ValueError:
        return None


def number_class(values):
    """'numeric'  : every value is a number in everybody's reading (STRICT_NUMBER and finite);
       'text'     : at least one value is not a number in anybody's reading (float() refuses it);
       'unclear'  : otherwise ('nan', 'inf', '1_0', ' 1', non-ASCII digits, overflowing exponents ...):
                    the statement does not say whether these are 'numbers' nor how they order."""
    if not values:
        return "numeric"  # vacuous: any order of nothing
    fl = [_float_or_none(v) for v in values]
    if any(f is None for f in fl):
        return "text"
    if all(STRICT_NUMBER.match(v) and math.isfinite(f) for v, f in zip(values, fl)):
        return "numeric"
    return "unclear"


def judge_merge(result_pairs, a_pairs, b_pairs, numeric_sort):
    """result_pairs: [[k, value]] as returned.  Returns (why or None, detail, per-key classes seen)."""
    exp = union(a_pairs, b_pairs)
    got = {}
    for k, v in result_pairs:
        if k in got:
            return "a key is returned twice", {"key": k}, []
        got[k] = v
    if set(got) != set(exp):
        return "keys of the result are not the union of the arguments' keys", {"got": sorted(got), "expected": sorted(exp)}, []
    classes = []
    for k, want in exp.items():
        v = got[k]
        d = {"key": k, "got": repr(v), "union": sorted(want)}
        if not is_sequence_of_str(v):
            return "a merged value is not a sequence of strings", d, classes
        v = list(v)
        if len(set(v)) != len(v):
            return "a merged value contains duplicates", d, classes
        if set(v) != want:
            return "a merged value is not the union of both arguments' values", d, classes
        cls = number_class(sorted(want)) if numeric_sort else "plain"
        classes.append(cls)
        if cls in ("text", "plain"):
            if v != sorted(want):
                return "a merged value is not sorted", d, classes
        elif cls == "numeric":
            fl = [float(x) for x in v]
            if any(fl[i] > fl[i + 1] for i in range(len(fl) - 1)):
                return "an all-number merged value is not in numeric order under numeric_sort", d, classes
        # 'unclear': elements and duplicate-freeness only
    return None, None, classes
