"""
Reference model for C17 (attribute container, JSON form, merge_attributes), written from the property
statement.  Does not import gffutils.

Value forms used in cases:  ["scalar", "text"] | ["list", [..]] | ["tuple", [..]]
and the same given as instances of SUBCLASSES of the three types (what loaders / typed wrappers hand over):
["substr", "text"] = Name(str) | ["sublist", [..]] = TagList(list) | ["subtuple", [..]] = TagTuple(tuple) |
["ntuple", [..]] = a namedtuple of strings
"""
import math
import re

# what everybody calls a number: optional sign, ASCII digits, optional fraction, optional exponent
STRICT_NUMBER = re.compile(r"[+-]?(?:[0-9]+(?:\.[0-9]*)?|\.[0-9]+)(?:[eE][+-]?[0-9]+)?\Z")


class Name(str):
    """A string that is an instance of a subclass of str."""


class TagList(list):
    """A list that is an instance of a subclass of list."""


class TagTuple(tuple):
    """A tuple that is an instance of a plain subclass of tuple."""


_NTUPLES = {}


def ntuple(values):
    """A namedtuple (subclass of tuple) holding the values, fields f0, f1, ..."""
    import collections

    n = len(values)
    if n not in _NTUPLES:
        _NTUPLES[n] = collections.namedtuple("Values%d" % n, ["f%d" % i for i in range(n)])
    return _NTUPLES[n](*values)


SCALAR_FORMS = ("scalar", "substr")
TUPLE_FORMS = ("tuple", "subtuple", "ntuple")
SUBCLASS_FORMS = ("substr", "sublist", "subtuple", "ntuple")


def build(form):
    """The Python object handed to the code under test for one value form."""
    kind, val = form
    if kind == "scalar":
        return val
    if kind == "list":
        return list(val)
    if kind == "tuple":
        return tuple(val)
    if kind == "substr":
        return Name(val)
    if kind == "sublist":
        return TagList(val)
    if kind == "subtuple":
        return TagTuple(val)
    if kind == "ntuple":
        return ntuple(val)
    raise ValueError(kind)


def expected_sequence(form):
    """Statement: values are always sequences of strings; a scalar is wrapped into a one-item list; a sequence of
    strings (of whatever list / tuple type) is that sequence of strings."""
    kind, val = form
    return [val] if kind in SCALAR_FORMS else list(val)


def is_sequence_of_str(v):
    return isinstance(v, (list, tuple)) and all(isinstance(x, str) for x in v)


class Model(object):
    """Insertion-ordered key -> list of str mapping following a list of container operations."""

    def __init__(self, pairs=()):
        self.d = {}
        for k, v in pairs:
            self.d[k] = list(v)

    def set(self, k, form):
        self.d[k] = expected_sequence(form)

    def setdefault(self, k, form):
        if k not in self.d:
            self.d[k] = expected_sequence(form)

    def delete(self, k):
        self.d.pop(k, None)

    def pairs(self):
        return [[k, list(v)] for k, v in self.d.items()]


def view_ok(stored, seen):
    """always_return_list=False 'only changes how single-item lists are viewed'.
    Returns (ok, changed): the view of anything that is not a one-item sequence must be the stored value;
    a one-item sequence may be shown as that sequence or as its only item."""
    st = list(stored)
    if isinstance(seen, (list, tuple)) and list(seen) == st:
        return True, False
    if len(st) == 1 and isinstance(seen, str) and seen == st[0]:
        return True, True
    return False, False


# --- merge_attributes ----------------------------------------------------------
def values_of(v):
    """The values an argument contributes for one key (a scalar string counts as one value)."""
    return [v] if isinstance(v, str) else list(v)


def union(a_pairs, b_pairs):
    out = {}
    for pairs in (a_pairs, b_pairs):
        for k, v in pairs:
            out.setdefault(k, set()).update(values_of(v))
    return out


def merge_partner(pairs):
    """A second argument for merge_attributes derived from a mapping [[key, [values]]]: its first key with the first of
    its values again plus one more value, and one key of its own."""
    out = []
    if pairs:
        k, v = pairs[0]
        out.append([k, list(v[:1]) + ["merged-in"]])
    used = set(k for k, _ in pairs)
    new = "merged_only"
    while new in used:
        new += "_"
    out.append([new, ["m2", "m1", "m2"]])
    return out


def _float_or_none(s):
    try:
        return float(s)
    except ValueError:
        return None


def number_class(values):
    """'numeric'  : every value is a number in everybody's reading (STRICT_NUMBER and finite);
       'text'     : at least one value is not a number in anybody's reading (float() refuses it);
       'unclear'  : otherwise ('nan', 'inf', '1_0', ' 1', non-ASCII digits, overflowing exponents ...):
                    the statement does not say whether these are 'numbers' nor how they order."""
    if not values:
        return "numeric"  # vacuous: any order of nothing
    fl = [_float_or_none(v) for v in values]
    if any(f is None for f in fl):
        return "text"
    if all(STRICT_NUMBER.match(v) and math.isfinite(f) for v, f in zip(values, fl)):
        return "numeric"
    return "unclear"


def judge_merge(result_pairs, a_pairs, b_pairs, numeric_sort):
    """result_pairs: [[k, value]] as returned.  Returns (why or None, detail, per-key classes seen)."""
    exp = union(a_pairs, b_pairs)
    got = {}
    for k, v in result_pairs:
        if k in got:
            return "a key is returned twice", {"key": k}, []
        got[k] = v
    if set(got) != set(exp):
        return "keys of the result are not the union of the arguments' keys", {"got": sorted(got), "expected": sorted(exp)}, []
    classes = []
    for k, want in exp.items():
        v = got[k]
        d = {"key": k, "got": repr(v), "union": sorted(want)}
        if not is_sequence_of_str(v):
            return "a merged value is not a sequence of strings", d, classes
        v = list(v)
        if len(set(v)) != len(v):
            return "a merged value contains duplicates", d, classes
        if set(v) != want:
            return "a merged value is not the union of both arguments' values", d, classes
        cls = number_class(sorted(want)) if numeric_sort else "plain"
        classes.append(cls)
        if cls in ("text", "plain"):
            if v != sorted(want):
                return "a merged value is not sorted", d, classes
        elif cls == "numeric":
            fl = [float(x) for x in v]
            if any(fl[i] > fl[i + 1] for i in range(len(fl) - 1)):
                return "an all-number merged value is not in numeric order under numeric_sort", d, classes
        # 'unclear': elements and duplicate-freeness only
    return None, None, classes


# --- one object, edited between observations (kind edit) and scalar JSON texts (kind sjson) ---------------------------
COLUMN_NAMES = ["seqid", "source", "featuretype", "start", "end", "score", "strand", "frame"]
# characters every GFF3 reader expects percent-encoded inside a value
_MUST_ENCODE = {"%": "%25", ";": "%3B", "=": "%3D", "&": "%26", ",": "%2C", "\t": "%09", "\n": "%0A", "\r": "%0D"}


def column_texts(cols):
    """The first eight fields of the line describing a feature with these column values (None coordinate = '.')."""
    return ["." if (c is None and i in (3, 4)) else str(c) for i, c in enumerate(cols)]


def render_line(cols, pairs, fmt):
    """The 'proper line' of a feature: columns + attributes [[key, [values]]] in the plain form of the format
    (GFF3: k=v1,v2;flag with reserved characters percent-encoded; GTF: k "v1,v2"; empty list = k "";)."""
    parts = []
    if fmt == "gtf":
        for k, v in pairs:
            parts.append('%s "%s";' % (k, ",".join(v)))
        attr = " ".join(parts)
    else:
        for k, v in pairs:
            enc = ["".join(_MUST_ENCODE.get(c, c) for c in x) for x in v]
            parts.append(k + "=" + ",".join(enc) if enc else k)
        attr = ";".join(parts)
    return "\t".join(column_texts(cols) + [attr])


INPLACE = ["append", "extend", "pop", "pop0", "setitem0", "setitem_last", "insert0", "remove_first", "reverse", "iadd",
           "clear", "sort", "slice_assign", "del0"]


def inplace_result(values, what, args):
    """What a Python list holding `values` holds after the in-place operation; None = the operation does not apply
    (empty list) and is not carried out."""
    v = list(values)
    args = list(args)
    if what == "append":
        v.append(args[0])
    elif what in ("extend", "iadd"):
        v.extend(args)
    elif what == "insert0":
        v.insert(0, args[0])
    elif what == "reverse":
        v.reverse()
    elif what == "sort":
        v.sort()
    elif what == "clear":
        del v[:]
    elif what == "slice_assign":
        v[:] = args
    elif not v:
        return None
    elif what == "pop":
        v.pop()
    elif what in ("pop0", "del0", "remove_first"):
        del v[0]
    elif what == "setitem0":
        v[0] = args[0]
    elif what == "setitem_last":
        v[-1] = args[0]
    else:
        raise ValueError(what)
    return v


def do_inplace(lst, what, args):
    """The same operation carried out on a real list object (the one handed out by the code under test)."""
    args = list(args)
    if what == "append":
        lst.append(args[0])
    elif what == "extend":
        lst.extend(args)
    elif what == "iadd":
        lst += args
    elif what == "insert0":
        lst.insert(0, args[0])
    elif what == "reverse":
        lst.reverse()
    elif what == "sort":
        lst.sort()
    elif what == "clear":
        del lst[:]
    elif what == "slice_assign":
        lst[:] = args
    elif what == "pop":
        lst.pop()
    elif what == "pop0":
        lst.pop(0)
    elif what == "del0":
        del lst[0]
    elif what == "remove_first":
        lst.remove(lst[0])
    elif what == "setitem0":
        lst[0] = args[0]
    elif what == "setitem_last":
        lst[-1] = args[0]
    else:
        raise ValueError(what)


def scalar_json(items, style=0):
    """JSON text of a mapping [[key, form]] in which a scalar form is written as a JSON string (not a list).
    style: 0 compact, 1 default separators, 2 compact + non-ASCII kept, 3 indented."""
    import json

    obj = {}
    for k, form in items:
        obj[k] = form[1] if form[0] == "scalar" else list(form[1])
    if style == 1:
        return json.dumps(obj)
    if style == 2:
        return json.dumps(obj, separators=(",", ":"), ensure_ascii=False)
    if style == 3:
        return json.dumps(obj, indent=1)
    return json.dumps(obj, separators=(",", ":"))


def list_json(items):
    import json

    return json.dumps({k: expected_sequence(form) for k, form in items}, separators=(",", ":"))


PLAIN_DIALECT = {
    "gff3": {"leading semicolon": False, "trailing semicolon": False, "quoted GFF2 values": False, "field separator": ";",
             "keyval separator": "=", "multival separator": ",", "fmt": "gff3", "repeated keys": False},
    "gtf": {"leading semicolon": False, "trailing semicolon": True, "quoted GFF2 values": True, "field separator": "; ",
            "keyval separator": " ", "multival separator": ",", "fmt": "gtf", "repeated keys": False},
}


def read_attributes(text, fmt):
    """Reference reader of an attribute column written in the plain form of the format (see render_line):
    [[key, [values]]], or None when the text is not of that form."""
    from urllib.parse import unquote

    out = []
    if text == "":
        return out
    if fmt == "gtf":
        if not text.endswith(";"):
            return None
        for part in text[:-1].split("; "):
            m = re.match(r'([^ "]+) "([^"]*)"\Z', part)
            if not m:
                return None
            out.append([m.group(1), m.group(2).split(",") if m.group(2) != "" else []])
        return out
    for part in text.split(";"):
        if part == "":
            return None
        if "=" not in part:
            out.append([unquote(part), []])
            continue
        k, v = part.split("=", 1)
        if "=" in v or v == "":
            return None
        out.append([unquote(k), [unquote(x) for x in v.split(",")]])
    return out


# --- near-equal printed lines (kind eq) ------------------------------------------------------------------------------
# characters a careless comparison might strip or ignore at the ends of a line
BLANKS = (" \t\n\r\x0b\x0c\x1c\x1d\x1e\x1f\x85\xa0\u1680\u2000\u2001\u2002\u2003\u2004\u2005\u2006\u2007\u2008\u2009\u200a"
          "\u2028\u2029\u202f\u205f\u3000\ufeff\u200b")


def near_keys(line):
    """The line under the transformations that define the near relations (computed once per line)."""
    import unicodedata

    r = line.rstrip(BLANKS)
    return (r, line.rstrip("\t"), r.lstrip(BLANKS), line.casefold(), unicodedata.normalize("NFC", line))


def near_relations(a, b, ka=None, kb=None):
    """Ways in which two DIFFERENT printed lines are nearly the same text (for the monitors; the statement's rule is
    plain: different lines = unequal features)."""
    out = []
    if a == b:
        return out
    ka = ka or near_keys(a)
    kb = kb or near_keys(b)
    if ka[0] == kb[0]:
        out.append("trailing whitespace-like characters")
        if ka[1] == kb[1]:
            out.append("an empty trailing column")
    elif ka[2] == kb[2]:
        out.append("leading whitespace-like characters")
    if ka[3] == kb[3]:
        out.append("letter case")
    if ka[4] == kb[4]:
        out.append("Unicode normalisation form")
    return out
