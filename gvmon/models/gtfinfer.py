"""
Reference model of GTF gene/transcript inference (C03), written from the property statement.  Never imports gffutils.

Input: the feature lines of a GTF file as records (gvmon/gen/records.py format), the names of the transcript/gene
attributes and the subfeature type ("exon").  Output: which derived features must exist (with which columns), which
must not, and the exact relation triples.

Names: a `gene`/`transcript` line present in the file is the feature under its gene_id/transcript_id ("stay the single
feature under their id"); every other line is known here as "@<line index>" (its database id is not part of the
statement; the check maps lines to stored features through a unique marker attribute).
"""
from collections import defaultdict


def attr(rec, key):
    for k, v in rec["attrs"]:
        if k == key:
            return v[0] if v else None
    return None


def expect(lines, tkey="transcript_id", gkey="gene_id", subfeature="exon", dit=False, dig=False):
    names = []
    explicit = {}            # id -> line index of the gene/transcript line present in the file
    kind = {}
    for i, rec in enumerate(lines):
        ft = rec["featuretype"]
        t, g = attr(rec, tkey), attr(rec, gkey)
        if ft == "transcript" and t is not None:
            names.append(t)
            explicit[t] = i
            kind[t] = "transcript"
        elif ft == "gene" and g is not None:
            names.append(g)
            explicit[g] = i
            kind[g] = "gene"
        else:
            names.append("@%d" % i)
    triples = set()
    sub_t, sub_g = defaultdict(list), defaultdict(list)
    all_t, all_g = set(), set()
    for i, rec in enumerate(lines):
        ft = rec["featuretype"]
        t, g = attr(rec, tkey), attr(rec, gkey)
        n = names[i]
        if n == g and ft == "gene":
            all_g.add(g)
            continue                      # a gene line: nobody's child
        if n == t and ft == "transcript":
            all_t.add(t)
            if g is not None:
                all_g.add(g)
                triples.add((g, t, 1))    # a transcript line: level-1 child of its gene, nothing else
            continue
        # "every other line carrying these ids"
        if t is None or g is None:
            raise ValueError("generator contract: line %d carries only one of the two ids" % i)
        all_t.add(t)
        all_g.add(g)
        triples.update([(t, n, 1), (g, n, 2), (g, t, 1)])
        if ft == subfeature:
            sub_t[t].append(rec)
            sub_g[g].append(rec)

    def extent(recs, ft):
        seqids = {r["seqid"] for r in recs}
        strands = {r["strand"] for r in recs}
        if len(seqids) != 1:
            raise ValueError("generator contract: subfeatures of one transcript/gene share their seqid")
        # exons on both strands (sense/antisense transcripts under one gene id, a trans-spliced transcript): the statement
        # fixes the extent and the seqid; "the exons' strand" is not defined -> strand None = not judged
        return {"featuretype": ft, "seqid": seqids.pop(), "strand": strands.pop() if len(strands) == 1 else None,
                "start": min(int(r["start"]) for r in recs), "end": max(int(r["end"]) for r in recs)}

    derived, suppressed = {}, set()
    for t, recs in sub_t.items():
        if t in explicit:
            continue
        if dit:
            suppressed.add(t)
        else:
            derived[t] = extent(recs, "transcript")
    for g, recs in sub_g.items():
        if g in explicit:
            continue
        if dig:
            suppressed.add(g)
        else:
            derived[g] = extent(recs, "gene")
    # ids for which the statement promises neither a derived feature nor its absence
    optional = {t for t in all_t if t not in sub_t and t not in explicit} | \
               {g for g in all_g if g not in sub_g and g not in explicit}
    return {"names": names, "explicit": explicit, "kind": kind, "triples": triples, "derived": derived,
            "suppressed": suppressed, "optional": optional}
