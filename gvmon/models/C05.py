"""
Sequential reference model of the five merge strategies, written from the statement of C05.  Never imports gffutils.

record = {seqid, source, featuretype, start, end, score, strand, frame (str as written), attrs: [[key, [values]], ...],
          extra: [10th, 11th, ... tab-separated fields]}
An arrival is (key, record); the key is what id_spec derives (here: the single value of the id attribute).
"""
COLS = ("seqid", "source", "featuretype", "start", "end", "score", "strand", "frame")
FORCEABLE = ("seqid", "source", "featuretype", "score", "strand", "frame")
STRATEGIES = ("error", "warning", "replace", "create_unique", "merge")


class Abort(Exception):
    """merge_strategy='error': the import aborts."""


class Silent(Exception):
    """The statement does not fix the outcome (fresh '<key>_n' already taken by another feature, two agreeing candidates)."""


def subsets(fields=FORCEABLE):
    out = []
    for m in range(1 << len(fields)):
        out.append([f for i, f in enumerate(fields) if m >> i & 1])
    return out


def far_apart(a, b, gap=1000000):
    """Two features with defined coordinates that start >= `gap` bases apart (certainly not in one small genomic bin)."""
    try:
        return abs(int(a["start"]) - int(b["start"])) >= gap
    except ValueError:
        return False


class Entry(object):
    __slots__ = ("cols", "forced", "attrs", "arrivals", "merged", "rec", "extra")

    def __init__(self, rec, force, arrival):
        self.cols = dict((c, rec[c]) for c in COLS)
        # forced columns: the set of values seen (of the features united under this key)
        self.forced = dict((c, set([rec[c]])) for c in force)
        self.attrs = dict((k, list(v)) for k, v in rec["attrs"])
        self.arrivals = [arrival]
        self.merged = False
        self.rec = rec                              # the arrival itself: while not merged the stored feature IS this line
        self.extra = list(rec.get("extra") or [])   # fields after the attribute column


class Store(object):
    """State of the database as the statement describes it."""

    def __init__(self, strategy, force=(), link_keys=()):
        assert strategy in STRATEGIES
        self.strategy = strategy
        self.force = list(force)
        self.link_keys = tuple(link_keys)   # (label, attribute key that carries the links); only for the statistics
        self.feats = {}     # key -> Entry        (insertion order = filing order)
        self.spawn = {}     # key -> [fresh keys filed because of this key]   ('merge' only)
        self.n = {}         # key -> last n used for '<key>_n'
        self.log = []       # one word per arrival: what happened to it
        self.count = 0
        self.batch = 0      # index of the import run (0 = create_db) the next arrival belongs to
        self.runs = []      # per arrival: index of the import run
        self.moved = set()  # keys under which 'replace' put a feature >= 1 Mb away from the one it replaced
        self.stats = {}     # what the history exercised (valueless keys met in a union, '.' coordinates in a collision)
        self.autoid = {}    # featuretype -> number of features filed under an auto-numbered '<featuretype>_<n>' so far

    def key_of(self, rec, idkey, keyspec=None):
        """The key id_spec derives for the feature -> (key, featuretype whose auto-number it uses or None).
        keyspec None: the single value of the id attribute.  {"form": "field", "field": c}: the column c (':c:');
        {"form": "callable", "cols": [...]}: the columns joined by ':' (what the callable returns);
        {"form": "autoid"}: the value of the id attribute, without one '<featuretype>_<n>' (n-th such feature of the type)."""
        attrs = dict((k, v) for k, v in rec["attrs"])
        form = (keyspec or {}).get("form")
        if form == "field":
            return rec[keyspec["field"]], None
        if form == "callable":
            return ":".join(rec[c] for c in keyspec["cols"]), None
        if form == "autoid":
            if attrs.get(idkey):
                return attrs[idkey][0], None
            ft = rec["featuretype"]
            return "%s_%d" % (ft, self.autoid.get(ft, 0) + 1), ft
        return attrs[idkey][0], None

    def arrive_rec(self, rec, idkey, keyspec=None):
        key, auto = self.key_of(rec, idkey, keyspec)
        out = self.arrive(key, rec)          # Abort / Silent: nothing changed
        if auto is not None:
            self.autoid[auto] = self.autoid.get(auto, 0) + 1
            self._stat("features filed under an auto-numbered key")
        return out

    def _stat(self, name):
        self.stats[name] = self.stats.get(name, 0) + 1

    def _log(self, word):
        self.log.append(word)
        self.runs.append(self.batch)

    def collision_runs(self):
        """Import runs (0 = create_db, i = i-th update) in which some arrival met an occupied key."""
        return sorted(set(r for r, w in zip(self.runs, self.log) if w != "new"))

    def _fresh(self, key):
        n = self.n.get(key, 0) + 1
        new = "%s_%d" % (key, n)
        if new in self.feats:
            raise Silent("fresh key %r is already the key of another feature" % new)
        self.n[key] = n
        return new

    def agrees(self, entry, rec):
        return all(entry.cols[c] == rec[c] for c in COLS if c not in self.force)

    def arrive(self, key, rec):
        """File one feature; returns the key it ends up under (None = ignored).  Raises Abort / Silent before any change."""
        self.count += 1
        arrival = self.count
        st = self.strategy
        if key not in self.feats:
            self.feats[key] = Entry(rec, self.force if st == "merge" else (), arrival)
            self._log("new")
            return key
        for c in ("start", "end"):
            a, b = self.feats[key].cols[c], rec[c]
            if a == "." and b == ".":
                self._stat("collision: %s is '.' on both (columns agree)" % c)
            elif a == "." or b == ".":
                self._stat("collision: %s is '.' on one side only (columns differ)" % c)
        old = self.feats[key]
        if not old.attrs:
            self._stat("%s: the stored feature of a collision has no attributes at all" % st)
        if not rec["attrs"]:
            self._stat("%s: the newcomer of a collision has no attributes at all" % st)
        if old.extra != list(rec.get("extra") or []):
            self._stat("%s: colliding arrivals differ in their extra columns" % st)
        if far_apart(old.cols, rec):
            self._stat("%s: colliding arrivals lie >= 1 Mb apart" % st)
        if st == "error":
            raise Abort(key)
        if st == "warning":
            self._log("ignored")
            return None
        if st == "replace":
            for label, lk in self.link_keys:
                if self.feats[key].attrs.get(lk) != dict((k, v) for k, v in rec["attrs"]).get(lk):
                    self._stat("replace: the replacement names a different %s parent" % label)
            if far_apart(old.cols, rec):
                self.moved.add(key)
            self.feats[key] = Entry(rec, (), arrival)     # keeps the last
            self._log("replaced")
            return key
        if st == "create_unique":
            new = self._fresh(key)
            self.feats[new] = Entry(rec, (), arrival)
            self._log("unique")
            return new
        # ---- merge
        cands = [key] + list(self.spawn.get(key, []))
        agreeing = [c for c in cands if self.agrees(self.feats[c], rec)]
        if any(self.feats[c].extra != list(rec.get("extra") or []) for c in agreeing):
            # are the fields after the attribute column among the "other columns" that must agree?
            raise Silent("merge of features whose extra columns differ")
        if len(agreeing) > 1:
            raise Silent("two candidates agree with the newcomer")
        if not agreeing:
            new = self._fresh(key)
            self.feats[new] = Entry(rec, self.force, arrival)
            self.spawn.setdefault(key, []).append(new)
            self._log("spawned" if cands == [key] else "spawned past %d candidates" % len(cands))
            return new
        tgt = agreeing[0]
        e = self.feats[tgt]
        self._repeat_stats(e, rec)
        where = "create_db" if self.batch == 0 else "update()"
        if self.force and any(rec[c] not in e.forced[c] for c in self.force):
            if not e.attrs:
                self._stat("merge into a stored feature without attributes, a forced column brings a new value")
                self._stat("merge into a stored feature without attributes, a forced column brings a new value (%s)" % where)
            elif not rec["attrs"]:
                self._stat("merge of a newcomer without attributes, a forced column brings a new value")
            else:
                self._stat("merge of features with attributes, a forced column brings a new value")
        new = dict((k, v) for k, v in rec["attrs"])
        for k in set(new) | set(e.attrs):
            old_v, new_v = e.attrs.get(k), new.get(k)
            if old_v == [] and new_v is None:
                self._stat("union: valueless key on the stored feature only")
            elif new_v == [] and old_v is None:
                self._stat("union: valueless key on the newcomer only")
            elif old_v == [] and new_v == []:
                self._stat("union: valueless key on both")
            elif old_v == [] or new_v == []:
                self._stat("union: valueless key meets the same key with values")
        for k, vals in rec["attrs"]:
            have = e.attrs.setdefault(k, [])
            for v in vals:
                if v not in have:
                    have.append(v)
        for k in list(e.attrs):
            e.attrs[k] = [v for i, v in enumerate(e.attrs[k]) if v not in e.attrs[k][:i]]   # union: without repeats
        for c in self.force:
            e.forced[c].add(rec[c])
        e.arrivals.append(arrival)
        e.merged = True
        self._log("merged into key" if tgt == key else "merged into spawn")
        return tgt

    def _repeat_stats(self, e, rec):
        """Statistics only: the newcomer repeats the line stored under the key (verbatim / up to key order / value order);
        value lists that hold a value more than once (the union has it once)."""
        inner = lambda attrs: any(len(set(v)) != len(v) for _, v in attrs)
        stored_inner = any(len(set(v)) != len(v) for v in e.attrs.values())
        if stored_inner:
            self._stat("merge: a value list of the stored feature holds a repeated value (the union has it once)")
        if inner(rec["attrs"]):
            self._stat("merge: a value list of the newcomer holds a repeated value (the union has it once)")
        if e.merged or e.rec is None:
            return
        if any(e.rec[c] != rec[c] for c in COLS) or e.extra != list(rec.get("extra") or []):
            return
        a = [[k, list(v)] for k, v in e.rec["attrs"]]
        b = [[k, list(v)] for k, v in rec["attrs"]]
        norm = lambda x: sorted([k, sorted(v)] for k, v in x)
        if a == b:
            how = "verbatim"
        elif sorted(a) == sorted(b):
            how = "up to the order of the attribute keys"
        elif [[k, sorted(v)] for k, v in a] == [[k, sorted(v)] for k, v in b]:
            how = "up to the order of the values"
        elif norm(a) == norm(b):
            how = "up to the order of keys and values"
        else:
            return
        self._stat("merge: the newcomer repeats the stored line " + how)
        if inner(b):
            self._stat("merge: the newcomer repeats the stored line %s, a value list of the line holds a repeated value" % how)
        if e.extra:
            self._stat("merge: the newcomer repeats the stored line (with extra columns)")

    # ---- what must be in the database ------------------------------------
    def expected(self):
        """key -> {"cols": {col: str | ("tokens", frozenset)}, "attrs": {k: sorted values}, "merged": bool,
        "extra": [fields after the attribute column], "rec": the one arrival the feature is (None once merged)}"""
        out = {}
        for key, e in self.feats.items():
            cols = {}
            for c in COLS:
                if c in e.forced:
                    cols[c] = ("tokens", frozenset(e.forced[c]))
                else:
                    cols[c] = e.cols[c]
            out[key] = {"cols": cols, "attrs": dict((k, sorted(v)) for k, v in e.attrs.items()), "merged": e.merged,
                        "extra": list(e.extra), "rec": None if e.merged else e.rec}
        return out

    def links(self, link_key):
        """Level-1 relations = the link values of the features as finally stored."""
        rows = set()
        for key, e in self.feats.items():
            for p in e.attrs.get(link_key, []):
                if p != key:
                    rows.add((p, key))
        return rows


def run(strategy, force, batches, idkey, link_keys=(), keyspec=None):
    """Feed batches of records.  -> (store, outcome) with outcome = ("ok", None) | ("abort", batch index) |
    ("silent", why)."""
    s = Store(strategy, force, link_keys)
    for bi, batch in enumerate(batches):
        s.batch = bi
        for rec in batch:
            try:
                s.arrive_rec(rec, idkey, keyspec)
            except Abort:
                return s, ("abort", bi)
            except Silent as e:
                return s, ("silent", str(e))
    return s, ("ok", None)
