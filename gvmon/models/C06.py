"""
Reference model for C06 (region and limit queries): a brute-force scan of the model feature list with the
predicates of the statement.  Never imports gffutils.

model feature = {"id", "seqid", "featuretype", "strand", "start", "end", "parents": [ids]}
query         = {"seqid" | None, "start" | None, "end" | None, "within", "strand" | None, "ft": [types] | None}
"""


def overlaps(f, start, end):
    return f["start"] <= end and f["end"] >= start


def is_within(f, start, end):
    return start <= f["start"] and f["end"] <= end


def restricted(f, seqid, strand, ft):
    if seqid is not None and f["seqid"] != seqid:
        return False
    if strand is not None and f["strand"] != strand:
        return False
    if ft is not None and f["featuretype"] not in ft:
        return False
    return True


def universe(features, api, ident):
    """The features a query of this api ranges over before any restriction."""
    if api == "children":
        return [f for f in features if ident in f["parents"]]
    if api == "parents":
        me = [f for f in features if f["id"] == ident]
        ps = set(me[0]["parents"]) if me else set()
        return [f for f in features if f["id"] in ps]
    return features


def expected(feats, seqid, start, end, within, strand=None, ft=None):
    """(lower, upper): ids that MUST be returned, ids that MAY be returned.

    Two bounds: lower == upper == the statement's predicate.
    One bound: 'no feature outside the half-line is returned' (upper = at or beyond the bound) and 'every feature
    extending strictly beyond the bound is' (lower = strictly beyond)."""
    ft = set(ft) if ft is not None else None
    lower, upper = [], []
    for f in feats:
        if not restricted(f, seqid, strand, ft):
            continue
        s, e = f["start"], f["end"]
        if start is not None and end is not None:
            ok = is_within(f, start, end) if within else overlaps(f, start, end)
            lo = up = ok
        elif start is not None:
            # half-line [start, +inf)
            key = s if within else e
            lo, up = key > start, key >= start
        elif end is not None:
            # half-line (-inf, end]
            key = e if within else s
            lo, up = key < end, key <= end
        else:
            raise ValueError("no bound: outside the statement")
        if lo:
            lower.append(f["id"])
        if up:
            upper.append(f["id"])
    return lower, upper


def judge(got_ids, lower, upper):
    """None when lower <= got <= upper with each id once, else a dict describing the difference."""
    seen = {}
    for i in got_ids:
        seen[i] = seen.get(i, 0) + 1
    dup = sorted(i for i, n in seen.items() if n > 1)
    missing = sorted(set(lower) - set(seen))
    extra = sorted(set(seen) - set(upper))
    if not dup and not missing and not extra:
        return None
    return {"missing": missing, "unexpected": extra, "returned twice": dup}
