"""
Reference model of a GFF3 gffutils database under update / delete / add_relation / reopen (C10),
written from the statement.  Never imports gffutils.

state: feats  id -> {"cols": {...8 columns...}, "attrs": [[key, [values]], ...], "unordered": bool}
       rels   set of (parent, child, level)
       counters  base -> last n handed out
"""
import copy


class Model(object):
    def __init__(self):
        self.feats = {}
        self.rels = set()
        self.optional = set()      # relation rows the statement neither demands nor forbids
        self.counters = {}
        self.dups = {}             # key requested by the id spec -> keys of the features filed under '<key>_n' because of it
        self.ever = set()          # every key ever stored (freshness monitor)
        self.manual = set()        # relation rows added by hand (add_relation)

    def clone(self):
        return copy.deepcopy(self)

    # -- ids --------------------------------------------------------------
    def auto(self, base):
        self.counters[base] = self.counters.get(base, 0) + 1
        return "%s_%d" % (base, self.counters[base])

    def key_for(self, rec):
        d = dict((k, v) for k, v in rec["attrs"])
        if "ID" in d and d["ID"]:
            return d["ID"][0], False
        return self.auto(rec["cols"]["featuretype"]), True

    # -- operations ---------------------------------------------------------
    def insert(self, key, rec, unordered=False):
        self.feats[key] = {"cols": dict(rec["cols"]), "attrs": [[k, list(v)] for k, v in rec["attrs"]],
                           "unordered": unordered}
        self.ever.add(key)

    def update(self, recs, strategy):
        """Returns the list of (stored key, was_auto_generated) for the batch."""
        out = []
        for rec in recs:
            key, auto = self.key_for(rec)
            stored = key
            if key not in self.feats:
                self.insert(key, rec)
            elif strategy == "create_unique":
                stored = self.auto(key)
                auto = True
                self.insert(stored, rec)
            elif strategy == "replace":
                self.insert(key, rec)
            elif strategy == "merge":
                # candidates: the feature under the key and the features filed under '<key>_n' because of this key
                cands = [key] + [d for d in self.dups.get(key, []) if d in self.feats]
                agree = [c for c in cands if self.feats[c]["cols"] == rec["cols"]]
                if len(agree) > 1:
                    raise NotImplementedError("two candidates agree with the newcomer (not generated)")
                if not agree:
                    stored = self.auto(key)
                    auto = True
                    self.insert(stored, rec)
                    self.dups.setdefault(key, []).append(stored)
                    for k, v in rec["attrs"]:
                        if k == "Parent":
                            for p in v:
                                self.rels.add((p, stored, 1))
                    out.append((stored, auto))
                    continue
                stored = agree[0]
                old = self.feats[stored]
                merged = []
                seen = {}
                for k, v in rec["attrs"] + old["attrs"]:
                    if k not in seen:
                        seen[k] = []
                        merged.append([k, seen[k]])
                    for x in v:
                        if x not in seen[k]:
                            seen[k].append(x)
                old["attrs"] = merged
                old["unordered"] = True
            elif strategy == "warning":
                out.append((None, False))
                continue
            else:
                raise ValueError("duplicate key %r under strategy %r" % (key, strategy))
            for k, v in rec["attrs"]:
                if k == "Parent":
                    for p in v:
                        self.rels.add((p, stored, 1))
            out.append((stored, auto))
        self.recompute_level2()
        return out

    def recompute_level2(self):
        """update adds second-level relations: compositions of two first-level edges."""
        l1 = {}
        for p, c, l in self.rels:
            if l == 1:
                l1.setdefault(p, set()).add(c)
        for p, cs in l1.items():
            for c in cs:
                for g in l1.get(c, ()):
                    row = (p, g, 2)
                    if p in self.feats:
                        self.rels.add(row)
                    else:
                        self.optional.add(row)   # grandparent that is not a stored feature: unobservable through the API

    def delete(self, ids):
        for i in ids:
            self.feats.pop(i, None)
            self.rels = set(r for r in self.rels if r[0] != i and r[1] != i)
            self.optional = set(r for r in self.optional if r[0] != i and r[1] != i)

    def add_relation(self, parent, child, level, parent_edit=None, child_edit=None):
        """parent_edit/child_edit: {"cols": {...}, "attrs": [[k, [v]], ...]} written back by the caller's hook functions."""
        self.rels.add((parent, child, level))
        self.manual.add((parent, child, level))
        for key, edit in ((parent, parent_edit), (child, child_edit)):
            if edit:
                f = self.feats[key]
                f["cols"].update(edit.get("cols", {}))
                for k, v in edit.get("attrs", []):
                    for kv in f["attrs"]:
                        if kv[0] == k:
                            kv[1] = list(v)
                            break
                    else:
                        f["attrs"].append([k, list(v)])

    # -- comparison -----------------------------------------------------------
    def compare(self, dump):
        """None if the content dump equals the model, else a description."""
        got = {f["id"]: f for f in dump["features"]}
        if len(got) != len(dump["features"]):
            return {"why": "duplicate primary keys in the features table"}
        if set(got) != set(self.feats):
            return {"why": "stored feature ids differ from the model", "only_db": sorted(set(got) - set(self.feats)),
                    "only_model": sorted(set(self.feats) - set(got))}
        for key, m in self.feats.items():
            g = got[key]
            cols = {k: g[k] for k in ("seqid", "source", "featuretype", "start", "end", "score", "strand", "frame")}
            if cols != m["cols"]:
                return {"why": "columns of %r differ from the model" % key, "db": cols, "model": m["cols"]}
            ga = g["attributes"]
            if m["unordered"]:
                a = sorted([k, sorted(v)] for k, v in ga)
                b = sorted([k, sorted(v)] for k, v in m["attrs"])
            else:
                a, b = ga, m["attrs"]
            if a != b:
                return {"why": "attributes of %r differ from the model" % key, "db": ga, "model": m["attrs"]}
        rel = set(tuple(r) for r in dump["relations"])
        missing = self.rels - rel
        extra = rel - self.rels - self.optional
        if missing or extra:
            return {"why": "relations differ from the model", "missing_in_db": sorted(missing)[:8], "unexpected_in_db": sorted(extra)[:8]}
        self.optional &= rel
        for base, n in self.counters.items():
            if dump["autoincrements"].get(base, 0) < n and False:
                return {"why": "persisted counter behind the model", "base": base}
        return None
