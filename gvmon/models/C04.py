"""
Reference derivation of primary keys from id_spec, written from the statement of C04.  Never imports gffutils.

record = {seqid, source, featuretype, start, end, score, strand, frame (str as written), attrs: [[key, [values]], ...]}

id_spec is carried in cases as a tagged, JSON-able description:
    {"form": "none"}                          default of the format
    {"form": "str",  "v": "ID" | ":seqid:"}   one attribute name or one ':column:' spec
    {"form": "list", "v": ["ID", "Name", ":source:"]}
    {"form": "dict", "v": {"gene": "ID", "exon": ["Name", "Alias"]}}
    {"form": "callable", "v": <name in CALLABLES>}
"""
COLUMNS = ("seqid", "source", "featuretype", "start", "end", "score", "strand", "frame")
AUTO = "autoincrement:"


class MultiValued(Exception):
    """The spec reaches an id attribute that carries several values: the import must be rejected."""


class Silent(Exception):
    """The statement does not say what the key is (listed attribute present without a value, ...)."""


def default_spec(fmt):
    if fmt == "gtf":
        return {"form": "dict", "v": {"gene": "gene_id", "transcript": "transcript_id"}}
    return {"form": "str", "v": "ID"}


def attrs_of(rec):
    return dict((k, list(v)) for k, v in rec["attrs"])


# -- the callables: one definition over the neutral view {column..., "attrs": {k: [v]}}; the check wraps the same
#    function for the real Feature, so both sides agree on the callable's *return value* by construction and what
#    is judged is what the importer makes of it.
def _c_always_none(v):
    return None


def _c_name_attr(v):
    vals = v["attrs"].get("Name")
    return vals[0] if vals else None


def _c_autoincrement_seqid(v):
    return AUTO + v["seqid"]


def _c_autoincrement_seqid_strand(v):
    # the counter base itself contains a colon ("chr1:+")
    return AUTO + v["seqid"] + ":" + v["strand"]


def _c_autoincrement_const(v):
    return AUTO + "feat"


def _c_composite(v):
    return "%s:%s-%s" % (v["seqid"], v["start"], v["end"])


def _c_mixed(v):
    ft = v["featuretype"]
    if ft in ("gene", "mRNA", "transcript"):
        vals = v["attrs"].get("ID")
        return vals[0] if vals else None
    if ft == "exon":
        return AUTO + "ex." + v["seqid"]
    if ft == "CDS":
        return None
    return "%s@%s" % (ft, v["start"])


CALLABLES = {
    "always_none": _c_always_none,
    "name_attr": _c_name_attr,
    "autoincrement_seqid": _c_autoincrement_seqid,
    "autoincrement_const": _c_autoincrement_const,
    "autoincrement_seqid_strand": _c_autoincrement_seqid_strand,
    "composite": _c_composite,
    "mixed": _c_mixed,
}


def view_of(rec):
    v = {c: rec[c] for c in COLUMNS}
    v["attrs"] = attrs_of(rec)
    return v


def column_of(k):
    """':seqid:' -> 'seqid'; None when k is an attribute name."""
    if len(k) > 2 and k[0] == ":" and k[-1] == ":" and k[1:-1] in COLUMNS:
        return k[1:-1]
    return None


class Deriver(object):
    """Keys in input order; own counters.  key(rec) -> (key, branch) | raises MultiValued / Silent."""

    def __init__(self, spec, fmt):
        self.spec = default_spec(fmt) if spec["form"] == "none" else spec
        self.counters = {}

    def fresh(self, base):
        n = self.counters.get(base, 0) + 1
        self.counters[base] = n
        return "%s_%d" % (base, n)

    def key(self, rec):
        spec = self.spec
        ft = rec["featuretype"]
        if spec["form"] == "callable":
            r = CALLABLES[spec["v"]](view_of(rec))
            if r is None:
                return self.fresh(ft), "callable:None->fallback"
            if r.startswith(AUTO):
                return self.fresh(r[len(AUTO):]), "callable:autoincrement"
            return r, "callable:string"
        if spec["form"] == "str":
            listed, miss = [spec["v"]], "fallback"
        elif spec["form"] == "list":
            listed, miss = list(spec["v"]), "fallback"
        elif spec["form"] == "dict":
            if ft not in spec["v"]:
                return self.fresh(ft), "dict:no entry->fallback"
            e = spec["v"][ft]
            listed, miss = ([e] if isinstance(e, str) else list(e)), "dict:entry absent->fallback"
        else:
            raise ValueError(spec)
        attrs = attrs_of(rec)
        for pos, k in enumerate(listed):
            col = column_of(k)
            if col is not None:
                return str(rec[col]), "column"
            if k in attrs:
                vals = attrs[k]
                if len(vals) > 1:
                    raise MultiValued(k)
                if len(vals) == 0:
                    raise Silent("listed attribute %r present without a value" % k)
                return vals[0], ("attribute#%d" % min(pos, 2))
        return self.fresh(ft), miss


def derive_all(spec, fmt, recs, deriver=None):
    """-> {"outcome": "keys"|"reject"|"silent", "keys": [...], "branches": [...], "why": str, "deriver": Deriver}"""
    d = deriver or Deriver(spec, fmt)
    keys, branches = [], []
    for i, rec in enumerate(recs):
        try:
            k, b = d.key(rec)
        except MultiValued as e:
            return {"outcome": "reject", "keys": keys, "branches": branches + ["multi-valued->reject"],
                    "why": "line %d: id attribute %s has several values" % (i, e), "deriver": d}
        except Silent as e:
            return {"outcome": "silent", "keys": keys, "branches": branches, "why": str(e), "deriver": d}
        keys.append(k)
        branches.append(b)
    return {"outcome": "keys", "keys": keys, "branches": branches, "why": "", "deriver": d}
