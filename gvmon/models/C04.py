"""
Reference derivation of primary keys from id_spec, written from the statement of C04.  Never imports gffutils.

record = {seqid, source, featuretype, start, end, score, strand, frame (str as written), attrs: [[key, [values]], ...]}

id_spec is carried in cases as a tagged, JSON-able description:
    {"form": "none"}                          default of the format
    {"form": "str",  "v": "ID" | ":seqid:"}   one attribute name or one ':column:' spec
    {"form": "list", "v": ["ID", "Name", ":source:"]}
    {"form": "dict", "v": {"gene": "ID", "exon": ["Name", "Alias"]}}
        optional "cls": the dict (sub)class handed over - "dict" (default) | "ordered" (collections.OrderedDict) |
        "subclass" (class D(dict): pass) | "defaultdict" (with "default": the entry its default_factory returns) |
        "missing" (dict subclass with __missing__; "missing": {featuretype: entry} it computes, KeyError otherwise) |
        "getitem" (dict subclass whose __getitem__ / get / __contains__ alias featuretypes: "alias": {featuretype: item key})
        The per-featuretype entry is whatever the dict gives for that featuretype (dict_entry below).
        optional "tuples": [featuretypes whose (non-string) item is handed over as a TUPLE of names instead of a list]; a
        {"form": "list"} spec may carry "seq": "tuple" (the whole id_spec is a tuple).  'list or tuple': same meaning.
    {"form": "callable", "v": <name in CALLABLES>}
"""
COLUMNS = ("seqid", "source", "featuretype", "start", "end", "score", "strand", "frame")
AUTO = "autoincrement:"


class MultiValued(Exception):
    """The spec reaches an id attribute that carries several values: the import must be rejected."""


class Silent(Exception):
    """The statement does not say what the key is (listed attribute present without a value, ...)."""


def default_spec(fmt):
    if fmt == "gtf":
        return {"form": "dict", "v": {"gene": "gene_id", "transcript": "transcript_id"}}
    return {"form": "str", "v": "ID"}


def attrs_of(rec):
    return dict((k, list(v)) for k, v in rec["attrs"])


# -- the callables: one definition over the neutral view {column..., "attrs": {k: [v]}}; the check wraps the same
#    function for the real Feature, so both sides agree on the callable's *return value* by construction and what
#    is judged is what the importer makes of it.
def _c_always_none(v):
    return None


def _c_name_attr(v):
    vals = v["attrs"].get("Name")
    return vals[0] if vals else None


def _c_autoincrement_seqid(v):
    return AUTO + v["seqid"]


def _c_autoincrement_seqid_strand(v):
    # the counter base itself contains a colon ("chr1:+")
    return AUTO + v["seqid"] + ":" + v["strand"]


def _c_autoincrement_const(v):
    return AUTO + "feat"


def _c_composite(v):
    return "%s:%s-%s" % (v["seqid"], v["start"], v["end"])


def _c_mixed(v):
    ft = v["featuretype"]
    if ft in ("gene", "mRNA", "transcript"):
        vals = v["attrs"].get("ID")
        return vals[0] if vals else None
    if ft == "exon":
        return AUTO + "ex." + v["seqid"]
    if ft == "CDS":
        return None
    return "%s@%s" % (ft, v["start"])


def _c_id_else_auto_type(v):
    # the feature's ID when it has one, otherwise the explicit counter base <featuretype>
    vals = v["attrs"].get("ID")
    return vals[0] if vals else AUTO + v["featuretype"]


def _c_id_else_auto_x(v):
    # the feature's ID when it has one, otherwise a counter base of its own ("X.chr1")
    vals = v["attrs"].get("ID")
    return vals[0] if vals else AUTO + "X." + v["seqid"]


CALLABLES = {
    "id_else_auto_type": _c_id_else_auto_type,
    "id_else_auto_x": _c_id_else_auto_x,
    "always_none": _c_always_none,
    "name_attr": _c_name_attr,
    "autoincrement_seqid": _c_autoincrement_seqid,
    "autoincrement_const": _c_autoincrement_const,
    "autoincrement_seqid_strand": _c_autoincrement_seqid_strand,
    "composite": _c_composite,
    "mixed": _c_mixed,
}


def view_of(rec):
    v = {c: rec[c] for c in COLUMNS}
    v["attrs"] = attrs_of(rec)
    return v


def looks_special(v):
    """Text that would mean something as the return value of a callable id_spec or as an id_spec entry."""
    return v.lower().startswith("autoincrement") or (len(v) > 2 and v[0] == ":" and v[-1] == ":")


def column_of(k):
    """':seqid:' -> 'seqid'; None when k is an attribute name."""
    if len(k) > 2 and k[0] == ":" and k[-1] == ":" and k[1:-1] in COLUMNS:
        return k[1:-1]
    return None


def dict_entry(spec, ft):
    """The entry a dict id_spec gives for featuretype ft -> (entry | None when the dict has none, how it was supplied)."""
    v = spec["v"]
    cls = spec.get("cls") or "dict"
    if cls == "getitem":
        ft = (spec.get("alias") or {}).get(ft, ft)
        return (v[ft], "aliasing __getitem__") if ft in v else (None, "no item")
    if ft in v:
        return v[ft], "item"
    if cls == "defaultdict":
        return spec["default"], "default_factory"
    if cls == "missing":
        m = spec.get("missing") or {}
        if ft in m:
            return m[ft], "__missing__"
        return None, "__missing__ raised KeyError"
    return None, "no item"


class Deriver(object):
    """Keys in input order; own counters.  key(rec) -> (key, branch) | raises MultiValued / Silent."""

    def __init__(self, spec, fmt):
        self.fmt = fmt
        self.in_tuple = False   # the entry consulted for the last record was handed over as a tuple
        self.use(spec)
        self.counters = {}
        self.stats = {}     # what the derivation exercised (dict subclasses, special-looking attribute values)

    def use(self, spec):
        """(Re)set the id_spec; the counters go on (create_db, then update() under another id_spec)."""
        self.spec = default_spec(self.fmt) if spec["form"] == "none" else spec

    def _stat(self, name):
        self.stats[name] = self.stats.get(name, 0) + 1

    def fresh(self, base):
        n = self.counters.get(base, 0) + 1
        self.counters[base] = n
        return "%s_%d" % (base, n)

    def key(self, rec):
        spec = self.spec
        ft = rec["featuretype"]
        self.in_tuple = False
        if spec["form"] == "callable":
            r = CALLABLES[spec["v"]](view_of(rec))
            if r is None:
                return self.fresh(ft), "callable:None->fallback"
            if r.startswith(AUTO):
                if any(r in vals for vals in attrs_of(rec).values()):
                    self._stat("attribute text 'autoincrement:X' returned by a callable: X_n")
                return self.fresh(r[len(AUTO):]), "callable:autoincrement"
            return r, "callable:string"
        if spec["form"] == "str":
            listed, miss = [spec["v"]], "fallback"
        elif spec["form"] == "list":
            listed, miss = list(spec["v"]), "fallback"
            self.in_tuple = spec.get("seq") == "tuple"
        elif spec["form"] == "dict":
            e, how = dict_entry(spec, ft)
            if (spec.get("cls") or "dict") != "dict":
                self._stat("dict %s: %s" % (spec["cls"], how))
            if e is None:
                return self.fresh(ft), "dict:no entry->fallback"
            listed, miss = ([e] if isinstance(e, str) else list(e)), "dict:entry absent->fallback"
            self.in_tuple = how == "item" and not isinstance(e, str) and ft in (spec.get("tuples") or ())
        else:
            raise ValueError(spec)
        attrs = attrs_of(rec)
        for pos, k in enumerate(listed):
            col = column_of(k)
            if col is not None:
                return str(rec[col]), "column"
            if k in attrs:
                vals = attrs[k]
                if len(vals) > 1:
                    raise MultiValued(k)
                if len(vals) == 0:
                    raise Silent("listed attribute %r present without a value" % k)
                if looks_special(vals[0]):
                    self._stat("attribute value that looks like a callable's special return value is the key")
                if self.in_tuple:
                    self._stat("tuple entries: keys taken from the first listed attribute that is present")
                    if pos >= 1:
                        self._stat("tuple entries: keys taken from the 2nd or later name of a tuple (earlier ones absent)")
                return vals[0], ("attribute#%d" % min(pos, 2))
        if self.in_tuple:
            self._stat("tuple entries: no listed attribute present -> '<featuretype>_<n>'")
        return self.fresh(ft), miss


def derive_all(spec, fmt, recs, deriver=None):
    """-> {"outcome": "keys"|"reject"|"silent", "keys": [...], "branches": [...], "why": str, "deriver": Deriver}"""
    d = deriver or Deriver(spec, fmt)
    keys, branches = [], []
    for i, rec in enumerate(recs):
        try:
            k, b = d.key(rec)
        except MultiValued as e:
            return {"outcome": "reject", "keys": keys, "branches": branches + ["multi-valued->reject"],
                    "why": "line %d: id attribute %s has several values" % (i, e), "deriver": d, "in_tuple": d.in_tuple}
        except Silent as e:
            return {"outcome": "silent", "keys": keys, "branches": branches, "why": str(e), "deriver": d}
        keys.append(k)
        branches.append(b)
    return {"outcome": "keys", "keys": keys, "branches": branches, "why": "", "deriver": d}


def is_auto(branch):
    """The branch handed out a counter-made key ('<featuretype>_<n>' or 'X_<n>')."""
    return "fallback" in branch or branch == "callable:autoincrement"


def resolve(keys, strategy):
    """
    What becomes of features whose keys BY id_spec (in input order, counters never skipping) are `keys`, once equal keys
    collide and the merge strategy decides (statement of C05).  The line whose key is taken is the later arrival, whether
    its key came from an attribute or from a counter.
    -> {"abort": index of the first colliding line under 'error' | None,
        "stored": {key: line index},            what must be stored, and which input line under each key
        "loose": [(key, line index)],           'merge' on lines whose other columns differ: filed under a fresh '<key>_n', n not stated
        "dropped": [line index],                'warning': later arrivals ignored / 'replace': earlier holders overwritten
        "collisions": [(key, first line, later line)]}
    raises Silent when a fresh '<key>_n' of create_unique is the key of another feature.
    """
    stored, loose, dropped, collisions, count = {}, [], [], [], {}
    for i, k in enumerate(keys):
        if k not in stored:
            stored[k] = i
            continue
        collisions.append((k, stored[k], i))
        if strategy == "error":
            return {"abort": i, "stored": stored, "loose": loose, "dropped": dropped, "collisions": collisions}
        if strategy == "warning":
            dropped.append(i)
        elif strategy == "replace":
            dropped.append(stored[k])
            stored[k] = i
        elif strategy == "create_unique":
            count[k] = count.get(k, 0) + 1
            new = "%s_%d" % (k, count[k])
            if new in stored or new in keys:
                raise Silent("fresh '<key>_n' is the key of another feature")
            stored[new] = i
        elif strategy == "merge":
            loose.append((k, i))
        else:
            raise ValueError(strategy)
    return {"abort": None, "stored": stored, "loose": loose, "dropped": dropped, "collisions": collisions}
