"""
Reference model of the feature hierarchy (C02, C03), written from the property statements.  Never imports gffutils.

A hierarchy is a set of triples (parent id, child id, level).  For GFF3 (C02) it is derived from the Parent
attributes of the lines; for GTF (C03) the triples are listed directly by gvmon/models/gtfinfer.py.  Everything a
FeatureDB may return is restricted to *stored* features: an id that only occurs as text (a dangling Parent value, the
transcript_id of a transcript that has no feature) is never a relative.
"""
from collections import defaultdict


# -- C02: GFF3 Parent graph ---------------------------------------------------
def resolve_ids(nodes, order):
    """
    The nodes with the id under which each line is stored when the lines are written in `order` (indices into nodes).

    A line with an ID attribute is stored under that value.  A line without one (node["noid"]) is stored under
    '<featuretype>_<n>', n = 1, 2, ... counting the id-less lines of that featuretype in file order.  Two byte-identical
    id-less lines are therefore two stored features with two ids.  Returns `nodes` itself when every line has an ID.
    """
    if not any(n.get("noid") for n in nodes):
        return nodes
    out = list(nodes)
    count = {}
    for i in order:
        n = nodes[i]
        if n.get("noid"):
            count[n["type"]] = count.get(n["type"], 0) + 1
            out[i] = dict(n, id="%s_%d" % (n["type"], count[n["type"]]))
    return out


def parent_edges(nodes):
    """All (Parent value, id) pairs as written, dangling values included."""
    return {(p, n["id"]) for n in nodes for p in n["parents"]}


def gff3_triples(nodes):
    """
    (triples between stored features, lower bound of the relations table, upper bound of the relations table).

    L1 = Parent edges; L2 = L1 o L1 with a stored feature in the middle (the middle always is one: it has a line that
    names the parent).  Only stored features have relatives.  The table must hold every written Parent pair at level 1
    (a dangling value occurs as `parent` text only) and every level-2 pair of a stored feature; whether a *dangling*
    value also gets level-2 rows is not fixed by the statement (it can never be observed through children()/parents()
    of a stored feature), so those rows form the gap between the two bounds.
    """
    stored = {n["id"] for n in nodes}
    written = parent_edges(nodes)
    kids = defaultdict(set)
    for p, c in written:
        kids[p].add(c)
    comp = {(a, c) for (a, b) in written for c in kids.get(b, ())}
    lower = {(p, c, 1) for p, c in written} | {(a, c, 2) for a, c in comp if a in stored}
    upper = lower | {(a, c, 2) for a, c in comp}
    visible = {(p, c, lv) for p, c, lv in lower if p in stored and c in stored}
    return visible, lower, upper


# -- shared: what children()/parents() must return -------------------------------
class Relatives(object):
    def __init__(self, triples, stored):
        self.stored = set(stored)
        self.down = defaultdict(set)
        self.up = defaultdict(set)
        for p, c, lv in triples:
            if p in self.stored and c in self.stored:
                self.down[(p, lv)].add(c)
                self.up[(c, lv)].add(p)

    def children(self, x, level=None):
        if level is None:
            return self.down.get((x, 1), set()) | self.down.get((x, 2), set())
        return set(self.down.get((x, level), set()))

    def parents(self, x, level=None):
        if level is None:
            return self.up.get((x, 1), set()) | self.up.get((x, 2), set())
        return set(self.up.get((x, level), set()))

    def n_level2(self):
        return sum(len(v) for (x, lv), v in self.down.items() if lv == 2)


# -- brute-force reading of the query arguments (featuretype, limit, order_by, reverse) -------------
def keep(feat, featuretype=None, limit=None, completely_within=False):
    """feat: dict with featuretype/seqid/start/end.  The documented meaning of the filters, one feature at a time."""
    if featuretype:
        if isinstance(featuretype, str):
            if feat["featuretype"] != featuretype:
                return False
        elif feat["featuretype"] not in featuretype:
            return False
    if limit:
        seqid, start, end = limit
        if feat["seqid"] != seqid:
            return False
        if completely_within:
            if not (feat["start"] >= start and feat["end"] <= end):
                return False
        elif not (feat["start"] <= end and feat["end"] >= start):
            return False
    return True


def sort_key(feat, column):
    if column == "length":
        return feat["end"] - feat["start"]
    v = feat[column]
    # text columns: compared as UTF-8 bytes (= code point order)
    return v.encode("utf-8") if isinstance(v, str) else v


def order_holds(feats, order_by, reverse):
    """
    True/False: the sequence of features respects order_by/reverse (ties in any order);
    None: the statement does not fix the order (no order_by; several columns together with reverse).
    """
    if not order_by:
        return None
    cols = [order_by] if isinstance(order_by, str) else list(order_by)
    if reverse and len(cols) > 1:
        return None
    keys = [tuple(sort_key(f, c) for c in cols) for f in feats]
    for a, b in zip(keys, keys[1:]):
        if (a < b) if reverse else (a > b):
            return False
    return True
