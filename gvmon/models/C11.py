"""
Reference model for C11 (filters, ordering, counts): brute-force filter and SQLite BINARY-collation sort keys.
Never imports gffutils.

model row = {"id", "file_order" (1-based input position), "seqid", "source", "featuretype", "start" (int|None),
             "end" (int|None), "score", "strand", "frame", "attributes" (raw stored text), "extra" (raw stored text)}
"""
COLUMNS = ["seqid", "source", "featuretype", "start", "end", "score", "strand", "frame", "attributes", "extra"]
ORDERABLE = COLUMNS + ["length", "file_order"]


def value(row, col):
    if col == "length":
        if row["start"] is None or row["end"] is None:
            return None
        return row["end"] - row["start"]
    return row[col]


def sqlite_key(v):
    """Total order of SQLite values under BINARY collation: NULL < numbers < text (by UTF-8 bytes)."""
    if v is None:
        return (0, 0)
    if isinstance(v, (int, float)) and not isinstance(v, bool):
        return (1, v)
    if isinstance(v, str):
        return (2, v.encode("utf-8"))
    raise TypeError(v)


def sort_key(row, cols):
    return tuple(sqlite_key(value(row, c)) for c in cols)


def matches(row, ft=None, strand=None, limit=None, within=False):
    if ft is not None and row["featuretype"] not in ft:
        return False
    if strand is not None and row["strand"] != strand:
        return False
    if limit is not None:
        seqid, start, end = limit
        if row["seqid"] != seqid or row["start"] is None or row["end"] is None:
            return False
        if within:
            return start <= row["start"] and row["end"] <= end
        return row["start"] <= end and row["end"] >= start
    return True


def first_inversion(keys, descending=False):
    """Index i of the first pair (i, i+1) out of order, or None."""
    for i in range(len(keys) - 1):
        a, b = keys[i], keys[i + 1]
        if (a < b) if descending else (a > b):
            return i
    return None


def multiset_diff(got_ids, want_ids):
    from collections import Counter

    g, w = Counter(got_ids), Counter(want_ids)
    if g == w:
        return None
    return {"missing": sorted((w - g).elements())[:8], "unexpected or repeated": sorted((g - w).elements())[:8],
            "n_got": len(got_ids), "n_expected": len(want_ids)}
