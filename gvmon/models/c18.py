"""
Reference model for C18 (export coordinates), written from the property statement.  No gffutils import.

transcript = {"id", "seqid", "start", "end", "strand", "score", "attrs": [[k, [v..]]]}
child      = {"type", "start", "end"}
opts       = {"block": str|[str], "thick": str|[str]|None, "thin": str|[str]|None, "name_field": str, "color": str|None}
"""
# Watson-Crick complement, including the IUPAC ambiguity codes (R<->Y, K<->M, B<->V, D<->H; S, W, N self-complementary)
_PAIRS = {"A": "T", "C": "G", "G": "C", "T": "A", "N": "N", "R": "Y", "Y": "R", "K": "M", "M": "K", "B": "V", "V": "B",
          "D": "H", "H": "D", "S": "S", "W": "W"}
COMPLEMENT = dict(_PAIRS)
COMPLEMENT.update({k.lower(): v.lower() for k, v in _PAIRS.items()})


def expected_sequence(seq, start, end, strand, use_strand=True):
    """Bases start..end, 1-based inclusive; reverse complement for '-' unless use_strand is False."""
    s = seq[start - 1:end]
    if use_strand and strand == "-":
        s = "".join(COMPLEMENT[c] for c in reversed(s))
    return s


def fasta_text(seqs):
    """seqs: [[name, description, sequence, line width]]"""
    out = []
    for name, desc, seq, width in seqs:
        out.append(">" + name + ((" " + desc) if desc else ""))
        for i in range(0, len(seq), width):
            out.append(seq[i:i + width])
    return "\n".join(out) + "\n"


def _types(ft):
    if ft is None:
        return []
    return [ft] if isinstance(ft, str) else list(ft)


def select(children, ft):
    """Children of the given featuretype(s) in ascending order of start."""
    types = _types(ft)
    return sorted([c for c in children if c["type"] in types], key=lambda c: c["start"])


def ambiguous_order(children, ft):
    """True when two selected children share a start but not the end: 'ascending order' does not say which comes first.
    Children with equal start AND end (duplicated records) are interchangeable in every field, hence not ambiguous."""
    sel = select(children, ft)
    return len(set(c["start"] for c in sel)) != len(set((c["start"], c["end"]) for c in sel))


def duplicate_kinds(sel):
    """Which kinds of duplicated records a selection holds: 'identical' = two children with equal coordinates that carry
    no ID of their own (byte-identical lines), 'distinct' = equal coordinates under different IDs."""
    out = set()
    for i, a in enumerate(sel):
        for b in sel[i + 1:]:
            if (a["start"], a["end"], a["type"]) == (b["start"], b["end"], b["type"]) and "id" in a and "id" in b:
                if a["id"] is None and b["id"] is None:
                    out.add("identical")
                elif a["id"] != b["id"]:
                    out.add("distinct")
    return out


def overlapping(children, ft):
    """True when two selected children overlap (the statement's blocks / thick range are then not defined by it)."""
    sel = select(children, ft)
    return any(a["end"] >= b["start"] for a, b in zip(sel, sel[1:]))


def name_relatives(children, ft):
    """Children that are NOT of the named type(s) although their type name contains, or is contained in, a named type
    ('coding_exon' next to 'exon'): exactly the features a selection by name must leave out."""
    types = _types(ft)
    return [c for c in children if c["type"] not in types and any(c["type"] in t or t in c["type"] for t in types)]


def type_relation(block, thick):
    """How the thick type names relate to the block type names (as sets of whole names)."""
    b, t = set(_types(block)), set(_types(thick))
    if not t:
        return "absent"
    if t == b:
        return "equal to"
    if t < b:
        return "contained in"
    if not (t & b):
        return "disjoint from"
    return "overlapping with"


def bed12_expect(t, children, opts):
    """{"raises": "ValueError"} or {"fields": [12 entries]}; an entry None = the statement does not fix the field;
    a list entry = any of the alternatives."""
    blocks = select(children, opts["block"])
    if not blocks:
        blocks = [{"type": None, "start": t["start"], "end": t["end"]}]  # exported as if it had a single block
    if blocks[0]["start"] != t["start"] or blocks[-1]["end"] != t["end"]:
        return {"raises": "ValueError"}
    chrom_start = t["start"] - 1
    chrom_end = t["end"]
    sizes = [b["end"] - b["start"] + 1 for b in blocks]
    starts = [b["start"] - 1 - chrom_start for b in blocks]
    assert starts[0] == 0 and chrom_start + starts[-1] + sizes[-1] == chrom_end
    attrs = dict((k, v) for k, v in t["attrs"])
    name = attrs[opts["name_field"]][0] if attrs.get(opts["name_field"]) else "."
    thick = select(children, opts.get("thick"))
    thick_start = thick_end = None
    if thick:
        thick_start = thick[0]["start"] - 1
        thick_end = thick[-1]["end"]
    color = opts.get("color")
    if color is None:
        colors = ["0,0,0"]
    else:
        colors = [color, color.replace(" ", "")]
    return {"fields": [t["seqid"], chrom_start, chrom_end, name, "0" if t["score"] == "." else t["score"], t["strand"],
                       thick_start, thick_end, colors, len(blocks), sizes, starts],
            "nblocks": len(blocks), "thick_present": bool(thick), "single": blocks[0]["type"] is None}


FIELD_NAMES = ["chrom", "chromStart", "chromEnd", "name", "score", "strand", "thickStart", "thickEnd", "itemRgb",
               "blockCount", "blockSizes", "blockStarts"]


def _intlist(text):
    if text.endswith(","):
        text = text[:-1]  # BED allows a trailing comma
    if text == "":
        return []
    return [int(x) for x in text.split(",")]


def judge_bed12(line, exp, only=None):
    """Compare one BED12 line with the expected fields; `only` = indices (0-based) to judge.  Returns why or None."""
    if not isinstance(line, str):
        return "result is not a string", None
    line = line[:-1] if line.endswith("\n") else line
    got = line.split("\t")
    if len(got) != 12:
        return "result does not have twelve tab-separated fields", {"n": len(got)}
    for i, want in enumerate(exp["fields"]):
        if only is not None and i not in only:
            continue
        if want is None:
            continue
        g = got[i]
        try:
            if i in (1, 2, 6, 7, 9):
                ok = int(g) == want
            elif i in (10, 11):
                ok = _intlist(g) == want
            elif i == 8:
                ok = g in want
            else:
                ok = g == want
        except ValueError:
            ok = False
        if not ok:
            return "field %s differs" % FIELD_NAMES[i], {"field": i + 1, "got": g, "expected": want}
    return None, None


# --- record naming of a FASTA reader opened with non-default options ------------------------------------------------
# headers are written as  >gi|<number>|<name>[ <description>]
NAMING_MODES = ["keyfn_last", "split_first", "long", "long_keyfn", "short"]


def naming_keys(mode, records):
    """records: [[name field, description, ...]] in file order.  Returns {key: record index} = the names under which a
    reader opened in `mode` offers the records (keyfn_last: last |-separated piece of the name field; split_first: every
    |-separated piece, the first record wins a shared piece; long: the whole header line; long_keyfn: whole header
    line mapped to the last |-piece of its first word; short: the name field)."""
    out = {}
    for i, rec in enumerate(records):
        name, desc = rec[0], rec[1]
        header = name + ((" " + desc) if desc else "")
        if mode in ("keyfn_last", "long_keyfn"):
            keys = [name.split("|")[-1]]
        elif mode == "split_first":
            keys = name.split("|")
        elif mode == "long":
            keys = [header]
        elif mode == "short":
            keys = [name]
        else:
            raise ValueError(mode)
        for k in keys:
            out.setdefault(k, i)
    return out


# --- featuretypes that look alike -----------------------------------------------------------------------------------
def lookalike_relations(children, ft):
    """How children that are NOT of the named type(s) resemble a named type: 'letter case' (equal ignoring case),
    'wildcard' (equal except where the named type has '_' - any one character - or '%' - any run of characters),
    'letter case and wildcard'.  Used for counting what a case exercised; selection itself is by equality (select)."""
    import re

    types = _types(ft)
    out = set()
    for c in children:
        if c["type"] in types:
            continue
        for t in types:
            rx = "".join(".*" if ch == "%" else "." if ch == "_" else re.escape(ch) for ch in t)
            if c["type"].lower() == t.lower():
                out.add("letter case")
            elif re.fullmatch(rx, c["type"], re.S):
                out.add("wildcard")
            elif re.fullmatch(rx, c["type"], re.S | re.I):
                out.add("letter case and wildcard")
    return out


def lookalikes(children, ft):
    """The children that resemble a named type without being of it (see lookalike_relations)."""
    types = _types(ft)
    return [c for c in children if c["type"] not in types and lookalike_relations([c], ft)]


def name_relation(a, b):
    """How two different record names resemble one another: 'letter case', 'normalisation form', or None."""
    import unicodedata

    if a == b:
        return None
    if a.lower() == b.lower() or a.upper() == b.upper() or a.casefold() == b.casefold():
        return "letter case"
    for form in ("NFC", "NFKC"):
        if unicodedata.normalize(form, a) == unicodedata.normalize(form, b):
            return "normalisation form"
    if unicodedata.normalize("NFKC", a).casefold() == unicodedata.normalize("NFKC", b).casefold():
        return "letter case"
    return None
