"""
Reference model of C16 (merge / merge_all / children_bp), written from the property statement.
Does not import gffutils.

A feature is a dict {seqid, strand, featuretype, start, end}.  Criteria are described as data:
    "seqid" | "strand" | "feature_type" | "exact_coordinates_only" | "overlap_end_inclusive" |
    "overlap_start_inclusive" | "overlap_any_inclusive" | ["overlap_end_threshold", t] |
    ["overlap_start_threshold", t] | ["overlap_any_threshold", t] |
    ["custom", name, parameter...]     (reflexive predicates on (run so far, feature, members of the run))
    ["as", style, criterion]           (the criterion, answering with truthy / falsy values that are not True / False; the
                                        criteria are combined as in all(): only the truth value of an answer counts)
DEFAULT is the criteria list merge() uses when none is given.
"""
DEFAULT = ["seqid", "overlap_end_inclusive", "strand", "feature_type"]


# -- the shipped criteria, re-stated from what their names promise ------------------------------------------------------
def begins_in_or_after(acc, cur, reach):
    """cur begins inside the run, or on one of the `reach` bases that follow its last base"""
    return cur["start"] in range(acc["start"], acc["end"] + reach + 1)


def ends_in_or_before(acc, cur, reach):
    """cur ends inside the run, or on one of the `reach` bases that precede its first base"""
    return cur["end"] in range(acc["start"] - reach, acc["end"] + 1)


def accepts_one(c, acc, cur, members):
    name, args = (c, []) if isinstance(c, str) else (c[0], list(c[1:]))
    if name == "as":
        return accepts_one(args[1], acc, cur, members)
    if name == "seqid":
        return acc["seqid"] == cur["seqid"]
    if name == "strand":
        return acc["strand"] == cur["strand"]
    if name == "feature_type":
        return acc["featuretype"] == cur["featuretype"]
    if name == "exact_coordinates_only":
        return (cur["start"], cur["end"]) == (acc["start"], acc["end"])
    if name == "overlap_end_inclusive":      # overlapping the end of the run, or adjacent to it
        return begins_in_or_after(acc, cur, 1)
    if name == "overlap_start_inclusive":    # overlapping the start of the run, or adjacent to it
        return ends_in_or_before(acc, cur, 1)
    if name == "overlap_any_inclusive":
        return begins_in_or_after(acc, cur, 1) or ends_in_or_before(acc, cur, 1)
    # thresholds: end_threshold(1) and start_threshold(0) are the two "inclusive" criteria (this is how the
    # shipped thresholds are calibrated; the statement does not define them otherwise)
    if name == "overlap_end_threshold":
        return begins_in_or_after(acc, cur, args[0])
    if name == "overlap_start_threshold":
        return ends_in_or_before(acc, cur, args[0] + 1)
    if name == "overlap_any_threshold":
        return begins_in_or_after(acc, cur, args[0]) or ends_in_or_before(acc, cur, args[0] + 1)
    if name == "custom":
        return custom(args[0], args[1:], acc, cur, len(members))
    raise ValueError("unknown criterion %r" % (c,))


def custom(name, params, acc, cur, n_members):
    """Reflexive predicates: true for (f, f, no members) whatever f is."""
    if name == "start_within":
        return abs(cur["start"] - acc["start"]) <= params[0]
    if name == "same_start_parity":
        return (cur["start"] - acc["start"]) % 2 == 0
    if name == "max_members":
        return n_members < params[0]
    if name == "end_not_before_start":
        return cur["end"] >= acc["start"]
    if name == "length_within":
        return abs((cur["end"] - cur["start"]) - (acc["end"] - acc["start"])) <= params[0]
    raise ValueError("unknown custom criterion %r" % (name,))


def accepts(criteria, acc, cur, members):
    return all(accepts_one(c, acc, cur, members) for c in criteria)


def unwrap(c):
    """The criterion itself, whatever values it answers with."""
    while isinstance(c, (list, tuple)) and c[0] == "as":
        c = c[2]
    return c


def label(c):
    c = unwrap(c)
    return c if isinstance(c, str) else c[1] if c[0] == "custom" else c[0]


def single_pass(feats, criteria, rejected_inside=None):
    """Runs (lists of input indexes) of one pass: a feature joins the current run exactly when every
    criterion accepts (run so far, feature); otherwise it starts the next run.
    rejected_inside: optional list that receives (index, names of the rejecting criteria) of every feature that was
    rejected although it lies inside the extent of the run so far (bookkeeping for evidence counters)."""
    runs = []
    acc = None
    members = []
    for i, f in enumerate(feats):
        if (rejected_inside is not None and acc is not None and acc["start"] <= f["start"] and f["end"] <= acc["end"]
                and not accepts(criteria, acc, f, members)):
            rejected_inside.append((i, [label(c) for c in criteria if not accepts_one(c, acc, f, members)]))
        if acc is not None and accepts(criteria, acc, f, members):
            members.append(i)
            acc["start"] = min(acc["start"], f["start"])
            acc["end"] = max(acc["end"], f["end"])
            # seqid / strand / featuretype of a run are only consulted by the criterion that keeps them uniform
        else:
            if acc is not None:
                runs.append(members)
            acc = dict(f)
            members = [i]
    if acc is not None:
        runs.append(members)
    return runs


def detached_nested_members(feats, run):
    """Members (from the third on) of a run that lie inside an earlier member other than their immediate predecessor
    and end after that predecessor: [(index, begins beyond predecessor.end + 1)]."""
    out = []
    for k in range(2, len(run)):
        y, pred = feats[run[k]], feats[run[k - 1]]
        if y["end"] > pred["end"] and any(feats[x]["start"] <= y["start"] and y["end"] <= feats[x]["end"] for x in run[:k - 1]):
            out.append((run[k], y["start"] > pred["end"] + 1))
    return out


def extent(feats, run):
    return min(feats[i]["start"] for i in run), max(feats[i]["end"] for i in run)


def group_key(f):
    return (f["seqid"], f["strand"], f["featuretype"])


def position_union(feats):
    """Independent of any pass: {(seqid, strand, type): [maximal runs of covered positions]}; two intervals that
    overlap or are adjacent cover consecutive positions."""
    covered = {}
    for f in feats:
        covered.setdefault(group_key(f), set()).update(range(f["start"], f["end"] + 1))
    out = {}
    for k, pos in covered.items():
        runs = []
        for p in sorted(pos):
            if runs and runs[-1][1] == p - 1:
                runs[-1][1] = p
            else:
                runs.append([p, p])
        out[k] = [tuple(r) for r in runs]
    return out


def union_extents(feats):
    """sorted [(seqid, strand, type, start, end)] of the position-set union"""
    return sorted(k + r for k, runs in position_union(feats).items() for r in runs)


def is_grouped_start_ordered(feats):
    """Every (seqid, strand, type) group is contiguous in the input and start-ordered."""
    seen = []
    for f in feats:
        k = group_key(f)
        if seen and seen[-1][0] == k:
            if f["start"] < seen[-1][1]:
                return False
            seen[-1][1] = f["start"]
        elif any(s[0] == k for s in seen):
            return False
        else:
            seen.append([k, f["start"]])
    return True


def total_length(feats):
    return sum(f["end"] - f["start"] + 1 for f in feats)


def merged_length(feats, criteria):
    return sum(e - s + 1 for s, e in (extent(feats, r) for r in single_pass(feats, criteria)))


def union_size(feats):
    pos = set()
    for f in feats:
        pos.update(range(f["start"], f["end"] + 1))
    return len(pos)


def tie_insensitive(criteria):
    """Criteria lists whose partition does not depend on the order of features that agree on
    (seqid, featuretype, strand, start): label criteria plus criteria that look at cur.start only."""
    for c in criteria:
        c = unwrap(c)
        name = c if isinstance(c, str) else c[0]
        if name not in ("seqid", "strand", "feature_type", "overlap_end_inclusive", "overlap_end_threshold"):
            return False
    return True
