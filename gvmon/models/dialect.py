"""
Reference model of the attribute-column grammar ("dialects"), written from the
statements of C01/C07/C08/C09 and the GFF3/GTF/GFF2 conventions.  Never
imports gffutils.

A dialect point D is a dict:
    fmt       'gff3' (key=value) | 'gtf' (key "value") | 'gff2' (key value, unquoted) | 'gff3q' (key="value")
    sep       ';' | '; ' | ' ; '
    trailing  bool   (attribute column ends with ';')
    repeated  bool   (multi-valued attribute written as repeated keys instead of a comma list)
"""
import itertools

FMTS = ("gff3", "gtf", "gff2", "gff3q")
KV_STYLE = ("gff3", "gff3q")      # key=value styles (first attribute must be key=value with a \\w+ key)
SEPS = (";", "; ", " ; ")

RESERVED = set("\n\t\r%;=&,") | {chr(i) for i in range(32)} | {chr(127)}


def points():
    out = []
    for fmt, sep, trailing, repeated in itertools.product(FMTS, SEPS, (False, True), (False, True)):
        out.append({"fmt": fmt, "sep": sep, "trailing": trailing, "repeated": repeated})
    return out


def escapes(D):
    """Does the dialect percent-encode reserved characters?  (gtf has no escaping)"""
    return D["fmt"] in ("gff3", "gff2", "gff3q")


def encode_value(v):
    return "".join("%%%02X" % ord(c) if c in RESERVED else c for c in v)


def render_part(key, values, D):
    fmt = D["fmt"]
    if escapes(D):
        values = [encode_value(v) for v in values]
    joined = ",".join(values)
    if not values or joined == "":
        return key + ' ""' if fmt == "gtf" else key
    if fmt == "gff3":
        return key + "=" + joined
    if fmt == "gff3q":
        return key + '="' + joined + '"' 
    if fmt == "gtf":
        return key + ' "' + joined + '"'
    return key + " " + joined


def render_attrs(attrs, D):
    """attrs: ordered list of (key, [values]) -> attribute column text."""
    if not attrs:
        return ""
    parts = []
    for key, values in attrs:
        if D["repeated"] and len(values) > 1:
            for v in values:
                parts.append(render_part(key, [v], D))
        else:
            parts.append(render_part(key, values, D))
    s = D["sep"].join(parts)
    if D["trailing"]:
        s += ";"
    return s


def nparts(attrs, D):
    n = 0
    for key, values in attrs:
        n += len(values) if (D["repeated"] and len(values) > 1) else 1
    return n


def render_line(rec, D, tabs=True):
    cols = [rec["seqid"], rec["source"], rec["featuretype"], rec["start"], rec["end"],
            rec["score"], rec["strand"], rec["frame"], render_attrs(rec["attrs"], D)]
    cols += list(rec.get("extra") or [])
    return ("\t" if tabs else " ").join(cols)


def gffutils_dialect(D, order, quoted=None):
    """The dialect dictionary (gffutils' vocabulary) that describes D."""
    return {
        "leading semicolon": False,
        "trailing semicolon": bool(D["trailing"]),
        "quoted GFF2 values": (D["fmt"] in ("gtf", "gff3q")) if quoted is None else quoted,
        "field separator": D["sep"],
        "keyval separator": "=" if D["fmt"] in KV_STYLE else " ",
        "multival separator": ",",
        "fmt": "gtf" if D["fmt"] == "gtf" else "gff3",   # unquoted gff2 is reported as 'gff3' with a blank separator
        "repeated keys": bool(D["repeated"]),
        "order": list(order),
    }


def observed(attrs, D):
    """What a single line with these attributes lets an observer infer (None = unobservable)."""
    if not attrs:
        return None
    o = gffutils_dialect(D, [k for k, _ in attrs])
    if nparts(attrs, D) < 2:
        o["field separator"] = ";"       # unobservable -> default
    if not (D["repeated"] and any(len(v) > 1 for _, v in attrs)):
        o["repeated keys"] = False       # unobservable -> default
    return o


DEFAULT = {
    "leading semicolon": False, "trailing semicolon": False, "quoted GFF2 values": False,
    "field separator": ";", "keyval separator": "=", "multival separator": ",", "fmt": "gff3",
    "repeated keys": False, "order": ["ID", "Name", "gene_id", "transcript_id"],
}


def vote(window):
    """
    C09's rule: window = list of (per-line dialect dict, ordered keys of the line).
    Weighted majority per dialect key (weight = number of attributes of the line),
    ties to the value seen first; order = first-seen key order.
    """
    if not window:
        return dict(DEFAULT)
    final = {}
    keys = [k for k in DEFAULT if k != "order"]
    for k in keys:
        tally = {}
        for d, linekeys in window:
            v = d[k]
            tally[v] = tally.get(v, 0) + len(linekeys)
        best = None
        for v, w in tally.items():  # insertion order = first seen
            if best is None or w > best[1]:
                best = (v, w)
        final[k] = best[0]
    order = []
    for d, linekeys in window:
        for key in linekeys:
            if key not in order:
                order.append(key)
    final["order"] = order
    return final


def D_from_dialect(d):
    """Inverse of gffutils_dialect for printing with a voted dialect."""
    if d["keyval separator"] == "=":
        fmt = "gff3q" if d["quoted GFF2 values"] else "gff3"
    elif d["fmt"] == "gtf":
        fmt = "gtf"
    else:
        fmt = "gff2"
    return {"fmt": fmt, "sep": d["field separator"], "trailing": d["trailing semicolon"], "repeated": d["repeated keys"]}


def render_with_dialect(attrs, d, keep_order=True):
    """Reference printing of ordered attrs under a (voted) gffutils-vocabulary dialect."""
    D = D_from_dialect(d)
    if keep_order:
        order = d["order"]
        attrs = sorted(attrs, key=lambda kv: order.index(kv[0]) if kv[0] in order else 10 ** 6)
    # quoting is its own flag in the voted dialect
    fmt = D["fmt"]
    parts = []
    for key, values in attrs:
        groups = [[v] for v in values] if (D["repeated"] and len(values) > 1) else [values]
        for vals in groups:
            enc = [encode_value(v) for v in vals] if d["fmt"] == "gff3" else list(vals)
            joined = ",".join(enc)
            if not vals or joined == "":
                parts.append(key + d["keyval separator"] + '""' if d["fmt"] == "gtf" else key)
                continue
            if d["quoted GFF2 values"]:
                joined = '"%s"' % joined
            parts.append(key + d["keyval separator"] + joined)
    if not parts:
        return ""
    s = d["field separator"].join(parts)
    if d["trailing semicolon"]:
        s += ";"
    return s
