"""
Independent reader of a gffutils database: plain sqlite3 (read-only URI for
files), stdlib json; never goes through gffutils.
"""
import json
import sqlite3

from gvmon.monitors import sqltrace


def _pairs(text):
    if text is None:
        return None
    try:
        return json.loads(text, object_pairs_hook=lambda kv: [[k, v] for k, v in kv])
    except ValueError:
        return {"__unparsable__": text}


def dump_conn(conn):
    cur = conn.cursor()
    out = {}
    rows = cur.execute(
        "SELECT id, seqid, source, featuretype, start, end, score, strand, frame, attributes, extra, bin "
        "FROM features ORDER BY rowid").fetchall()
    feats = []
    for r in rows:
        r = list(r)
        feats.append({
            "id": r[0], "seqid": r[1], "source": r[2], "featuretype": r[3], "start": r[4], "end": r[5],
            "score": r[6], "strand": r[7], "frame": r[8], "attributes": _pairs(r[9]), "extra": _pairs(r[10]),
            "bin": r[11],
        })
    out["features"] = feats
    out["relations"] = sorted([list(r) for r in cur.execute("SELECT parent, child, level FROM relations")],
                              key=lambda t: (str(t[0]), str(t[1]), t[2]))
    out["meta"] = [[_pairs(d), v] for d, v in cur.execute("SELECT dialect, version FROM meta ORDER BY rowid")]
    out["directives"] = [r[0] for r in cur.execute("SELECT directive FROM directives ORDER BY rowid")]
    out["autoincrements"] = dict(list(r) for r in cur.execute("SELECT base, n FROM autoincrements"))
    out["duplicates"] = sorted(list(r) for r in cur.execute("SELECT idspecid, newid FROM duplicates"))
    return out


def dump(path):
    conn = sqltrace.ORIG_CONNECT("file:%s?mode=ro" % path.replace("?", "%3f").replace("#", "%23"), uri=True)
    try:
        return dump_conn(conn)
    finally:
        conn.close()


def dump_db(db):
    """Dump whatever a FeatureDB points at (file path, or the live connection for :memory:)."""
    if isinstance(db.dbfn, str) and db.dbfn != ":memory:":
        db.conn.commit()
        return dump(db.dbfn)
    return dump_conn(db.conn)


def content(d, meta=True):
    """The comparable content of a dump (dialect = last meta row, as FeatureDB reads the first; both given)."""
    c = {k: d[k] for k in ("features", "relations", "directives", "autoincrements", "duplicates")}
    if meta:
        c["dialect_first"] = d["meta"][0][0] if d["meta"] else None
    return c


def diff(a, b, keys=("features", "relations", "directives", "autoincrements", "duplicates", "meta")):
    """Short human-readable difference of two dumps (None when equal on `keys`)."""
    for k in keys:
        if a.get(k) != b.get(k):
            x, y = a.get(k), b.get(k)
            if isinstance(x, list) and isinstance(y, list):
                if len(x) != len(y):
                    return {"table": k, "len_a": len(x), "len_b": len(y),
                            "only_a": [i for i in x if i not in y][:5], "only_b": [i for i in y if i not in x][:5]}
                for i, (p, q) in enumerate(zip(x, y)):
                    if p != q:
                        return {"table": k, "index": i, "a": p, "b": q}
            return {"table": k, "a": x, "b": y}
    return None
