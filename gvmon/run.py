"""
Runner: seeds, sharding over subprocesses, watchdogs, three-valued verdicts,
known-finding classification, replay files and evidence.

    python -m gvmon.run <ID> [--tier quick|thorough] [--replay FILE]
    python -m gvmon.run <ID> --shard i/n --out FILE      (internal)

Exit codes: 0 held on everything explored; 1 violation (a line
"VIOLATION property=<id> replay=<path>" is printed); 2 inconclusive (harness
error, watchdog, a deciding monitor that was never evaluated).
"""
import argparse
import hashlib
import importlib
import json
import os
import random
import shutil
import subprocess
import sys
import tempfile
import time
import traceback
from collections import Counter

HERE = os.path.dirname(os.path.dirname(os.path.abspath(__file__)))
# self-check campaigns point these elsewhere so that runs against mutated copies never touch committed evidence
EVID_DIR = os.environ.get("VERIF_EVIDENCE_DIR") or os.path.join(HERE, "evidence")
REPLAY_DIR = os.path.join(os.environ["VERIF_EVIDENCE_DIR"], "replays") if os.environ.get("VERIF_EVIDENCE_DIR") else os.path.join(HERE, "replays")
MAX_DISTINCT_PER_SHARD = 400000
# the thorough tier multiplies every random-workload budget by this factor (enumerations have their own depth bounds)
THOROUGH_SCALE = float(os.environ.get("VERIF_THOROUGH_SCALE") or 3)
MAX_VIOL_PER_SHARD = 12


def stable_hash(obj):
    s = json.dumps(obj, sort_keys=True, default=repr, ensure_ascii=True)
    return hashlib.blake2b(s.encode("utf-8", "surrogatepass"), digest_size=8).hexdigest()


def jsonable(o):
    """Best-effort conversion of a case to something json.dump accepts."""
    try:
        json.dumps(o)
        return o
    except Exception:
        pass
    if isinstance(o, dict):
        return {str(k): jsonable(v) for k, v in o.items()}
    if isinstance(o, (list, tuple, set, frozenset)):
        return [jsonable(v) for v in o]
    if isinstance(o, bytes):
        return {"__bytes__": o.hex()}
    if isinstance(o, str):
        return {"__str_escaped__": o.encode("utf-8", "surrogatepass").hex()}
    return repr(o)


class Inconclusive(Exception):
    pass


class Ctx(object):
    """What a check driver sees."""

    def __init__(self, pid, mod, tier, seed, shard, nshards, scratch):
        self.pid = pid
        self.mod = mod
        self.tier = tier
        self.seed = seed
        self.shard = shard
        self.nshards = nshards
        self.scratch = scratch
        self.rng = random.Random((seed * 1000003 + shard * 7919 + 17) & 0xFFFFFFFF)
        self.evaluations = 0
        self.distinct = set()
        self.distinct_overflow = 0
        self.enum_nontrivial = 0
        self.monitors = Counter()
        self.classes = Counter()
        self.samples = []
        self.violations = []
        self.n_violations = 0
        self.known_hits = Counter()
        self.known_examples = {}
        self.skipped = Counter()
        self.notes = []
        self.exhaustive = None
        self.t0 = time.time()
        self._n = 0

    # -- bookkeeping -----------------------------------------------------
    def case(self, key, nontrivial, sample=None, cls=None):
        """One executed case.  `key` identifies it for distinct counting."""
        self.evaluations += 1
        if cls is not None:
            self.classes[cls] += 1
        if nontrivial:
            if len(self.distinct) < MAX_DISTINCT_PER_SHARD:
                self.distinct.add(stable_hash(key))
            else:
                self.distinct_overflow += 1
            if sample is not None and len(self.samples) < 4:
                self.samples.append(jsonable(sample))

    def case_enum(self, n, n_nontrivial, sample=None):
        """n cases of an enumeration that are distinct by construction."""
        self.evaluations += n
        self.enum_nontrivial += n_nontrivial
        if sample is not None and len(self.samples) < 4:
            self.samples.append(jsonable(sample))

    def mon(self, name, n=1):
        self.monitors[name] += n

    def skip(self, why):
        self.skipped[why] += 1

    def note(self, text):
        if text not in self.notes and len(self.notes) < 20:
            self.notes.append(text)

    def budget(self, quick, thorough):
        """Operation budget of this shard."""
        total = quick if self.tier == "quick" else int(thorough * THOROUGH_SCALE)
        return max(1, total // self.nshards + (1 if self.shard < total % self.nshards else 0))

    def mine(self, i):
        """Partition an enumeration across shards."""
        return i % self.nshards == self.shard

    def tmp(self, suffix=""):
        self._n += 1
        return os.path.join(self.scratch, "f%d_%d%s" % (self.shard, self._n, suffix))

    def elapsed(self):
        return time.time() - self.t0

    # -- verdicts --------------------------------------------------------
    def violation(self, case, detail):
        """An oracle disagreed with the real code on `case`."""
        case = jsonable(case)
        detail = jsonable(detail)
        known = getattr(self.mod, "KNOWN", {})
        open_findings = load_known(self.pid)
        for fid, classifier in known.items():
            if fid not in open_findings:
                continue
            try:
                hit = classifier(case, detail)
            except Exception:
                hit = False
            if hit:
                self.known_hits[fid] += 1
                self.known_examples.setdefault(fid, {"case": case, "detail": detail})
                return "known"
        self.n_violations += 1
        if len(self.violations) < MAX_VIOL_PER_SHARD:
            self.violations.append({"case": case, "detail": detail})
        return "violation"

    def check(self, cond, case, detail):
        if not cond:
            self.violation(case, detail)
        return cond

    def result(self):
        return {
            "evaluations": self.evaluations,
            "distinct": sorted(self.distinct),
            "distinct_overflow": self.distinct_overflow,
            "enum_nontrivial": self.enum_nontrivial,
            "monitors": dict(self.monitors),
            "classes": dict(self.classes),
            "samples": self.samples,
            "violations": self.violations,
            "n_violations": self.n_violations,
            "known_hits": dict(self.known_hits),
            "known_examples": self.known_examples,
            "skipped": dict(self.skipped),
            "notes": self.notes,
            "exhaustive": self.exhaustive,
            "hashseed": os.environ.get("PYTHONHASHSEED"),
            "wall_s": round(time.time() - self.t0, 3),
        }


_KNOWN_CACHE = None


def load_known(pid):
    """Open (unrepaired) findings listed for this property: id -> entry."""
    global _KNOWN_CACHE
    if _KNOWN_CACHE is None:
        path = os.path.join(HERE, "known_findings.json")
        try:
            with open(path) as fh:
                _KNOWN_CACHE = json.load(fh)
        except FileNotFoundError:
            _KNOWN_CACHE = {"findings": []}
    return {
        f["id"]: f
        for f in _KNOWN_CACHE.get("findings", [])
        if f.get("property") == pid and f.get("status") == "open"
    }


def load_module(pid):
    return importlib.import_module("gvmon.checks.%s" % pid)


# ---------------------------------------------------------------------------
# shard side
# ---------------------------------------------------------------------------
def run_shard(pid, tier, seed, shard, nshards, out, replay=None):
    from gvmon import env

    env.prepare()  # quiet stderr, import guard
    mod = load_module(pid)
    scratch = os.environ["VERIF_SHARD_SCRATCH"]
    ctx = Ctx(pid, mod, tier, seed, shard, nshards, scratch)
    status = "ok"
    err = None
    try:
        if hasattr(mod, "setup"):
            mod.setup(ctx)
        if replay is not None:
            with open(replay) as fh:
                rep = json.load(fh)
            mod.execute(ctx, rep["case"])
            ctx.evaluations = max(ctx.evaluations, 1)
        else:
            # canonical reproducers of listed findings run on every shard 0
            if shard == 0:
                for fid, case in getattr(mod, "CANONICAL", {}).items():
                    if fid in load_known(pid):
                        mod.execute(ctx, case)
                        ctx.mon("canonical_reproducer:" + fid)
            mod.run(ctx)
    except Inconclusive as e:
        status = "inconclusive"
        err = str(e)
    except BaseException as e:  # harness error
        status = "error"
        err = "".join(traceback.format_exception(type(e), e, e.__traceback__))[-4000:]
    res = ctx.result()
    res["status"] = status
    res["error"] = err
    with open(out, "w") as fh:
        json.dump(res, fh)
    return 0


# ---------------------------------------------------------------------------
# parent side
# ---------------------------------------------------------------------------
def scratch_root():
    for cand in (os.environ.get("VERIF_SCRATCH"), "/dev/shm", "/var/tmp"):
        if cand and os.path.isdir(cand) and os.access(cand, os.W_OK):
            return cand
    return tempfile.gettempdir()


def main(argv=None):
    ap = argparse.ArgumentParser()
    ap.add_argument("pid")
    ap.add_argument("--tier", default=os.environ.get("VERIF_TIER") or "quick")
    ap.add_argument("--replay")
    ap.add_argument("--shard")
    ap.add_argument("--out")
    ap.add_argument("--shards", type=int)
    a = ap.parse_args(argv)
    pid = a.pid
    tier = a.tier if a.tier in ("quick", "thorough") else "quick"
    try:
        seed = int(os.environ.get("VERIF_SEED") or 0)
    except ValueError:
        seed = 0

    if a.shard:
        i, n = a.shard.split("/")
        return run_shard(pid, tier, seed, int(i), int(n), a.out, replay=a.replay)

    t0 = time.time()
    try:
        mod = load_module(pid)
    except BaseException as e:   # a check that cannot even be loaded is a harness error, never a verdict
        print("INCONCLUSIVE: check module for %s cannot be loaded (%s: %s)" % (pid, type(e).__name__, e))
        return 2
    nshards = a.shards or (
        getattr(mod, "QUICK_SHARDS", 4) if tier == "quick" else getattr(mod, "THOROUGH_SHARDS", 16)
    )
    if a.replay:
        nshards = 1
    timeout = getattr(mod, "TIMEOUT", {}).get(tier, 900 if tier == "quick" else 4 * 3600)
    results, problems = run_pass(pid, mod, tier, seed, nshards, timeout, a.replay)
    extra_notes = []
    if not a.replay and not problems:
        miss = missing_required(mod, results)
        if miss:
            # A required monitor or input class was not reached with this seed.  Before calling the run inconclusive, one
            # top-up pass with a derived seed is added (counts are sums over both passes); what is still missing after
            # that makes the run inconclusive as before.
            seed2 = seed + 1000003
            results2, problems2 = run_pass(pid, mod, tier, seed2, nshards, timeout, None)
            results += results2
            problems += problems2
            extra_notes.append("top-up pass with seed %d added because these required monitors/classes were not reached with seed %d: %s"
                               % (seed2, seed, "; ".join(miss[:6])))
    return finish(pid, mod, tier, seed, nshards, results, problems, t0, replay=a.replay, extra_notes=extra_notes)


def missing_required(mod, results):
    monitors, classes = Counter(), Counter()
    for r in results:
        for mk, mv in r["monitors"].items():
            monitors[mk] += mv
        classes.update(r["classes"])
    return [m for m in getattr(mod, "REQUIRED", []) if monitors.get(m, 0) == 0] + \
           [c for c in getattr(mod, "REQUIRED_CLASSES", []) if classes.get(c, 0) == 0]


def run_pass(pid, mod, tier, seed, nshards, timeout, replay):
    """One pass of all shards with this seed; returns (shard results, problems)."""
    root = tempfile.mkdtemp(prefix="gvmon-%s-" % pid, dir=scratch_root())
    procs = []
    try:
        base_hs = os.environ.get("PYTHONHASHSEED", "0")
        if replay:
            try:
                with open(replay) as fh:
                    base_hs = str(json.load(fh).get("hashseed", base_hs))
            except Exception:
                pass
        for i in range(nshards):
            sdir = os.path.join(root, "s%d" % i)
            os.makedirs(os.path.join(sdir, "tmp"))
            envv = dict(os.environ)
            envv["VERIF_SEED"] = str(seed)
            envv["VERIF_SHARD_SCRATCH"] = sdir
            envv["TMPDIR"] = os.path.join(sdir, "tmp")
            # the hash seed is a configuration dimension: gffutils builds
            # merged attribute lists through set()
            try:
                hs = (int(base_hs) + i * 1013 + (seed * 31 if i else 0)) % 4294967295
            except ValueError:
                hs = i
            envv["PYTHONHASHSEED"] = str(hs)
            cmd = [sys.executable, "-m", "gvmon.run", pid, "--tier", tier,
                   "--shard", "%d/%d" % (i, nshards), "--out", os.path.join(sdir, "out.json")]
            if replay:
                cmd += ["--replay", replay]
            log = open(os.path.join(sdir, "log"), "w")
            procs.append((i, sdir, subprocess.Popen(cmd, env=envv, stdout=log, stderr=log, cwd=HERE), log))
        results = []
        problems = []
        deadline = time.time() + timeout
        for i, sdir, p, log in procs:
            try:
                p.wait(timeout=max(1, deadline - time.time()))
            except subprocess.TimeoutExpired:
                p.kill()
                p.wait()
                problems.append("shard %d: wall-clock watchdog (%ds) fired" % (i, timeout))
                log.close()
                continue
            log.close()
            try:
                with open(os.path.join(sdir, "out.json")) as fh:
                    r = json.load(fh)
            except Exception:
                with open(os.path.join(sdir, "log")) as fh:
                    tail = fh.read()[-2000:]
                problems.append("shard %d: no result (rc=%s): %s" % (i, p.returncode, tail))
                continue
            if r["status"] != "ok":
                problems.append("shard %d: %s: %s" % (i, r["status"], r["error"]))
            results.append(r)
        return results, problems
    finally:
        for _, _, p, _ in procs:
            if p.poll() is None:
                p.kill()
        shutil.rmtree(root, ignore_errors=True)


def finish(pid, mod, tier, seed, nshards, results, problems, t0, replay=None, extra_notes=None):
    evaluations = sum(r["evaluations"] for r in results)
    distinct = set()
    for r in results:
        distinct.update(r["distinct"])
    n_distinct = len(distinct) + sum(r["enum_nontrivial"] for r in results)
    monitors, classes, skipped, known_hits = Counter(), Counter(), Counter(), Counter()
    samples, violations, notes = [], [], []
    known_examples = {}
    n_viol = 0
    for r in results:
        for mk, mv in r["monitors"].items():
            if mk.startswith("max "):
                monitors[mk] = max(monitors.get(mk, 0), mv)   # maxima are merged by max, counts by sum
            else:
                monitors[mk] += mv
        classes.update(r["classes"])
        skipped.update(r["skipped"])
        known_hits.update(r["known_hits"])
        for k, v in r["known_examples"].items():
            known_examples.setdefault(k, v)
        for s in r["samples"]:
            if len(samples) < 6:
                samples.append(s)
        for v in r["violations"]:
            v = dict(v)
            v["hashseed"] = r.get("hashseed")
            violations.append(v)
        n_viol += r["n_violations"]
        for n in r["notes"]:
            if n not in notes:
                notes.append(n)
    for n in (extra_notes or []):
        notes.append(n)
    required = list(getattr(mod, "REQUIRED", []))
    missing = [m for m in required if monitors.get(m, 0) == 0] if not replay else []
    required_classes = list(getattr(mod, "REQUIRED_CLASSES", [])) if not replay else []
    missing_cls = [c for c in required_classes if classes.get(c, 0) == 0]
    exhaustive = None
    if results and all(r.get("exhaustive") for r in results):
        exhaustive = True

    open_findings = load_known(pid)
    wall = round(time.time() - t0, 3)
    level = getattr(mod, "LEVEL", "exploration")
    coverage = {
        "evaluations": evaluations,
        "distinct_nontrivial": n_distinct,
        "rule": getattr(mod, "RULE", ""),
        "samples": samples if samples else [],
        "monitors": dict(sorted(monitors.items())),
        "input_classes": dict(sorted(classes.items())),
        "skipped": dict(sorted(skipped.items())),
        "shards": nshards,
        "hash_seeds": [r.get("hashseed") for r in results],
        "known_findings_reported": {k: known_hits.get(k, 0) for k in open_findings},
        "notes": notes,
    }
    if exhaustive:
        coverage["exhaustive"] = True
    if getattr(mod, "EXHAUSTIVE_NOTE", None):
        coverage["exhaustive_subspaces"] = mod.EXHAUSTIVE_NOTE
    verdict = "held"
    if n_viol:
        verdict = "violated"
    elif problems or missing or missing_cls or evaluations == 0:
        verdict = "inconclusive"
    coverage["verdict"] = verdict
    ev = {
        "property_id": pid,
        "tier": tier,
        "seed": seed,
        "level": level,
        "coverage": coverage,
        "assumptions": list(getattr(mod, "ASSUMPTIONS", [])),
        "wall_s": wall,
        "violations": n_viol,
    }
    if not replay:
        os.makedirs(EVID_DIR, exist_ok=True)
        tmpf = os.path.join(EVID_DIR, ".%s.json.tmp" % pid)
        with open(tmpf, "w") as fh:
            json.dump(ev, fh, indent=1, sort_keys=True, ensure_ascii=True)
            fh.write("\n")
        os.replace(tmpf, os.path.join(EVID_DIR, "%s.json" % pid))

    print("%s tier=%s seed=%d shards=%d evaluations=%d distinct_nontrivial=%d wall=%.1fs" % (
        pid, tier, seed, nshards, evaluations, n_distinct, wall))
    print("monitors: " + ", ".join("%s=%d" % kv for kv in sorted(monitors.items())))
    if skipped:
        print("skipped: " + ", ".join("%s=%d" % kv for kv in sorted(skipped.items())))
    for fid, f in sorted(open_findings.items()):
        if known_hits.get(fid, 0):
            print("KNOWN-FINDING: property=%s %s %s (%d cases this run)" % (
                pid, fid, f.get("what", ""), known_hits[fid]))
        else:
            print("note: listed finding %s was not observed in this run" % fid)
    if not replay:
        import glob
        for old in glob.glob(os.path.join(REPLAY_DIR, "%s-*.json" % pid)):
            os.unlink(old)
    if n_viol:
        os.makedirs(REPLAY_DIR, exist_ok=True)
        seen = set()
        shown = 0
        for v in violations:
            h = stable_hash(v["case"])
            if h in seen:
                continue
            seen.add(h)
            path = os.path.join(REPLAY_DIR, "%s-%s.json" % (pid, h))
            with open(path, "w") as fh:
                json.dump({"property": pid, "case": v["case"], "detail": v["detail"],
                           "seed": seed, "tier": tier, "hashseed": v.get("hashseed")},
                          fh, indent=1, ensure_ascii=True)
            shown += 1
            if shown > 8:
                continue
            print("VIOLATION property=%s replay=%s" % (pid, path))
            d = json.dumps(v["detail"], ensure_ascii=True)
            print("  detail: " + (d if len(d) < 700 else d[:700] + " ..."))
        print("%s: VIOLATED (%d violating cases, %d distinct replay files under replays/, %d shown)" % (
            pid, n_viol, len(seen), min(shown, 8)))
        return 1
    if verdict == "inconclusive":
        for p in problems:
            print("INCONCLUSIVE: " + p)
        for m in missing:
            print("INCONCLUSIVE: deciding monitor '%s' was never evaluated" % m)
        for c in missing_cls:
            print("INCONCLUSIVE: required input class '%s' was never generated" % c)
        if evaluations == 0:
            print("INCONCLUSIVE: no case was executed")
        return 2
    print("%s: held on everything explored" % pid)
    return 0


if __name__ == "__main__":
    try:
        rc = main()
    except SystemExit:
        raise
    except BaseException:   # harness failure: inconclusive, not a violation
        traceback.print_exc()
        print("INCONCLUSIVE: the runner itself failed")
        rc = 2
    sys.exit(rc)
