"""
Generators of feature records and attribute values in the supported grammar.

record = {seqid, source, featuretype, start, end, score, strand, frame  (all str as written),
          attrs: [[key, [values...]], ...], extra: [str, ...]}
"""
PLAIN = "abcdefghijklmnopqrstuvwxyzABCDEFGHIJKLMNOPQRSTUVWXYZ0123456789_.:-+|/()[]*#@!~'"
UNICODE_BLANKS = ["\u00a0", "\u2003", "\u202f", "\u3000"]
# (also text that Unicode normalisation would rewrite: a decomposed accent, ANGSTROM SIGN, OHM SIGN - values are opaque)
NONASCII = ["é", "ß", "漢", "Ω", "ї", "\U0001F9EC", "µ", "ñ", "e\u0301", "\u212b", "\u2126"]
# reserved set of the GFF3 grammar (written as upper-case percent-escapes)
RESERVED_LIST = ["\t", "\n", "\r", "%", ";", "=", "&", ","] + [chr(i) for i in (0, 1, 7, 8, 11, 12, 27, 31)] + [chr(127)]
KEYCHARS_FIRST = "abcdefghijklmnopqrstuvwxyzABCDEFGHIJKLMNOPQRSTUVWXYZ_"
KEYCHARS_WORD = KEYCHARS_FIRST + "0123456789"
KEYCHARS_FULL = KEYCHARS_WORD + ".-"
# word-like keys outside ASCII (\w is Unicode-aware): legitimate tag names in GFF files
NONASCII_KEYS = ["Név", "имя", "名前", "Größe", "ключ_2"]
COMMON_KEYS = ["ID", "Name", "Parent", "Alias", "Note", "Dbxref", "gene_id", "transcript_id", "exon_number",
               "gene_name", "product", "Target", "Gap", "Ontology_term", "description", "tag"]
SEQIDS = ["chr1", "chr2L", "Chr1", "CHR1", "chrX", "scaffold_12", "1", "10", "2", "MT", "chré", "染色体1", "ctg.7-b"]
SOURCES = ["src", "FlyBase", "ensembl", "HAVANA", "a.b", ".", "gffutils_test"]
TYPES = ["gene", "mRNA", "exon", "CDS", "transcript", "five_prime_UTR", "region", "ncRNA", "match_part", "TSS"]


def value(rng, escaped=True, blanks=True, nonascii=True, maxlen=10):
    """A non-empty value that neither begins nor ends with a blank.
    escaped=True: may contain reserved characters (dialects with percent-encoding);
    escaped=False: GTF-style, free of ; " , and control characters."""
    n = 1 + int(rng.expovariate(0.45))
    n = min(n, maxlen)
    out = []
    for i in range(n):
        r = rng.random()
        if r < 0.70:
            out.append(rng.choice(PLAIN))
        elif r < 0.78 and blanks and 0 < i < n - 1:
            out.append(" ")
        elif r < 0.785 and nonascii and 0 < i < n - 1:
            # characters that str.splitlines() treats as line boundaries but file reading does not (interior only:
            # str.strip() also treats them as whitespace)
            out.append("\u2028" if not escaped else rng.choice(["\u2028", "\u2029", "\x85"]))
        elif r < 0.79 and nonascii and i < n - 1:
            # blanks beyond ASCII (no-break, em, narrow no-break, ideographic): ordinary characters to the grammar, also at
            # the start of a value or list item; never last (str.strip() takes them for whitespace: see F-C08-1)
            out.append(rng.choice(UNICODE_BLANKS))
        elif r < 0.86 and nonascii:
            out.append(rng.choice(NONASCII))
        elif r < 0.96 and escaped:
            out.append(rng.choice(RESERVED_LIST))
        elif not escaped:
            # GTF has no escaping: '%', '=', '&' and even things that look like escapes are ordinary text
            out.append(rng.choice(["%", "=", "&", "%41", "%20", "%3B", "%2C", "\\\\", "\\"]))
        else:
            out.append(rng.choice(PLAIN))
    v = "".join(out)
    if not escaped:
        for bad in ';",':
            v = v.replace(bad, "x")
    return v


def with_empty_items(rng, vals, D):
    """Comma lists may hold empty items ('a,,b', 'a,', ',a'); not under repeated keys, where an empty value is a flag."""
    if D["repeated"] or rng.random() > 0.06:
        return vals
    vals = list(vals)
    vals.insert(rng.randrange(0, len(vals) + 1), "")
    return vals


def key(rng, wordlike=True, used=(), ascii_only=False):
    for _ in range(50):
        r = rng.random()
        if r < 0.04 and not ascii_only:
            k = rng.choice(NONASCII_KEYS)
        elif r < 0.6:
            k = rng.choice(COMMON_KEYS)
        else:
            chars = KEYCHARS_WORD if wordlike else KEYCHARS_FULL
            k = rng.choice(KEYCHARS_FIRST) + "".join(rng.choice(chars) for _ in range(rng.randrange(0, 7)))
        if k not in used:
            return k
    return "k%d" % len(used)


def attrs(rng, D, nmin=1, nmax=5, flags=True, force_multi=False, first_wordlike=True, wordlike=True,
          single_valued=(), **valkw):
    """Ordered attributes for one line under dialect point D."""
    n = rng.randrange(nmin, nmax + 1)
    out = []
    used = []
    escaped = D["fmt"] in ("gff3", "gff2", "gff3q")
    for i in range(n):
        k = key(rng, wordlike=(wordlike or (i == 0 and first_wordlike)), used=used)
        used.append(k)
        r = rng.random()
        if flags and r < 0.08 and not (i == 0 and D["fmt"] in ("gff3", "gff3q")):
            vals = []
        elif r < 0.30 and k not in single_valued:
            vals = with_empty_items(rng, [value(rng, escaped=escaped, **valkw) for _ in range(rng.randrange(2, 4))], D)
        else:
            vals = [value(rng, escaped=escaped, **valkw)]
        out.append([k, vals])
    if force_multi and not any(len(v) > 1 for _, v in out):
        cands = [i for i in range(n) if out[i][0] not in single_valued]
        if cands:
            i = rng.choice(cands)
            out[i][1] = [value(rng, escaped=escaped, **valkw) for _ in range(2)]
    return out


def columns(rng, dots=True, coords=None):
    if coords is not None:
        s, e = coords
    elif rng.random() < 0.01:
        # coordinates far beyond anything a float represents exactly
        s = rng.choice([2 ** 53 + 1, 2 ** 61 + 12345, 9007199254740993, 4611686018427387903 - 5000])
        e = s + rng.randrange(0, 5000)
    else:
        s = rng.randrange(1, 200000)
        e = s + rng.randrange(0, 5000)
    start, end = str(s), str(e)
    if dots and rng.random() < 0.06:
        start = "."
    if dots and rng.random() < 0.06:
        end = "."
    return {
        "seqid": rng.choice(SEQIDS),
        "source": rng.choice(SOURCES),
        "featuretype": rng.choice(TYPES),
        "start": start,
        "end": end,
        "score": rng.choice([".", ".", "0", "12.5", "1e-10", "900", "-3"]),
        "strand": rng.choice(["+", "-", "."]),
        "frame": rng.choice([".", ".", "0", "1", "2"]),
    }


def extra(rng):
    r = rng.random()
    if r < 0.75:
        return []
    n = 1 if r < 0.9 else 2
    # extra columns are opaque text, whatever they look like (numbers, JSON documents, quotes)
    return [rng.choice(["x", "extra col", "12", "a=b;c", "é", ".", "7", "2.5", "true", "null", "{}", "0", '"hit"', '["a","b"]', "[]"])
            for _ in range(n)]


def record(rng, D, **kw):
    rec = columns(rng, dots=kw.pop("dots", True), coords=kw.pop("coords", None))
    want_extra = kw.pop("want_extra", True)
    rec["attrs"] = attrs(rng, D, **kw)
    rec["extra"] = extra(rng) if want_extra else []
    return rec


def expected_columns(rec):
    """What a parser must report for the eight fixed columns."""
    def coord(x):
        return None if x in (".", "") else int(x)
    return {
        "seqid": rec["seqid"], "source": rec["source"], "featuretype": rec["featuretype"],
        "start": coord(rec["start"]), "end": coord(rec["end"]), "score": rec["score"],
        "strand": rec["strand"], "frame": rec["frame"],
    }
