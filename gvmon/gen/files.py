"""
Annotation files written consistently in one dialect point.

items: list of {"t": "feat", "rec": record} | {"t": "comment", "text": "#..."} | {"t": "blank"} |
       {"t": "directive", "text": "##..."}
"""
from gvmon.gen import records as R
from gvmon.models import dialect as M

GFF_TYPES = ["gene", "mRNA", "exon", "CDS", "region", "ncRNA", "match_part", "TSS", "five_prime_UTR"]
GTF_TYPES = ["exon", "CDS", "start_codon", "stop_codon", "UTR", "exon", "Selenocysteine"]
SINGLE = ("ID", "gene_id", "transcript_id")


def uniform_records(rng, D, n, ids="unique", coords=True):
    """Uniform regime: every line exhibits every dialect feature; line 1 carries all keys in the global order."""
    gtf = D["fmt"] == "gtf"
    nkeys = rng.randrange(3, 7)
    if gtf:
        keys = ["gene_id", "transcript_id"]
    else:
        keys = ["ID"] if rng.random() < 0.8 else []
    while len(keys) < nkeys:
        k = R.key(rng, wordlike=True, used=keys + ["ID", "gene_id", "transcript_id"])
        keys.append(k)
    if not gtf and keys and keys[0] != "ID" and rng.random() < 0.5:
        rng.shuffle(keys)
    multi_ok = [k for k in keys if k not in SINGLE]
    escaped = M.escapes(D)
    recs = []
    for i in range(n):
        if i == 0:
            sub = list(keys)
        else:
            size = rng.randrange(2, len(keys) + 1)
            pick = sorted(rng.sample(range(len(keys)), size))
            sub = [keys[j] for j in pick]
            if gtf:
                for must in ("transcript_id", "gene_id"):
                    if must not in sub:
                        sub.insert(0, must)
                sub = [k for k in keys if k in sub]
            if not any(k in multi_ok for k in sub):
                sub.append(multi_ok[-1])
                sub = [k for k in keys if k in sub]
        attrs = []
        multi_key = rng.choice([k for k in sub if k in multi_ok])
        for pos, k in enumerate(sub):
            if k == multi_key:
                vals = [R.value(rng, escaped=escaped) for _ in range(rng.randrange(2, 4))]
                if not D["repeated"]:
                    vals = R.with_empty_items(rng, vals, D)
            elif k in SINGLE:
                vals = ["x"]  # set below
            else:
                r = rng.random()
                if r < 0.07 and not (pos == 0 and D["fmt"] in ("gff3", "gff3q")):
                    vals = []
                elif r < 0.25:
                    vals = [R.value(rng, escaped=escaped) for _ in range(2)]
                else:
                    vals = [R.value(rng, escaped=escaped)]
            attrs.append([k, vals])
        rec = R.columns(rng, dots=coords)
        rec["featuretype"] = rng.choice(GTF_TYPES if gtf else GFF_TYPES)
        rec["attrs"] = attrs
        rec["extra"] = R.extra(rng)
        recs.append(rec)
    assign_ids(rng, recs, gtf, ids)
    return recs


def sparse_records(rng, D, n, ids="unique"):
    """Sparse regime: any line shapes of the grammar, including one-attribute and attribute-less lines."""
    gtf = D["fmt"] == "gtf"
    recs = []
    for i in range(n):
        r = rng.random()
        nmin, nmax = (0, 0) if r < 0.05 else ((1, 1) if r < 0.35 else (2, 5))
        rec = R.record(rng, D, nmin=nmin, nmax=nmax, single_valued=SINGLE)
        rec["featuretype"] = rng.choice(GTF_TYPES if gtf else GFF_TYPES)
        if gtf and rec["featuretype"] == "exon":
            # GTF: an exon names both its transcript and its gene (the format requires it; extent
            # inference over an exon that names only one of them is outside every property)
            have = [k for k, _ in rec["attrs"]]
            for must in ("gene_id", "transcript_id"):
                if must not in have:
                    rec["attrs"].append([must, ["x"]])
        recs.append(rec)
    assign_ids(rng, recs, gtf, ids)
    return recs


def assign_ids(rng, recs, gtf, ids):
    """Make primary keys unique ('unique') or deliberately colliding ('dups')."""
    pool = ["dup%d" % i for i in range(3)]
    for i, rec in enumerate(recs):
        for kv in rec["attrs"]:
            k = kv[0]
            if k == "ID":
                # unique ids include twins that differ only in letter case (idA / IDa / ida are three features)
                kv[1] = [(["id%d", "ID%d", "Id%d"][i % 3] % (i // 3)) if ids == "unique" else rng.choice(pool)]
            elif k == "gene_id":
                kv[1] = ["G%d" % rng.randrange(1, 4)]
            elif k == "transcript_id":
                kv[1] = ["T%d" % rng.randrange(1, 5)]
        if gtf:
            # one gene per transcript, as in real annotations
            d = dict((k, v) for k, v in rec["attrs"])
            if "transcript_id" in d and "gene_id" in d and d["transcript_id"] and d["gene_id"]:
                t = int(d["transcript_id"][0][1:])
                for kv in rec["attrs"]:
                    if kv[0] == "gene_id":
                        kv[1] = ["G%d" % (1 + t % 3)]


def decorate(rng, recs, directives=True, comments=True):
    """Interleave comment, blank and directive lines."""
    items = []
    if directives and rng.random() < 0.6:
        items.append({"t": "directive", "text": "##gff-version 3"})
    for rec in recs:
        r = rng.random()
        if comments and r < 0.08:
            items.append({"t": "comment", "text": "# a comment; with=chars\tand tabs"})
        elif comments and r < 0.13:
            items.append({"t": "blank"})
        elif directives and r < 0.18:
            items.append({"t": "directive", "text": "##sequence-region chr1 1 %d" % rng.randrange(1, 10 ** 6)})
        items.append({"t": "feat", "rec": rec})
    return items


def text_of(items, D, final_newline=True):
    lines = []
    for it in items:
        if it["t"] == "feat":
            lines.append(M.render_line(it["rec"], D))
        elif it["t"] == "blank":
            lines.append("")
        else:
            lines.append(it["text"])
    return "\n".join(lines) + ("\n" if final_newline else "")


def feature_lines(items, D):
    return [M.render_line(it["rec"], D) for it in items if it["t"] == "feat"]


def window_vote(recs, D, k):
    """Reference vote over the first k feature lines."""
    window = []
    for rec in recs[:k]:
        obs = M.observed(rec["attrs"], D)
        if obs is None:
            window.append((dict(M.DEFAULT), []))
        else:
            window.append((obs, [kv[0] for kv in rec["attrs"]]))
    return M.vote(window)


def same_dialect(voted, D):
    want = M.gffutils_dialect(D, [])
    return all(voted[k] == want[k] for k in want if k != "order")
