"""
Generators for C17: arbitrary Unicode strings, value forms, mappings, operation lists, number-like strings.
No gffutils import.
"""
from gvmon.gen import records as R

STRUCTURAL = ['"', "\\", "/", "{", "}", "[", "]", ":", ",", " ", "'", ";", "=", "%", "&", "\t", "\n", "\r"]
CONTROLS = [chr(i) for i in range(32)] + ["\x7f", "\x80", "\x85", "\x9f", " ", " ", "﻿", "​", "‮"]
ASTRAL = ["\U0001F9EC", "\U00010000", "\U0010FFFF", "\U0001D11E", "\U000E0001"]
COMBINING = ["é", "́", "̧a", "ñ", "가", "กิ", "‍"]
BMP = ["é", "ß", "漢", "Ω", "ї", "µ", "ñ", " ", "　", "￿", "�", "퟿", "", "٣", "½"]
HIGH = ["\ud800", "\udbff", "\ud83e"]
LOW = ["\udc00", "\udfff", "\uddec"]
JSONISH = ["\\u0041", "\\n", '\\"', "null", "true", "[]", "{}", '{"a":["b"]}', "\\ud800", "%22", "\\\\"]
NUMBERISH = ["1", "10", "9", "2", "2.5", "-3", "1e3", "1E-2", "+4", "007", "1.0", "1.00", ".5", "5.", "0", "-0", "100",
             "3.14", "12", "1e-10", "99", "1000000", "-1.5e2"]
UNCLEAR_NUM = ["nan", "NaN", "inf", "-inf", "Infinity", "1_0", " 1", "1 ", "٣", "1e999", "-1e999", "\t2"]
NOT_NUM = ["", "abc", "0x10", "1,5", "1e", "--1", "e5", "é", "1 2", "."]


def ustr(rng, surrogates=False, maxlen=12, allow_empty=True):
    n = int(rng.expovariate(0.35))
    if not allow_empty:
        n += 1
    out = []
    for _ in range(min(n, maxlen)):
        r = rng.random()
        if r < 0.30:
            out.append(rng.choice(R.PLAIN))
        elif r < 0.45:
            out.append(rng.choice(STRUCTURAL))
        elif r < 0.57:
            out.append(rng.choice(CONTROLS))
        elif r < 0.65:
            out.append(rng.choice(ASTRAL))
        elif r < 0.73:
            out.append(rng.choice(COMBINING))
        elif r < 0.82:
            out.append(rng.choice(BMP))
        elif r < 0.86:
            out.append(rng.choice(JSONISH))
        elif r < 0.93 and surrogates:
            out.append(rng.choice(HIGH + LOW))
        else:
            cp = rng.randrange(0, 0x110000)
            if 0xD800 <= cp <= 0xDFFF and not surrogates:
                cp = 0x41
            out.append(chr(cp))
    s = "".join(out)
    if surrogates:
        s = no_pairs(s)
    return s


def no_pairs(s):
    """A high surrogate directly followed by a low one *is* an astral character in every JSON text: such code-point
    sequences are not strings JSON can tell apart, so they are not generated (a separator is inserted)."""
    out = []
    for ch in s:
        if out and 0xD800 <= ord(out[-1][-1]) <= 0xDBFF and 0xDC00 <= ord(ch) <= 0xDFFF:
            out.append("|")
        out.append(ch)
    return "".join(out)


def has_surrogate(s):
    return any(0xD800 <= ord(c) <= 0xDFFF for c in s)


def ukey(rng, used, surrogates=False, simple=0.4):
    for _ in range(50):
        if rng.random() < simple:
            k = R.key(rng, wordlike=False, used=used)
        else:
            k = ustr(rng, surrogates=surrogates, maxlen=6)
        if k not in used:
            return k
    return "k%d" % len(used)


def values(rng, surrogates=False):
    r = rng.random()
    if r < 0.10:
        n = 0
    elif r < 0.60:
        n = 1
    else:
        n = rng.randrange(2, 5)
    vals = [ustr(rng, surrogates=surrogates) for _ in range(n)]
    if n >= 2 and rng.random() < 0.15:
        vals[-1] = vals[0]  # repeated value inside one list
    return vals


SUBCLASS_OF = {"scalar": "substr", "list": "sublist", "tuple": "subtuple"}
P_SUBCLASS = 0.18


def subclassed(rng, f, ntuple=False):
    """With probability P_SUBCLASS the same value as an instance of a subclass of its type (Name(str), TagList(list),
    TagTuple(tuple); ntuple=True: half of the tuple subclass instances are namedtuples of strings)."""
    if rng.random() < P_SUBCLASS:
        if ntuple and f[0] == "tuple" and rng.random() < 0.5:
            return ["ntuple", f[1]]
        return [SUBCLASS_OF[f[0]], f[1]]
    return f


def form(rng, surrogates=False, ntuple=False):
    """One way of giving a value: scalar string, list, tuple - or an instance of a subclass of these."""
    r = rng.random()
    if r < 0.35:
        return subclassed(rng, ["scalar", ustr(rng, surrogates=surrogates)])
    if r < 0.75:
        return subclassed(rng, ["list", values(rng, surrogates)])
    return subclassed(rng, ["tuple", values(rng, surrogates)], ntuple)


def mapping(rng, surrogates=False, nmax=6, nmin=0):
    """[[key, [values]]] with arbitrary Unicode keys and values, keys in a random (unsorted) order."""
    used = []
    out = []
    for _ in range(rng.randrange(nmin, nmax + 1)):
        k = ukey(rng, used, surrogates)
        used.append(k)
        out.append([k, values(rng, surrogates)])
    return out


def form_mapping(rng, surrogates=False, nmax=6, exclude=()):
    used = list(exclude)
    out = []
    for _ in range(rng.randrange(0, nmax + 1)):
        k = ukey(rng, used, surrogates)
        used.append(k)
        out.append([k, form(rng, surrogates)])
    return out


HOWS = ["feature_setitem", "attr_setitem", "update_dict", "update_kwargs", "update_pairs", "update_attrs", "setdefault",
        "delete"]


PARAM_NAMES = ["other", "args", "kwargs", "key", "value", "k", "v", "d", "mapping", "iterable", "E", "F", "m", "default", "item"]


# attribute keys, as they arrive by PARSING a line or from a DATABASE row, that are spelled like parameter names of Python
# functions / methods (ID=g1;self=yes;kwargs=2): the names asked for first (twice as likely), then further usual ones
PARSED_PARAM_NAMES = ["self", "cls", "args", "kwargs", "other", "d", "key", "value"]
MORE_PARAM_NAMES = ["k", "v", "x", "obj", "mapping", "iterable", "default", "isattributes", "items", "keys", "values", "data",
                    "name", "dict", "string", "line", "feature", "update", "pop", "get"]


def kw_safe(how, items):
    """'self' cannot be given as a KEYWORD to any method written in Python (update(self=...) is refused by the call
    itself, before gffutils sees it): such items go through update(dict) instead."""
    if how == "update_kwargs" and any(k == "self" for k, _ in items):
        return "update_dict"
    return how


def param_key(rng, used=()):
    pool = [k for k in PARSED_PARAM_NAMES + PARSED_PARAM_NAMES + MORE_PARAM_NAMES if k not in used]
    return rng.choice(pool) if pool else None


def is_param_key(k):
    return k in PARSED_PARAM_NAMES or k in MORE_PARAM_NAMES


def param_pairs(rng, fmt="gff3", nmin=1, nmax=4, used=()):
    """[[key, [values]]]: 1-4 attributes named like parameters, values that survive a line (GTF: one value)."""
    used = list(used)
    out = []
    for _ in range(rng.randrange(nmin, nmax + 1)):
        k = param_key(rng, used)
        if k is None:
            break
        used.append(k)
        if fmt == "gtf":
            vals = [simple_value(rng)]
        else:
            vals = [simple_value(rng) for _ in range(rng.choice([1, 1, 1, 2, 3]))]
        out.append([k, vals])
    return out


def param_base(rng, fmt):
    """Base attributes of a line carrying 1-4 attributes named like parameters (ID=g1;self=yes;kwargs=a,b)."""
    if fmt == "gtf":
        base = [["gene_id", [simple_value(rng)]], ["transcript_id", [simple_value(rng)]]]
    else:
        base = [["ID", [simple_value(rng)]]]
    base += param_pairs(rng, fmt)
    if rng.random() < 0.4:
        base.insert(rng.randrange(1, len(base) + 1), ["Note", [simple_value(rng)]])
    return base


def param_ops(rng, base_keys, ntuple=False):
    """0-4 operations, keys mostly parameter names ('self' never as a KEYWORD: update(self=...) is refused by Python
    itself for any method written in Python)."""
    keys = list(base_keys)
    out = []
    for _ in range(rng.randrange(0, 5)):
        how = rng.choice(HOWS[:-1]) if rng.random() < 0.92 else "delete"
        items = []
        m = 1 if how in ("feature_setitem", "attr_setitem", "setdefault", "delete") else rng.randrange(1, 4)
        for _ in range(m):
            r = rng.random()
            if r < 0.4 and keys:
                k = rng.choice(keys)
            elif r < 0.9:
                k = param_key(rng)
            else:
                k = ukey(rng, keys)
            if k not in keys:
                keys.append(k)
            if any(k == it[0] for it in items):
                continue
            items.append([k, form(rng, ntuple=ntuple)])
        if items:
            out.append({"how": kw_safe(how, items), "items": items, "switch": rng.random() < 0.7})
    return out


def ops(rng, base_keys, n=None, ntuple=False):
    """Operations on the attributes of one feature.  Each: {"how", "items": [[key, form]], "switch": bool}
    ("switch" False = the operation is carried out while always_return_list is False)."""
    keys = list(base_keys)
    out = []
    for _ in range(n if n is not None else rng.randrange(1, 7)):
        how = rng.choice(HOWS[:-1]) if rng.random() < 0.92 else "delete"
        items = []
        m = 1 if how in ("feature_setitem", "attr_setitem", "setdefault", "delete") else rng.randrange(1, 4)
        for _ in range(m):
            if how in ("update_kwargs", "update_dict", "attr_setitem") and rng.random() < 0.25:
                # attribute names that happen to be parameter names of mapping methods ('self' excluded: as a keyword it
                # collides with the bound object in any Python-level update(self, ...))
                k = rng.choice(PARAM_NAMES)
                if k not in keys:
                    keys.append(k)
            elif keys and rng.random() < 0.35:
                k = rng.choice(keys)
            else:
                k = ukey(rng, keys)
                keys.append(k)
            if any(k == it[0] for it in items):
                continue
            items.append([k, form(rng, ntuple=ntuple)])
        out.append({"how": kw_safe(how, items), "items": items, "switch": rng.random() < 0.7})
    return out


def is_rich(text):
    return any(ord(c) > 126 or ord(c) < 32 or c in '"\\%;=&,' for c in text)


# --- merge ----------------------------------------------------------------------
def merge_value_pool(rng):
    r = rng.random()
    if r < 0.35:
        return [rng.choice(NUMBERISH) for _ in range(6)], "numbers"
    if r < 0.50:
        return [rng.choice(NUMBERISH + UNCLEAR_NUM) for _ in range(6)], "numbers+unclear"
    if r < 0.65:
        return [rng.choice(NUMBERISH + NOT_NUM) for _ in range(6)], "mixed"
    if r < 0.85:
        return [ustr(rng, maxlen=5) for _ in range(5)], "unicode"
    return [rng.choice(R.PLAIN) + rng.choice(R.PLAIN + "é漢") for _ in range(5)], "plain"


def merge_args(rng):
    """Two argument mappings [[key, value]] (value: list of str, or a scalar str in plain dicts) with overlapping keys
    and overlapping values."""
    allkeys = []
    for _ in range(rng.randrange(1, 6)):
        allkeys.append(ukey(rng, allkeys, simple=0.7))
    pools = {k: merge_value_pool(rng) for k in allkeys}
    args = []
    for _ in range(2):
        pairs = []
        ks = [k for k in allkeys if rng.random() < 0.7]
        rng.shuffle(ks)
        for k in ks:
            pool = pools[k][0]
            r = rng.random()
            if r < 0.08:
                v = []
            elif r < 0.2:
                v = rng.choice(pool)  # scalar
            else:
                v = [rng.choice(pool) for _ in range(rng.randrange(1, 5))]
            pairs.append([k, v])
        args.append(pairs)
    return args[0], args[1], sorted(set(p[1] for p in pools.values()))


# --- pools of features for the equality clause -----------------------------------
SIMPLE = "abcdefghijXYZ0123456789_.-"


def simple_value(rng):
    return "".join(rng.choice(SIMPLE) for _ in range(rng.randrange(1, 6))) + rng.choice(["", "", "\u00e9", "\u6f22"])


def gff3_line(cols, attrs, extra=()):
    parts = []
    for k, v in attrs:
        parts.append(k + "=" + ",".join(v) if v else k)
    return "\t".join(list(cols) + [";".join(parts)] + list(extra))


TAILS = [" ", "\u00a0", "\u3000", "\x85", "   ", " \u00a0", "\u2028", "\u2003", "\u1680", "\x85 ", "\u3000\u3000"]
LEADS = [" ", "\u00a0", "\u3000", "\x85"]
NORM_PAIRS = [("\u00e9", "e\u0301"), ("\u00c5", "\u212b"), ("\uac00", "\u1100\u1161"), ("\u00f1", "n\u0303"), ("\u1e69", "s\u0323\u0307")]


def near_groups(rng, cols, attrs, line):
    """Groups of specifications whose printed lines differ from the base record's line (and from one another) only at
    the very end / very start of the line, by letter case, or by Unicode normalisation form."""
    def ctor(c, a, **kw):
        return dict({"via": "ctor", "cols": list(c), "attrs": [[k, ["list", list(v)]] for k, v in a], "dialect": "default",
                     "id": None}, **kw)

    def tail(suf):
        b = [[k, list(v)] for k, v in attrs]
        b[-1][1][-1] += suf
        return b

    t1, t2 = rng.choice(TAILS), rng.choice(TAILS)
    nfc, nfd = rng.choice(NORM_PAIRS)
    groups = {
        "tail": [ctor(cols, tail(t1)), {"via": "line", "line": line + t2}] + ([ctor(cols, tail(t1 + t2))] if rng.random() < 0.3 else []),
        "extra": [ctor(cols, attrs, extra=[""]), {"via": "line", "line": line + "\t"}]
                 + ([ctor(cols, attrs, extra=["", ""])] if rng.random() < 0.3 else []),
        "case": [ctor(cols, tail("Ab")), ctor(cols, tail("aB")) if rng.random() < 0.5 else {"via": "line", "line": gff3_line(cols, tail("aB"))}],
        "norm": [ctor(cols, tail(nfc)), ctor(cols, tail(nfd)) if rng.random() < 0.5 else {"via": "line", "line": gff3_line(cols, tail(nfd))}],
        "lead": [ctor([rng.choice(LEADS) + cols[0]] + list(cols[1:]), attrs)],
    }
    if rng.random() < 0.3:
        groups["tail"].append(ctor(cols, tail(t1), extra=[""]))
    return groups


def pool(rng):
    """Feature specifications around one base record: the same line twice, from a database, built directly with
    list / tuple values, under another dialect, with one thing changed, two equal Unicode-rich ones, and near-equal
    ones (near_groups)."""
    cols = [rng.choice(["chr1", "chr2L", "ctg.7-b", "chr\u00e9"]), rng.choice(["src", "FlyBase", "."]),
            rng.choice(["gene", "mRNA", "exon"]), str(rng.randrange(1, 5000)), "0", rng.choice([".", "0", "12.5"]),
            rng.choice(["+", "-", "."]), rng.choice([".", "0", "1"])]
    cols[4] = str(int(cols[3]) + rng.randrange(0, 900))
    attrs = [["ID", [simple_value(rng)]]]
    used = ["ID", "Parent"]
    for _ in range(rng.randrange(1, 4)):
        k = R.key(rng, wordlike=True, used=used)
        used.append(k)
        attrs.append([k, [simple_value(rng) for _ in range(1 if rng.random() < 0.5 else rng.randrange(2, 4))]])
    line = gff3_line(cols, attrs)
    changed = [[k, list(v)] for k, v in attrs]
    changed[-1][1][-1] = changed[-1][1][-1] + "x"
    moved = list(cols)
    moved[3] = str(int(cols[3]) + 1) if int(cols[3]) < int(cols[4]) else str(int(cols[3]) - 1 or 1)
    rotated = attrs[1:] + attrs[:1]
    joined = [[k, [",".join(v)]] for k, v in attrs]
    rich = form_mapping(rng, nmax=4)
    specs = [
        {"via": "line", "line": line},
        {"via": "line", "line": line},
        {"via": "db", "line": line},
        {"via": "ctor", "cols": cols, "attrs": [[k, ["list", v]] for k, v in attrs], "dialect": "default", "id": None},
        {"via": "ctor", "cols": cols, "attrs": [[k, ["tuple", v]] for k, v in attrs], "dialect": "default",
         "id": rng.choice(["some_id", "x", attrs[0][1][0]])},
        {"via": "ctor", "cols": cols, "attrs": [[k, ["list", v]] for k, v in attrs], "dialect": "gtf", "id": None},
        {"via": "ctor", "cols": cols, "attrs": [[k, ["list", v]] for k, v in joined], "dialect": "gtf", "id": None},
        {"via": "line", "line": gff3_line(cols, changed)},
        {"via": "line", "line": gff3_line(moved, attrs)},
        {"via": "line", "line": gff3_line(cols, rotated)},
        {"via": "line", "line": gff3_line(cols, attrs, extra=["extra col"])},
        {"via": "line", "line": line, "keep_order": True},
        {"via": "ctor", "cols": cols, "attrs": rich, "dialect": "default", "id": None},
        {"via": "ctor", "cols": cols, "attrs": rich, "dialect": "default", "id": "r2"},
        {"via": "ctor", "cols": cols, "attrs": rich, "dialect": "gtf", "id": None},
    ]
    # database records with identical printed lines under different primary keys (a line repeated in the input)
    noid = gff3_line(cols, attrs[1:])
    n = rng.choice([2, 2, 3])
    dups = [{"via": "dbdup", "line": noid, "n": n, "pick": i, "strategy": "auto"} for i in rng.sample(range(n), 2)]
    dups += [{"via": "dbdup", "line": line, "n": 2, "pick": i, "strategy": "create_unique"} for i in range(2)]
    if rng.random() < 0.5:
        dups.append({"via": "line", "line": noid})
    keep = specs[:7] + dups
    rest = specs[7:]
    rng.shuffle(rest)
    keep += rest[:rng.randrange(2, 6)]
    # near-equal lines: two or three of the five groups
    groups = near_groups(rng, cols, attrs, line)
    names = sorted(groups)
    rng.shuffle(names)
    for name in names[:rng.randrange(2, 4)]:
        keep += groups[name]
    rng.shuffle(keep)
    return keep


# --- one object edited between observations (kind edit); scalar-valued JSON (kind sjson) --------------------------------
RESERVED_INNER = [";", ",", "=", "%", "&", " ", "%41", "%2C", "+"]
OBSERVATIONS = ["str", "hash", "eq", "set", "json", "old"]
INPLACE_WEIGHTED = ["append", "append", "append", "extend", "extend", "pop", "pop", "setitem0", "setitem0", "pop0",
                    "setitem_last", "insert0", "remove_first", "reverse", "iadd", "clear", "sort", "slice_assign", "del0"]
COLUMN_VALUES = {
    0: ["chr1", "chr2L", "ctg.7-b", "chré", "1"],
    1: ["src", "FlyBase", ".", "a.b"],
    2: ["gene", "mRNA", "exon", "CDS"],
    5: [".", "0", "12.5", "900"],
    6: ["+", "-", "."],
    7: [".", "0", "1", "2"],
}


def safe_value(rng, fmt="gff3"):
    """Non-empty value that any reader of the format gets back unchanged from a printed line: starts and ends with a
    plain character; GFF3 values may hold reserved characters inside (they are percent-encoded in a line)."""
    s = "".join(rng.choice(SIMPLE) for _ in range(rng.randrange(1, 6)))
    if fmt == "gff3" and rng.random() < 0.3:
        s += rng.choice(RESERVED_INNER) + rng.choice(SIMPLE)
    return s + rng.choice(["", "", "", "é", "漢"])


def safe_values(rng, fmt):
    n = rng.choice([0, 1, 1, 1, 2, 2, 3])
    return [safe_value(rng, fmt) for _ in range(n)]


def safe_form(rng, fmt):
    r = rng.random()
    if r < 0.35:
        return subclassed(rng, ["scalar", safe_value(rng, fmt)])
    if r < 0.75:
        return subclassed(rng, ["list", safe_values(rng, fmt)])
    return subclassed(rng, ["tuple", safe_values(rng, fmt)])


def observations(rng, p=0.35):
    return [o for o in OBSERVATIONS if rng.random() < p]


def edit_steps(rng, base_keys, fmt):
    """Steps {"pre": [observations taken before the edit], "op": edit}.  Edits: the attribute operations of `ops`
    (reparse-safe values), in-place operations on a value list, assignments to columns."""
    keys = list(base_keys)
    steps = []
    for _ in range(rng.randrange(1, 6)):
        r = rng.random()
        if r < 0.40:
            how = rng.choice(HOWS[:-1]) if rng.random() < 0.9 else "delete"
            items = []
            for _ in range(1 if how in ("feature_setitem", "attr_setitem", "setdefault", "delete") else rng.randrange(1, 3)):
                if keys and rng.random() < 0.5:
                    k = rng.choice(keys)
                else:
                    k = R.key(rng, wordlike=True, used=keys)
                    keys.append(k)
                if any(k == it[0] for it in items):
                    continue
                items.append([k, safe_form(rng, fmt)])
            op = {"how": kw_safe(how, items), "items": items, "switch": rng.random() < 0.8}
        elif r < 0.75:
            what = rng.choice(INPLACE_WEIGHTED)
            nargs = rng.randrange(0, 4) if what in ("extend", "iadd", "slice_assign") else 1
            op = {"how": "inplace", "pick": rng.randrange(0, 12), "what": what,
                  "args": [safe_value(rng, fmt) for _ in range(nargs)]}
        else:
            i = rng.choice([3, 4, 4, 4, 3, 6, 6, 0, 1, 2, 5, 7])
            if i in (3, 4):
                value = rng.randrange(1, 5000) if rng.random() < 0.93 else None
            else:
                value = rng.choice(COLUMN_VALUES[i])
            via = "attr"
            if rng.random() < 0.2:
                via = "index"
            elif i in (0, 4) and rng.random() < 0.3:
                via = "alias"  # chrom / stop
            op = {"how": "column", "field": i, "value": value, "via": via}
        steps.append({"pre": observations(rng), "op": op})
    return steps


def scalar_base(rng, base):
    """[[key, form]] of a base mapping [[key, [values]]]: one-item lists mostly become scalars."""
    out = []
    for k, vals in base:
        if len(vals) == 1 and rng.random() < 0.75:
            out.append([k, ["scalar", vals[0]]])
        else:
            out.append([k, ["list", list(vals)]])
    return out


def scalar_items(rng, fmt, rich, exclude=()):
    """[[key, form]] with scalar / list forms only; rich = arbitrary Unicode keys and values (no lone surrogates),
    otherwise word-like keys and reparse-safe values."""
    used = list(exclude)
    out = []
    for i in range(rng.randrange(1, 6)):
        if rich:
            k = ukey(rng, used)
        elif rng.random() < 0.15 and param_key(rng, used):
            k = param_key(rng, used)
        else:
            k = R.key(rng, wordlike=True, used=used)
        used.append(k)
        if rng.random() < 0.65 or i == 0:
            f = ["scalar", ustr(rng) if rich else safe_value(rng, fmt)]
        elif rich:
            f = ["list", values(rng)]
        else:
            f = ["list", safe_values(rng, fmt)]
        out.append([k, f])
    return out


# --- attribute keys spelled like the fixed columns / other members of a Feature ---------------------------------------
MEMBER_NAMES = ["seqid", "source", "featuretype", "start", "end", "score", "strand", "frame", "attributes", "extra", "id",
                "bin", "dialect", "chrom", "stop", "file_order", "keep_order", "sort_attribute_values"]
COLUMN_NAMES = MEMBER_NAMES[:8]
# what such attributes look like in files ("score=0.93", "source=HAVANA", "end=7", "strand=-", "frame=2")
MEMBER_VALUES = ["0.93", "HAVANA", "7", "-", "2", "+", ".", "0", "chrX", "exon", "100", "1e-5", "refseq", "x"]


def member_value(rng):
    return rng.choice(MEMBER_VALUES) if rng.random() < 0.6 else simple_value(rng)


def member_key(rng, used=()):
    """A key spelled like a Feature member, the eight column names twice as likely as the others."""
    pool = [k for k in COLUMN_NAMES + MEMBER_NAMES if k not in used]
    return rng.choice(pool) if pool else None


def member_base(rng, fmt):
    """Base attributes of a line that carries 1-4 attributes named like Feature members (score=0.93;source=HAVANA)."""
    if fmt == "gtf":
        base = [["gene_id", [simple_value(rng)]], ["transcript_id", [simple_value(rng)]]]
    else:
        base = [["ID", [simple_value(rng)]]]
    used = []
    for _ in range(rng.randrange(1, 5)):
        k = member_key(rng, used)
        used.append(k)
        if fmt == "gtf":
            vals = [member_value(rng)]
        else:
            vals = [member_value(rng) for _ in range(rng.choice([1, 1, 1, 2, 3]))]
        base.append([k, vals])
    if rng.random() < 0.4:
        base.insert(rng.randrange(1, len(base) + 1), ["Note", [simple_value(rng)]])
    return base


def member_ops(rng, base_keys, ntuple=False):
    """1-6 operations whose keys are mostly spelled like Feature members; half of them go through the Feature
    (feature[key] = value), the others through every route of the attributes mapping."""
    keys = list(base_keys)
    out = []
    for _ in range(rng.randrange(1, 7)):
        r = rng.random()
        how = "feature_setitem" if r < 0.5 else ("delete" if r > 0.95 else rng.choice(HOWS[1:-1]))
        items = []
        m = 1 if how in ("feature_setitem", "attr_setitem", "setdefault", "delete") else rng.randrange(1, 4)
        for _ in range(m):
            r = rng.random()
            if r < 0.3 and keys:
                k = rng.choice(keys)
            elif r < 0.9:
                k = rng.choice(COLUMN_NAMES + MEMBER_NAMES)
            else:
                k = ukey(rng, keys)
            if k not in keys:
                keys.append(k)
            if any(k == it[0] for it in items):
                continue
            f = form(rng, ntuple=ntuple)
            if rng.random() < 0.5:
                # column-like content: f['source'] = 'refseq', f['end'] = '7'
                v = member_value(rng)
                f = [f[0], v if f[0] in ("scalar", "substr") else [v] + list(f[1][:1])]
            items.append([k, f])
        out.append({"how": kw_safe(how, items), "items": items, "switch": rng.random() < 0.7})
    return out


# --- keep_order features whose own key order differs from the order of their dialect ----------------------------------
KO_KEYS = ["ID", "Name", "biotype", "Alias", "Note", "gene_id", "transcript_id", "zeta", "Dbxref", "description", "score",
           "tag", "étiquette", "self", "kwargs", "value", "cls"]


def korder_case(rng):
    """A first line (the one that defines the dialect's 'order') and 1-3 later lines listing keys of it in ANOTHER order
    (+ keys of their own); ids under key ID.  route line: later lines parsed with the first line's dialect and
    keep_order=True; ctor: Feature(attributes=<mapping in the given order>, keep_order=True) under the default dialect
    (order ID, Name, gene_id, transcript_id) or the first line's; db: the lines imported with keep_order=True, features
    fetched through FeatureDB(keep_order=True), edited and written back."""
    route = rng.choice(["line", "line", "ctor", "db", "db", "db"])
    n = rng.randrange(2, 6)
    default = route == "ctor" and rng.random() < 0.5
    if default:
        first = ["ID", "Name", "gene_id", "transcript_id"]      # the order of the default dialect
    else:
        first = ["ID"] + rng.sample([k for k in KO_KEYS if k != "ID"], n)
        rng.shuffle(first)

    def vals():
        return [safe_value(rng) for _ in range(rng.choice([1, 1, 2, 3]))]

    lines = [[[k, ["g0"] if k == "ID" else vals()] for k in first]]
    for i in range(1, rng.randrange(2, 5)):
        keys = rng.sample(first, rng.randrange(2, len(first) + 1))
        if "ID" not in keys:
            keys.append("ID")
        for _ in range(20):
            rng.shuffle(keys)
            if keys != [k for k in first if k in keys]:
                break
        own = [k for k in KO_KEYS if k not in first]
        for k in rng.sample(own, rng.randrange(0, min(3, len(own) + 1))):
            keys.insert(rng.randrange(0, len(keys) + 1), k)
        lines.append([[k, ["g%d" % i] if k == "ID" else vals()] for k in keys])
    case = {"kind": "korder", "route": route, "lines": lines, "flip": rng.random() < 0.4}
    if route == "ctor":
        case["attrs_as"] = rng.choice(["dict", "attributes", "json"])
        case["dialect"] = "default" if default else "first"
    if route == "db":
        case["file"] = rng.random() < 0.4
        case["writes"] = [{"how": rng.choice(["child_func", "child_func", "parent_func", "update_replace"]),
                           "pick": rng.randrange(1, len(lines)), "key": rng.choice(["Parent", "Parent", "note2", "Name", "Alias"]),
                           "scalar": rng.random() < 0.6}
                          for _ in range(rng.randrange(1, 4))]
    return case
