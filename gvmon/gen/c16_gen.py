"""
Generators for C16: interval multisets (exhaustive and random), seqid/strand/type labellings, merge criteria
described as data, and small GFF3 databases.

feature row = [seqid, strand, featuretype, start, end]
"""
import itertools

NPOS = 8
INTERVALS = [(s, e) for s in range(1, NPOS + 1) for e in range(s, NPOS + 1)]   # 36
DEFAULT = ["seqid", "overlap_end_inclusive", "strand", "feature_type"]
SEQIDS = ["a", "b"]
STRANDS = ["+", "-", "."]
TYPES = ["exon", "CDS"]
SIMPLE = ["seqid", "strand", "feature_type", "exact_coordinates_only", "overlap_end_inclusive",
          "overlap_start_inclusive", "overlap_any_inclusive"]
THRESHOLDS = ["overlap_end_threshold", "overlap_start_threshold", "overlap_any_threshold"]


def multisets(kmax):
    """All multisets of 1..kmax of the 36 intervals (as tuples of intervals)."""
    for k in range(1, kmax + 1):
        for combo in itertools.combinations_with_replacement(INTERVALS, k):
            yield combo


def n_multisets(kmax):
    from math import comb
    return sum(comb(len(INTERVALS) + k - 1, k) for k in range(1, kmax + 1))


def start_orders(ms):
    """The start-ordered arrangements of a multiset with equal-start ties in both orders."""
    a = sorted(ms, key=lambda iv: (iv[0], iv[1]))
    b = sorted(ms, key=lambda iv: (iv[0], -iv[1]))
    return [a] if a == b else [a, b]


def uniform_labels(rng, n):
    lab = [rng.choice(SEQIDS), rng.choice(STRANDS), rng.choice(TYPES)]
    return [list(lab) for _ in range(n)]


def mixed_labels(rng, n):
    """Labels that differ in one or two of the three columns, so that runs are cut by exactly those columns."""
    base = [rng.choice(SEQIDS), rng.choice(STRANDS), rng.choice(TYPES)]
    vary = rng.sample([0, 1, 2], rng.choice([1, 1, 2, 3]))
    pools = [SEQIDS, STRANDS, TYPES]
    out = []
    for _ in range(n):
        lab = list(base)
        for c in vary:
            if rng.random() < 0.5:
                lab[c] = rng.choice(pools[c])
        out.append(lab)
    return out


def rows(labels, intervals):
    return [lab + [s, e] for lab, (s, e) in zip(labels, intervals)]


def group_then_start(feats):
    """Stable: groups in (seqid, strand, type) order, input order kept inside a group."""
    return sorted(feats, key=lambda r: (r[0], r[1], r[2]))


def criteria(rng, custom=True):
    """A random criteria list, described as data."""
    r = rng.random()
    if r < 0.08:
        return []
    out = []
    for lab in ("seqid", "strand", "feature_type"):
        if rng.random() < 0.6:
            out.append(lab)
    r = rng.random()
    if r < 0.3:
        out.append(rng.choice(SIMPLE[3:]))
    elif r < 0.85:
        out.append([rng.choice(THRESHOLDS), rng.randrange(0, 6)])
    if custom and rng.random() < 0.25:
        out.append(rng.choice([["custom", "start_within", rng.randrange(0, 5)], ["custom", "same_start_parity"],
                               ["custom", "max_members", rng.randrange(1, 4)], ["custom", "end_not_before_start"],
                               ["custom", "length_within", rng.randrange(0, 4)]]))
    rng.shuffle(out)
    return out


def tie_insensitive_criteria(rng):
    r = rng.random()
    if r < 0.45:
        return list(DEFAULT)
    out = [lab for lab in ("seqid", "strand", "feature_type") if rng.random() < 0.65]
    r = rng.random()
    if r < 0.3:
        out.append("overlap_end_inclusive")
    elif r < 0.9:
        out.append(["overlap_end_threshold", rng.randrange(0, 6)])
    rng.shuffle(out)
    return out


def random_intervals(rng, n, span=40, distinct_starts=False):
    out = []
    starts = set()
    while len(out) < n:
        s = rng.randrange(1, span + 1)
        if distinct_starts and s in starts:
            continue
        starts.add(s)
        e = min(span + 6, s + rng.choice([0, 0, 1, 2, 3, 5, 8, 13]))
        out.append((s, e))
    return out


def random_feats(rng, nmax=12):
    n = rng.randrange(1, nmax + 1)
    span = rng.choice([12, 25, 40, 60])
    ivs = sorted(random_intervals(rng, n, span), key=lambda iv: (iv[0], rng.random()))
    r = rng.random()
    labels = uniform_labels(rng, n) if r < 0.4 else mixed_labels(rng, n)
    off = rng.choice([0, 0, 0, 131060, 2 ** 20 - 20])
    return [lab + [s + off, e + off] for lab, (s, e) in zip(labels, ivs)]


def ids_for(rng, feats, shaped=False):
    """Unique ids; shaped=True gives ids of the form <featuretype>_<n>, as many real annotation files have."""
    if shaped:
        counters = {}
        out = []
        for r in feats:
            counters[r[2]] = counters.get(r[2], 0) + 1
            out.append("%s_%d" % (r[2], counters[r[2]]))
        return out
    return ["f%d" % i for i in range(len(feats))]


def gff3(feats, ids, parents=None, same_source=False, frames=None):
    """One line per row.  ids[i] None = a line without ID attribute (gffutils generates the id); same_source = every line
    carries the same source column (so that rows equal in the five model columns are equal in all nine columns);
    frames[i] = the 8th column of row i ('0', '1', '2' or '.'; default '.')."""
    lines = []
    for i, (r, fid) in enumerate(zip(feats, ids)):
        attrs = [] if fid is None else ["ID=%s" % fid]
        if parents and parents[i]:
            attrs.append("Parent=" + ",".join(parents[i]))
        if not attrs:
            attrs.append("note=dup")
        lines.append("\t".join([r[0], "src" if same_source else "src%d" % (i % 2), r[2], str(r[3]), str(r[4]), ".", r[1],
                                frames[i] if frames else ".", ";".join(attrs)]))
    return "\n".join(lines) + "\n"


# -- the forms in which merge_criteria may be handed over ---------------------------------------------------------------
REITERABLE_FORMS = ["list", "tuple", "set"]
ONE_SHOT_FORMS = ["generator", "iter", "chain"]


def criteria_form(rng, desc, one_shot=True):
    """list | tuple | set | generator | iter | chain | callable (the bare callable, only for a one-element list)"""
    if len(desc) == 1 and rng.random() < 0.6:
        return "callable"
    return rng.choice(REITERABLE_FORMS + (ONE_SHOT_FORMS + ONE_SHOT_FORMS[:1] if one_shot else []))


def single_criterion(rng, custom=True):
    r = rng.random()
    if r < 0.45:
        return [rng.choice(SIMPLE)]
    if r < 0.8 or not custom:
        return [[rng.choice(THRESHOLDS), rng.randrange(0, 6)]]
    return [rng.choice([["custom", "start_within", rng.randrange(0, 5)], ["custom", "same_start_parity"],
                        ["custom", "max_members", rng.randrange(1, 4)], ["custom", "end_not_before_start"],
                        ["custom", "length_within", rng.randrange(0, 4)]])]


# -- shaped runs: a long interval with later, shorter ones inside it ----------------------------------------------------
def long_run_intervals(rng, n, distinct_starts=False):
    """A long interval followed by n-1 shorter ones with non-decreasing starts that begin inside it: each one overlaps its
    predecessor (ending before or after it), touches it, or lies detached beyond it; the last ones may leave the long one.
    E.g. [1,100] [2,5] [3,10] [50,60]."""
    s0 = rng.randrange(1, 10)
    long_end = s0 + rng.choice([15, 30, 60, 100])
    out = [(s0, long_end)]
    if not distinct_starts and rng.random() < 0.25:
        out.append((s0, long_end))
    s = s0 + (rng.randrange(1, 4) if distinct_starts else rng.randrange(0, 4))
    while len(out) < n:
        e = s + rng.choice([0, 1, 3, 3, 7, 12])
        out.append((s, e))
        r = rng.random()
        if r < 0.3:
            s = s + rng.randrange(1 if distinct_starts else 0, 3)      # overlaps the predecessor
        elif r < 0.4:
            s = e + 1                                                  # touches it
        else:
            s = e + rng.randrange(2, 14)                               # detached from it
    return out[:n]


def shaped_feats(rng, nmax=8):
    """Start-ordered rows of the long-run shape; with `foreign` some of the inner rows differ from the long one in seqid,
    strand or featuretype (they lie inside the run's extent but a label criterion rejects them)."""
    n = rng.randrange(3, nmax + 1)
    ivs = long_run_intervals(rng, n)
    base = [rng.choice(SEQIDS), rng.choice(STRANDS), rng.choice(TYPES)]
    foreign = rng.random() < 0.5
    pools = [SEQIDS, STRANDS, TYPES]
    off = rng.choice([0, 0, 0, 131060, 2 ** 20 - 20])
    out = []
    for k, (s, e) in enumerate(ivs):
        lab = list(base)
        if foreign and k and rng.random() < 0.35:
            c = rng.choice([0, 1, 1, 2])
            lab[c] = rng.choice([v for v in pools[c] if v != base[c]])
        out.append(lab + [s + off, e + off])
    return out


def shaped_criteria(rng):
    r = rng.random()
    if r < 0.4:
        return list(DEFAULT)
    if r < 0.55:
        return ["seqid", "strand", "feature_type", "exact_coordinates_only"]
    if r < 0.7:
        return list(DEFAULT) + [rng.choice([["custom", "start_within", rng.randrange(0, 30)], ["custom", "same_start_parity"],
                                            ["custom", "max_members", rng.randrange(1, 4)],
                                            ["custom", "length_within", rng.randrange(0, 12)]])]
    return criteria(rng)


def shaped_db_feats(rng):
    """Rows for merge_all: 1..3 groups of one (seqid, featuretype, strand) each, every group a long-run shape with distinct
    starts, all groups over the same coordinates (so that the first rows of a group lie inside the extent of the previous
    group's last run in merge order); file order shuffled.  No two rows tie on the merge order."""
    labels = []
    for _ in range(rng.choice([1, 2, 2, 3])):
        lab = [rng.choice(SEQIDS), rng.choice(STRANDS), rng.choice(TYPES + ["gene"])]
        if lab not in labels:
            labels.append(lab)
    out = []
    for lab in labels:
        starts = set()
        for s, e in long_run_intervals(rng, rng.randrange(1, 7), distinct_starts=True):
            if s not in starts:
                starts.add(s)
                out.append(lab + [s, e])
    rng.shuffle(out)
    return out


def single_tie_insensitive(rng):
    """A one-element criteria list whose partition cannot depend on the order of features that tie on the merge order."""
    return [rng.choice(["seqid", "strand", "feature_type", "overlap_end_inclusive", "overlap_end_inclusive",
                        ["overlap_end_threshold", rng.randrange(0, 6)], ["overlap_end_threshold", rng.randrange(0, 6)]])]


# -- features identical in all nine columns and attributes -------------------------------------------------------------
def with_twins(rng, feats):
    """The rows with 1..3 of them repeated (twice, sometimes three times) right behind the original: start order is kept.
    Returns (rows, index of the row each row is a copy of or None)."""
    k = min(len(feats), rng.choice([1, 1, 2, 3]))
    chosen = set(rng.sample(range(len(feats)), k))
    out, copy_of = [], []
    for i, r in enumerate(feats):
        out.append(list(r))
        copy_of.append(None)
        if i in chosen:
            first = len(out) - 1
            for _ in range(rng.choice([1, 1, 1, 2])):
                out.append(list(r))
                copy_of.append(first)
    return out, copy_of


def twin_ids(rng, copy_of, mode):
    """mode 'idless': no line carries an ID (generated ids); 'idless twins': only the repeated lines lack an ID;
    'same id': a repeated line carries the ID of its original (to be loaded with merge_strategy='create_unique')."""
    ids = []
    for i, c in enumerate(copy_of):
        twin = c is not None or (i + 1 < len(copy_of) and copy_of[i + 1] == i)
        if mode == "idless" or (mode == "idless twins" and twin):
            ids.append(None)
        elif mode == "same id" and c is not None:
            ids.append(ids[c])
        else:
            ids.append("f%d" % i)
    return ids


TWIN_MODES = ["idless", "idless twins", "same id", "same id"]


def gapped_feats(rng, nmax=7):
    """Start-ordered rows of one seqid / type whose intervals leave gaps (and overlap / touch here and there), strands
    uniform or mixed: under the default criteria they fall into several runs, with no criterion at all into one."""
    n = rng.randrange(2, nmax + 1)
    seqid, strand, ftype = rng.choice(SEQIDS), rng.choice(STRANDS), "exon"
    mixed = rng.random() < 0.3
    s = rng.randrange(1, 10)
    out = []
    for k in range(n):
        e = s + rng.choice([0, 1, 3, 6, 10])
        out.append([seqid, rng.choice(STRANDS) if mixed else strand, ftype, s, e])
        r = rng.random()
        s = e + rng.randrange(2, 12) if r < 0.6 or k == 0 else e + 1 if r < 0.7 else rng.randrange(s + 1, e + 2)
    return out


def non_default_criteria(rng):
    """Tie-insensitive criteria lists that differ from the default ones in effect: no strand, a wider reach, labels only."""
    return rng.choice([["seqid", ["overlap_end_threshold", rng.randrange(2, 6)], "feature_type"],
                       ["seqid", "overlap_end_inclusive", "feature_type"],
                       ["seqid", ["overlap_end_threshold", 0], "strand", "feature_type"],
                       ["seqid", "strand", "feature_type"], ["seqid"], ["strand"], ["feature_type"],
                       [["overlap_end_threshold", rng.randrange(2, 6)]], ["overlap_end_inclusive"], []])


GROUP_SETS = [[["exon"], ["CDS"]], [["CDS"], ["exon"]], [["exon"], ["CDS"], ["gene"]], [["gene"], ["exon", "CDS"]],
              [["exon"], ["CDS", "gene"]]]


def grouped_db_feats(rng):
    """Rows for merge_all with several featuretype groups: every featuretype in {exon, CDS, gene} gets a gapped, overlapping
    series of its own (distinct starts per (seqid, type, strand): no ties on the merge order), file order shuffled."""
    out = []
    seqid = rng.choice(SEQIDS)
    for ftype in ("exon", "CDS", "gene"):
        for strand in rng.sample(STRANDS, rng.choice([1, 1, 2])):
            s = rng.randrange(1, 8)
            for _ in range(rng.randrange(2, 6)):
                e = s + rng.choice([0, 2, 4, 9])
                out.append([seqid, strand, ftype, s, e])
                r = rng.random()
                s = e + rng.randrange(2, 8) if r < 0.45 else e + 1 if r < 0.6 else rng.randrange(s + 1, e + 2)
    rng.shuffle(out)
    return out


# -- the frame column (8th) varies inside a run ---------------------------------------------------------------------------
FRAMES = ["0", "1", "2", "."]


def frame_series(rng, n):
    """n frame values: cycling 0/2/1 (overlapping CDS pieces of alternative transcripts), random, constant with a late change,
    '.' mixed with one digit, or (control) constant."""
    r = rng.random()
    if r < 0.3:
        cyc = rng.choice([["0", "2", "1"], ["0", "1", "2"], ["2", "0", "1"]])
        k = rng.randrange(3)
        return [cyc[(k + i) % 3] for i in range(n)]
    if r < 0.55:
        return [rng.choice(FRAMES) for _ in range(n)]
    if r < 0.7:
        a, b = rng.sample(FRAMES, 2)
        cut = rng.randrange(1, n) if n > 1 else 1
        return [a if i < cut else b for i in range(n)]
    if r < 0.9:
        d = rng.choice(["0", "1", "2"])
        k = rng.randrange(2)
        return ["." if (i + k) % 2 else d for i in range(n)]
    return [rng.choice(FRAMES)] * n


def framed_feats(rng, distinct_starts=False):
    """-> (rows, frames).  1..3 (seqid, strand, type) groups, each contiguous and start-ordered: 2..7 pieces that overlap (55%),
    touch (15%) or leave a gap (30%), so that most groups hold runs of three and more members; the frame column follows
    frame_series per group (it varies INSIDE the runs)."""
    labels = []
    for _ in range(rng.choice([1, 1, 2, 3])):
        lab = [rng.choice(SEQIDS), rng.choice(STRANDS), rng.choice(["CDS", "CDS", "exon"])]
        if lab not in labels:
            labels.append(lab)
    labels.sort()
    off = rng.choice([0, 0, 0, 131060, 2 ** 20 - 20])
    rows, frames = [], []
    for lab in labels:
        n = rng.randrange(2, 8)
        s = off + rng.randrange(1, 10)
        for k in range(n):
            e = s + rng.choice([0, 2, 4, 9, 14])
            rows.append(lab + [s, e])
            r = rng.random()
            if r < 0.55:
                s = rng.randrange(s + 1 if distinct_starts else s, e + 2) if e >= s else s + 1
            elif r < 0.7:
                s = e + 1
            else:
                s = e + rng.randrange(2, 8)
        frames.extend(frame_series(rng, n))
    return rows, frames


# -- workload classes added in round 5 ------------------------------------------------------------------------------------
def long_run_rows(seed, n):
    """(a) ONE VERY LONG RUN: n (>= 1000) mutually chained features of one seqid / strand / type - every one begins inside its
    predecessor or on the base after it, starts strictly increasing (no ties on the merge order) -, plus a second short run and
    a singleton on the same labels beyond a gap, 2..4 features over the same coordinates on another strand / seqid / type, and a
    'locus' parent over everything that most features name as Parent (so that the members hold relation rows); file order
    shuffled.  -> (rows, ids, parents, index list of the long run in start order)"""
    import random

    rng = random.Random(seed * 2654435761 % (1 << 31) + 5)
    seqid, strand, ftype = rng.choice(SEQIDS), rng.choice(STRANDS), rng.choice(TYPES)
    off = rng.choice([0, 1000, 131072 - 2500, 2 ** 20 - 3000])
    rows = []
    s = off + rng.randrange(1, 20)
    for _ in range(n):
        e = s + rng.choice([2, 4, 4, 9, 14, 30])
        rows.append([seqid, strand, ftype, s, e])
        s = rng.randrange(s + 1, e + 2)                 # begins inside its predecessor, or touches it
    chain = list(range(n))
    hi = max(r[4] for r in rows)
    s = hi + rng.randrange(5, 40)
    for _ in range(3):                                   # a short run of three beyond a gap
        rows.append([seqid, strand, ftype, s, s + 9])
        s += rng.choice([3, 10])
    rows.append([seqid, strand, ftype, s + 60, s + 70])  # a singleton
    other_strand = rng.choice([x for x in STRANDS if x != strand])
    mid = rows[n // 2][3]
    rows.append([seqid, other_strand, ftype, mid, mid + 7])
    rows.append([[x for x in SEQIDS if x != seqid][0], strand, ftype, mid, mid + 7])
    if rng.random() < 0.5:
        rows.append([seqid, strand, [x for x in TYPES if x != ftype][0], mid + 1, mid + 5])
    ids = ["f%d" % i for i in range(len(rows))]
    parents = [["L0"] if r[0] == seqid and rng.random() < 0.8 else [] for r in rows]
    rows.append([seqid, ".", "locus", off + 1, max(r[4] for r in rows) + 3])
    ids.append("L0")
    parents.append([])
    order = list(range(len(rows)))
    rng.shuffle(order)
    pos = {old: new for new, old in enumerate(order)}
    return [rows[i] for i in order], [ids[i] for i in order], [parents[i] for i in order], [pos[i] for i in chain]


LOOSER = [["seqid", "overlap_end_inclusive", "feature_type"], ["seqid", "overlap_end_inclusive", "feature_type"],
          ["seqid", "strand", "feature_type", ["overlap_end_threshold", 6]], ["seqid", "feature_type", ["overlap_end_threshold", 4]],
          ["seqid", ["overlap_end_threshold", 2], "strand", "feature_type"]]


def remerge_feats(rng):
    """(b) Start-ordered rows of ONE seqid and featuretype for a two-stage merge: 2..4 clusters, each 2..4 features chained on
    one strand (a multi-member run of the first, per-strand, stage), consecutive clusters on different strands overlapping
    each other, touching, or 2..6 bases apart (joined by a second stage that ignores the strand or reaches further), now and
    then a singleton in between; -> (rows, first criteria, second criteria, rows of NEW features for the second stage)."""
    seqid, ftype = rng.choice(SEQIDS), rng.choice(TYPES)
    off = rng.choice([0, 0, 131060, 2 ** 20 - 20])
    rows = []
    s = off + rng.randrange(1, 10)
    strand = rng.choice(STRANDS)
    hi = s
    for c in range(rng.choice([2, 2, 3, 4])):
        k = rng.choice([1, 2, 2, 3, 4]) if c else rng.choice([2, 2, 3, 4])     # the first cluster is a multi-member run
        for _ in range(k):
            e = s + rng.choice([2, 4, 9, 14])
            rows.append([seqid, strand, ftype, s, e])
            hi = max(hi, e)
            s = rng.randrange(s + 1, e + 2)
        r = rng.random()
        # where the next cluster begins: inside this one, touching it, a few bases beyond, or far away
        lo = max(s, hi - 6)
        s = (lo if lo >= hi else rng.randrange(lo, hi + 1)) if r < 0.45 else hi + 1 if r < 0.6 else hi + rng.randrange(2, 7) if r < 0.85 \
            else hi + rng.randrange(12, 30)
        if rng.random() < 0.8:
            strand = rng.choice([x for x in STRANDS if x != strand])
    first = list(DEFAULT) if rng.random() < 0.7 else ["seqid", "strand", "feature_type", ["overlap_end_threshold", rng.choice([0, 1])]]
    second = [x if isinstance(x, str) else list(x) for x in rng.choice(LOOSER)]
    new = []
    for _ in range(rng.choice([0, 0, 1, 2])):
        # new features for the second stage: over / right behind an existing feature, or behind everything
        m = rng.choice(rows)
        a = m[3] + rng.choice([1, 2, 5]) if rng.random() < 0.7 else hi + rng.choice([1, 2, 9])
        new.append([seqid, rng.choice(STRANDS), ftype, a, a + rng.choice([0, 3, 8, 20])])
    return rows, first, second, new


# -- workload classes added in round 6 --------------------------------------------------------------------------------------
# (a) featuretypes / seqids holding characters that are special in SQL LIKE / GLOB patterns or regular expressions, with stored
#     ids of the shape <featuretype>_<n> (no %XX sequences and no backslash: those belong to the attribute grammar, C01 / C02)
SPECIAL_TYPES = ["CDS[partial]", "exon*", "match?", "a%b", "x_y", "[a-z]", "exon[12]", "CDS[!p]", "e.on", "ex+on", "a|b", "x_",
                 "(exon)", "ex{2}", "^exon$"]
SPECIAL_SEQIDS = ["chr[1]", "c*", "a%b", "s_1", "sc?", "chr.1"]


def specialise(rng, feats, with_seqids=None):
    """The rows with their featuretypes (and, in about half of the cases, seqids) replaced one-to-one by names holding
    pattern characters; -> (rows, {old type: new type})."""
    types = sorted(set(r[2] for r in feats))
    tmap = dict(zip(types, rng.sample(SPECIAL_TYPES, len(types))))
    seqids = sorted(set(r[0] for r in feats))
    if with_seqids is None:
        with_seqids = rng.random() < 0.5
    smap = dict(zip(seqids, rng.sample(SPECIAL_SEQIDS, len(seqids)))) if with_seqids else {}
    return [[smap.get(r[0], r[0]), r[1], tmap[r[2]], r[3], r[4]] for r in feats], tmap


def shaped_ids(rng, feats):
    """Unique ids of the shape <featuretype>_<n>: per featuretype n = 1, 2, 3, ... (65%), the same with holes (some n skipped),
    or beginning at 2 / 3 (so that <featuretype>_1 is free and a later number is taken)."""
    mode = rng.choice(["from1", "from1", "from1", "holes", "holes", "later"])
    nxt = {}
    out = []
    for r in feats:
        n = nxt.get(r[2], 1 if mode != "later" else rng.choice([2, 3]))
        if mode == "holes" and n > 1 and rng.random() < 0.3:
            n += rng.choice([1, 2])
        out.append("%s_%d" % (r[2], n))
        nxt[r[2]] = n + 1
    return out


# (b) criteria that answer with truthy / falsy values other than True / False: ["as", style, criterion] is `criterion` with its
#     yes / no expressed in the values of the style; the criteria are combined as in all(): a falsy answer rejects the pair
NONBOOL_STYLES = ["none_str", "empty_str", "empty_list", "zero_one", "match", "noreturn", "zero_float", "empty_tuple"]
FALSY_NOT_EQUAL_FALSE = ["none_str", "empty_str", "empty_list", "match", "noreturn", "empty_tuple"]


def nonbool(rng, desc):
    """The criteria list with at least one criterion (each with probability 0.6) answering in a non-bool style."""
    if not desc:
        return desc
    out = [["as", rng.choice(NONBOOL_STYLES), c] if rng.random() < 0.6 else c for c in desc]
    if not any(isinstance(c, list) and c[0] == "as" for c in out):
        k = rng.randrange(len(out))
        out[k] = ["as", rng.choice(NONBOOL_STYLES), out[k]]
    return out


def nonbool_criteria(rng, tie_free=False):
    """Criteria lists for the non-bool class: random / shaped / default-like lists, 40% with an extra reflexive custom
    predicate, answers partly in non-bool styles.  tie_free: only criteria whose partition cannot depend on tie order."""
    if tie_free:
        base = list(DEFAULT) if rng.random() < 0.4 else tie_insensitive_criteria(rng)
    else:
        r = rng.random()
        base = list(DEFAULT) if r < 0.3 else criteria(rng) if r < 0.8 else shaped_criteria(rng)
        if rng.random() < 0.4:
            base = base + [rng.choice([["custom", "start_within", rng.randrange(0, 5)], ["custom", "same_start_parity"],
                                       ["custom", "max_members", rng.randrange(1, 4)], ["custom", "end_not_before_start"],
                                       ["custom", "length_within", rng.randrange(0, 4)]])]
    if not base:
        base = ["seqid", "overlap_end_inclusive"]
    return nonbool(rng, base)


# -- seqids that literally contain a comma, next to seqids equal to one of their parts --------------------------------------
COMMA_SEQIDS = [("ctg,7", ["7", "ctg"]), ("chr1,chr2", ["chr1", "chr2"]), ("a,b", ["a", "b"]), ("sc,1,x", ["sc", "1", "x", "sc,1", "1,x"]),
                ("contig_12,len=4003", ["contig_12", "len=4003"]), ("b,a", ["a", "b"]), ("7,ctg", ["7", "ctg"])]


def comma_feats(rng):
    """Start-ordered rows in 1..3 clusters: the first feature of a cluster lies on a seqid that holds a comma ('ctg,7'), the
    following ones overlap it (75%; else touch it or leave a gap) and lie on a seqid equal to one of its comma-separated parts
    ('7', 'ctg'; 70%), on the comma seqid itself, on another comma seqid built from the same
    parts ('7,ctg') or on an unrelated one; strand and type are shared inside a cluster in 75% of the clusters."""
    out = []
    pos = rng.choice([1, 1, 100, 131000, 2 ** 20 - 40])
    for _ in range(rng.choice([1, 1, 2, 3])):
        name, parts = rng.choice(COMMA_SEQIDS)
        strand, ftype = rng.choice(STRANDS), rng.choice(TYPES)
        mixed = rng.random() < 0.25
        same_seqid = rng.random() < 0.3              # the whole cluster lies on the comma seqid itself
        a = pos + rng.randrange(0, 6)
        b = a + rng.randrange(8, 40)
        out.append([name, strand, ftype, a, b])
        end, own, x = b, 0, a
        for _k in range(rng.randrange(1, 6)):
            r = rng.random()
            if r < 0.75:
                x = rng.randrange(x, end + 1)            # begins inside the cluster so far
            elif r < 0.9:
                x = end + 1                              # on the base after it
            else:
                x = end + rng.randrange(2, 6)            # detached
            y = x + rng.choice([0, 1, 3, 8, 13, 30])
            r = rng.random()
            if same_seqid:
                seqid = name
            elif r < 0.7:
                seqid = rng.choice(parts)
            elif r < 0.82:
                seqid, own = name, own + 1               # any number of further features on the comma seqid itself (F-C16-3)
            elif r < 0.92:
                seqid = ",".join(reversed(name.split(",")))
            else:
                seqid = "zz"
            lab = [seqid, strand, ftype]
            if mixed and rng.random() < 0.4:
                if rng.random() < 0.6:
                    lab[1] = rng.choice(STRANDS)
                else:
                    lab[2] = rng.choice(TYPES)
            out.append(lab + [x, y])
            end = max(end, y)
        pos = end + rng.choice([-3, 0, 1, 2, 10])
        pos = max(pos, out[-1][3])
    # start order, stable (the comma-named head of a cluster stays before the features that begin on the same base)
    return sorted(out, key=lambda r: r[3])
