"""
GFF3 annotation graphs for C02 (generator (a) of DESIGN section 3).

graph = {"nodes": [node...], "edge": "raw"|"pct"}       nodes are listed parents-first (layer by layer)
node  = {"id", "type", "seqid", "start", "end", "strand", "layer",
         "parents": [ids; may name no node = dangling], "style": "comma"|"repeat", "idpos": "first"|"last",
         "name": str|None}
DAG of depth <= 4, 0-3 Parent values per node, shared children, shortcuts (a->b->c plus a->c), dangling values.
"""
import itertools

from gvmon.models import dialect as M

TYPES_BY_LAYER = [
    ["gene", "gene", "gene", "region", "ncRNA_gene"],
    ["mRNA", "mRNA", "ncRNA", "gene", "transcript"],
    ["exon", "exon", "CDS", "mRNA", "five_prime_UTR"],
    ["match_part", "TSS", "exon", "CDS"],
]
SEQIDS = ["chr1", "chr1", "chr2L", "Chr1"]
WORD = "abcdefghijklmnopqrstuvwxyzABCDEFGHIJKLMNOPQRSTUVWXYZ0123456789_"
PUNCT = ".-:"
# hostile flavours: (name, function base id -> id)
HOSTILE = [
    ("inner blank", lambda s: s[:1] + " " + s[1:] + " x"),
    ("leading blank", lambda s: " " + s),
    ("trailing blank", lambda s: s + " "),
    ("both ends blank", lambda s: "  " + s + " "),
    ("non-ASCII", lambda s: "gène·" + s + "漢"),
    ("U+0085 at the end", lambda s: s + "\u0085"),
    ("U+00A0 in front", lambda s: "\u00a0" + s),
    ("escaped TAB inside", lambda s: s[:1] + "\t" + s[1:]),
    ("escaped TAB at the end", lambda s: s + "\t"),
    ("escaped LF inside", lambda s: s[:1] + "\n" + s[1:]),
    ("escaped LF at the end", lambda s: s + "\n"),
]


def word_id(rng, used):
    for _ in range(100):
        n = rng.randrange(1, 9)
        s = rng.choice(WORD[:52] + "_")
        for _ in range(n - 1):
            s += rng.choice(PUNCT) if rng.random() < 0.12 else rng.choice(WORD)
        if s[-1] in PUNCT:
            s += rng.choice(WORD)
        if s not in used:
            return s
    return "n%d" % len(used)


def graph(rng, max_nodes=12):
    depth = rng.choice([1, 2, 3, 3, 4, 4, 4])
    sizes = [rng.randrange(1, 4)] + [rng.randrange(1, 5) for _ in range(depth - 1)]
    while sum(sizes) > max_nodes:
        i = rng.randrange(len(sizes))
        if sizes[i] > 1:
            sizes[i] -= 1
    used = set()
    nodes = []
    layers = []
    dangling_pool = []
    for k, size in enumerate(sizes):
        layer = []
        for _ in range(size):
            nid = word_id(rng, used)
            used.add(nid)
            s = rng.randrange(1, 5000)
            node = {
                "id": nid, "type": rng.choice(TYPES_BY_LAYER[k]), "seqid": rng.choice(SEQIDS), "start": s,
                "end": s + rng.choice([0, 0, 10, 10, 250, rng.randrange(0, 3000)]), "strand": rng.choice("++-."),
                "layer": k, "parents": [], "style": rng.choice(["comma", "comma", "repeat"]),
                "idpos": rng.choice(["first", "first", "last"]),
                "name": rng.choice([None, None, "n" + nid[:3], "a name with blanks"]),
            }
            if k > 0:
                want = rng.choice([0, 1, 1, 1, 1, 2, 2, 3])
                ps = []
                for _ in range(want):
                    src = layers[k - 1] if rng.random() < 0.7 else rng.choice(layers[:k])
                    p = rng.choice(src)
                    if p["id"] not in ps:
                        ps.append(p["id"])
                    # diamond + shortcut: also name a parent of the parent
                    if p["parents"] and rng.random() < 0.3 and len(ps) < 3:
                        gp = rng.choice(p["parents"])
                        if gp not in ps and gp in used:
                            ps.append(gp)
                node["parents"] = ps[:3]
            if rng.random() < 0.18 and len(node["parents"]) < 3:
                if dangling_pool and rng.random() < 0.4:
                    d = rng.choice(dangling_pool)
                else:
                    d = word_id(rng, used)
                    used.add(d)
                    dangling_pool.append(d)
                if d not in node["parents"]:
                    node["parents"].insert(rng.randrange(len(node["parents"]) + 1), d)
            layer.append(node)
            nodes.append(node)
        layers.append(layer)
    return {"nodes": nodes, "edge": "raw"}


def make_hostile(rng, g):
    """Rename 1-3 ids (consistently in every Parent list) to hostile ones; returns the flavour names used."""
    nodes = g["nodes"]
    ids = [n["id"] for n in nodes]
    dangling = sorted({p for n in nodes for p in n["parents"]} - set(ids))
    pool = ids + dangling
    k = min(len(pool), rng.choice([1, 1, 2, 3]))
    picks = rng.sample(pool, k)
    mapping, flavours = {}, []
    for old in picks:
        name, fn = rng.choice(HOSTILE)
        new = fn(old)
        if new in mapping.values() or new in pool:
            continue
        mapping[old] = new
        flavours.append(name)
    for n in nodes:
        n["id"] = mapping.get(n["id"], n["id"])
        n["parents"] = [mapping.get(p, p) for p in n["parents"]]
    g["edge"] = rng.choice(["raw", "pct"])
    return flavours


def encode_id(v, edge):
    s = M.encode_value(v)
    if edge == "pct":
        lead = len(s) - len(s.lstrip(" "))
        s = "%20" * lead + s[lead:]
        trail = len(s) - len(s.rstrip(" "))
        if trail:
            s = s[:len(s) - trail] + "%20" * trail
    return s


def line_of(node, edge="raw"):
    ident = "ID=" + encode_id(node["id"], edge)
    parts = []
    ps = [encode_id(p, edge) for p in node["parents"]]
    if ps:
        if node["style"] == "repeat":
            parts += ["Parent=" + p for p in ps]
        else:
            parts.append("Parent=" + ",".join(ps))
    if node.get("name"):
        parts.append("Name=" + M.encode_value(node["name"]))
    parts = [ident] + parts if node["idpos"] == "first" else parts + [ident]
    cols = [node["seqid"], "src", node["type"], str(node["start"]), str(node["end"]), ".", node["strand"], ".",
            ";".join(parts)]
    return "\t".join(cols)


def text_of(g, order):
    return "\n".join(line_of(g["nodes"][i], g.get("edge", "raw")) for i in order) + "\n"


def sample_orders(rng, n, k):
    """k distinct line orders: parents first, children first, then random ones."""
    orders = [list(range(n))]
    if n > 1:
        orders.append(list(range(n - 1, -1, -1)))
    tries = 0
    while len(orders) < k and tries < 50:
        tries += 1
        o = list(range(n))
        rng.shuffle(o)
        if o not in orders:
            orders.append(o)
    return orders[:k]


def all_orders(n):
    return [list(p) for p in itertools.permutations(range(n))]


def canonical(g):
    return sorted((n["id"], n["type"], sorted(n["parents"])) for n in g["nodes"])


# -- "wide" graphs: one feature with more than 1000 direct children -------------------------------------------
def wide_params(rng):
    """Parameters (JSON-able, small) of a wide graph: `n` direct children of one hub; the children listed in
    `bearing` have children of their own - several of them are among the LAST children (numbers >= 1000)."""
    n = rng.randrange(1005, 1101)
    late = set(rng.sample(range(1000, n), rng.randrange(3, 6)))
    late.add(n - 1)
    late.add(rng.randrange(1000, 1003))
    early = {rng.randrange(0, 4), rng.randrange(4, 1000)}   # number >= 1000 when the lines are written in reverse
    return {"seed": rng.randrange(10 ** 9), "n": n, "bearing": sorted(early | late)}


def wide_graph(p):
    """The graph of wide_params(): hub gene 'G' (+ a second gene named by a few children), n transcripts, exons under
    the bearing transcripts (some also name the hub = shortcut, some name two transcripts), one part under an exon."""
    import random

    rng = random.Random(p["seed"] * 31 + 7)
    n, bearing = p["n"], list(p["bearing"])

    def node(nid, ft, layer, start, end, parents):
        return {"id": nid, "type": ft, "seqid": "chr1", "start": start, "end": end, "strand": "+", "layer": layer,
                "parents": parents, "style": rng.choice(["comma", "comma", "repeat"]),
                "idpos": rng.choice(["first", "first", "last"]), "name": None}

    # zero-padded: the children's rank by id (the order of an index on the relations) is their number as well
    T = "t%04d"
    nodes = [node("G", "gene", 0, 1, 20 * n + 50, []), node("G2", "gene", 0, 5, 900, [])]
    for i in range(n):
        ps = ["G"]
        if rng.random() < 0.03:
            ps.insert(rng.randrange(2), "G2")
        nodes.append(node(T % i, "mRNA", 1, 1 + 20 * i, 18 + 20 * i, ps))
    exons = []
    for i in bearing:
        for j in range(rng.randrange(1, 4)):
            ps = [T % i]
            r = rng.random()
            if r < 0.3:
                ps.append("G")                                   # shortcut: G -> exon at level 1 and at level 2
            elif r < 0.5:
                other = rng.choice(bearing)
                if other != i:
                    ps.append(T % other)                     # shared child
            rng.shuffle(ps)
            e = node("e%d.%d" % (i, j), rng.choice(["exon", "exon", "CDS"]), 2, 2 + 20 * i + 5 * j, 5 + 20 * i + 5 * j, ps)
            exons.append(e)
            nodes.append(e)
    last = [e for e in exons if (T % bearing[-1]) in e["parents"]][0]
    nodes.append(node("part", "match_part", 3, last["start"], last["start"] + 1, [last["id"]]))
    return {"nodes": nodes, "edge": "raw"}


def order_of_spec(n, spec):
    """Line order from a small spec: ["forward"] | ["reverse"] | ["shuffle", seed]."""
    import random

    o = list(range(n))
    if spec[0] == "reverse":
        o.reverse()
    elif spec[0] == "shuffle":
        random.Random(spec[1]).shuffle(o)
    return o
