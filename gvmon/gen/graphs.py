"""
GFF3 annotation graphs for C02 (generator (a) of DESIGN section 3).

graph = {"nodes": [node...], "edge": "raw"|"pct"}       nodes are listed parents-first (layer by layer)
node  = {"id", "type", "seqid", "start", "end", "strand", "layer",
         "parents": [ids; may name no node = dangling], "style": "comma"|"repeat", "idpos": "first"|"last",
         "name": str|None,
         optional "noid": True (the line has no ID attribute; "id" is "" - the stored id depends on the line order, see
         gvmon/models/hierarchy.resolve_ids), optional "extra": [raw 'key=value' attribute texts written after Name]}
DAG of depth <= 4, 0-3 Parent values per node, shared children, shortcuts (a->b->c plus a->c), dangling values.
Further workload classes are made from such a graph by make_hostile / make_idless / make_mixed / make_confusable.
"""
import itertools
import re

from gvmon.models import dialect as M

TYPES_BY_LAYER = [
    ["gene", "gene", "gene", "region", "ncRNA_gene"],
    ["mRNA", "mRNA", "ncRNA", "gene", "transcript"],
    ["exon", "exon", "CDS", "mRNA", "five_prime_UTR"],
    ["match_part", "TSS", "exon", "CDS"],
]
SEQIDS = ["chr1", "chr1", "chr2L", "Chr1"]
WORD = "abcdefghijklmnopqrstuvwxyzABCDEFGHIJKLMNOPQRSTUVWXYZ0123456789_"
PUNCT = ".-:"
# hostile flavours: (name, function base id -> id)
HOSTILE = [
    ("inner blank", lambda s: s[:1] + " " + s[1:] + " x"),
    ("leading blank", lambda s: " " + s),
    ("trailing blank", lambda s: s + " "),
    ("both ends blank", lambda s: "  " + s + " "),
    ("non-ASCII", lambda s: "gène·" + s + "漢"),
    ("U+0085 at the end", lambda s: s + "\u0085"),
    ("U+00A0 in front", lambda s: "\u00a0" + s),
    ("escaped TAB inside", lambda s: s[:1] + "\t" + s[1:]),
    ("escaped TAB at the end", lambda s: s + "\t"),
    ("escaped LF inside", lambda s: s[:1] + "\n" + s[1:]),
    ("escaped LF at the end", lambda s: s + "\n"),
]


def word_id(rng, used):
    for _ in range(100):
        n = rng.randrange(1, 9)
        s = rng.choice(WORD[:52] + "_")
        for _ in range(n - 1):
            s += rng.choice(PUNCT) if rng.random() < 0.12 else rng.choice(WORD)
        if s[-1] in PUNCT:
            s += rng.choice(WORD)
        if s not in used:
            return s
    return "n%d" % len(used)


def graph(rng, max_nodes=12):
    depth = rng.choice([1, 2, 3, 3, 4, 4, 4])
    sizes = [rng.randrange(1, 4)] + [rng.randrange(1, 5) for _ in range(depth - 1)]
    while sum(sizes) > max_nodes:
        i = rng.randrange(len(sizes))
        if sizes[i] > 1:
            sizes[i] -= 1
    used = set()
    nodes = []
    layers = []
    dangling_pool = []
    for k, size in enumerate(sizes):
        layer = []
        for _ in range(size):
            nid = word_id(rng, used)
            used.add(nid)
            s = rng.randrange(1, 5000)
            node = {
                "id": nid, "type": rng.choice(TYPES_BY_LAYER[k]), "seqid": rng.choice(SEQIDS), "start": s,
                "end": s + rng.choice([0, 0, 10, 10, 250, rng.randrange(0, 3000)]), "strand": rng.choice("++-."),
                "layer": k, "parents": [], "style": rng.choice(["comma", "comma", "repeat"]),
                "idpos": rng.choice(["first", "first", "last"]),
                "name": rng.choice([None, None, "n" + nid[:3], "a name with blanks"]),
            }
            if k > 0:
                want = rng.choice([0, 1, 1, 1, 1, 2, 2, 3])
                ps = []
                for _ in range(want):
                    src = layers[k - 1] if rng.random() < 0.7 else rng.choice(layers[:k])
                    p = rng.choice(src)
                    if p["id"] not in ps:
                        ps.append(p["id"])
                    # diamond + shortcut: also name a parent of the parent
                    if p["parents"] and rng.random() < 0.3 and len(ps) < 3:
                        gp = rng.choice(p["parents"])
                        if gp not in ps and gp in used:
                            ps.append(gp)
                node["parents"] = ps[:3]
            if rng.random() < 0.18 and len(node["parents"]) < 3:
                if dangling_pool and rng.random() < 0.4:
                    d = rng.choice(dangling_pool)
                else:
                    d = word_id(rng, used)
                    used.add(d)
                    dangling_pool.append(d)
                if d not in node["parents"]:
                    node["parents"].insert(rng.randrange(len(node["parents"]) + 1), d)
            layer.append(node)
            nodes.append(node)
        layers.append(layer)
    return {"nodes": nodes, "edge": "raw"}


def make_hostile(rng, g):
    """Rename 1-3 ids (consistently in every Parent list) to hostile ones; returns the flavour names used."""
    nodes = g["nodes"]
    ids = [n["id"] for n in nodes]
    dangling = sorted({p for n in nodes for p in n["parents"]} - set(ids))
    pool = ids + dangling
    k = min(len(pool), rng.choice([1, 1, 2, 3]))
    picks = rng.sample(pool, k)
    mapping, flavours = {}, []
    for old in picks:
        name, fn = rng.choice(HOSTILE)
        new = fn(old)
        if new in mapping.values() or new in pool:
            continue
        mapping[old] = new
        flavours.append(name)
    for n in nodes:
        n["id"] = mapping.get(n["id"], n["id"])
        n["parents"] = [mapping.get(p, p) for p in n["parents"]]
    g["edge"] = rng.choice(["raw", "pct"])
    return flavours


def encode_id(v, edge):
    s = M.encode_value(v)
    if edge == "pct":
        lead = len(s) - len(s.lstrip(" "))
        s = "%20" * lead + s[lead:]
        trail = len(s) - len(s.rstrip(" "))
        if trail:
            s = s[:len(s) - trail] + "%20" * trail
    return s


def line_of(node, edge="raw"):
    ident = [] if node.get("noid") else ["ID=" + encode_id(node["id"], edge)]
    parts = []
    ps = [encode_id(p, edge) for p in node["parents"]]
    if ps:
        if node["style"] == "repeat":
            parts += ["Parent=" + p for p in ps]
        else:
            parts.append("Parent=" + ",".join(ps))
    if node.get("name"):
        parts.append("Name=" + M.encode_value(node["name"]))
    parts += node.get("extra") or []
    parts = ident + parts if node["idpos"] == "first" else parts + ident
    cols = [node["seqid"], "src", node["type"], str(node["start"]), str(node["end"]), ".", node["strand"], ".",
            ";".join(parts)]
    return "\t".join(cols)


EOLS = {"lf": "\n", "crlf": "\r\n", "cr": "\r"}     # line terminators: Unix, DOS/Windows, classic Mac OS


def text_of(g, order, eol="lf", last=True, header=False):
    """The file text of one line order.  eol: key of EOLS, written after every line (after the last one only when `last`);
    header: a '##gff-version 3' line in front."""
    rows = (["##gff-version 3"] if header else []) + [line_of(g["nodes"][i], g.get("edge", "raw")) for i in order]
    return EOLS[eol].join(rows) + (EOLS[eol] if last else "")


def sample_orders(rng, n, k):
    """k distinct line orders: parents first, children first, then random ones."""
    orders = [list(range(n))]
    if n > 1:
        orders.append(list(range(n - 1, -1, -1)))
    tries = 0
    while len(orders) < k and tries < 50:
        tries += 1
        o = list(range(n))
        rng.shuffle(o)
        if o not in orders:
            orders.append(o)
    return orders[:k]


def all_orders(n):
    return [list(p) for p in itertools.permutations(range(n))]


def canonical(g):
    return sorted((n["id"], n["type"], sorted(n["parents"])) for n in g["nodes"])


def spelling(g):
    """How the attribute columns are written (part of the distinct-case key of the mixed-spelling class)."""
    return [[n["style"], list(n.get("extra") or [])] for n in g["nodes"]]


# -- further workload classes made from a graph() ------------------------------------------------------------
AUTO_ID = re.compile(r"^(.*)_[0-9]+$")


def make_idless(rng, g, max_lines=15):
    """Take the ID attribute away from 1..n lines that nobody names as Parent (they keep their Parent values), and write
    some of them several times BYTE-IDENTICALLY (as after concatenating two files) or once more with other coordinates
    (same featuretype: the same counter).  Returns the list of variants made, or None when the graph has no such line
    or an ID / Parent value already looks like an auto-generated id '<featuretype>_<n>'."""
    nodes = g["nodes"]
    types = {n["type"] for n in nodes}
    for v in {n["id"] for n in nodes} | {p for n in nodes for p in n["parents"]}:
        m = AUTO_ID.match(v)
        if m and m.group(1) in types:
            return None
    named = {p for n in nodes for p in n["parents"]}
    cand = [n for n in nodes if n["parents"] and n["id"] not in named]
    if not cand:
        return None
    rng.shuffle(cand)
    picked = cand[:rng.choice([1, 1, 2, 2, 3, len(cand)])]
    made = []
    for n in picked:
        n.update(noid=True, id="", idpos="first")
    for n in picked:
        r = rng.random()
        if r < 0.7:
            for _ in range(rng.choice([1, 1, 1, 2, 3])):
                if len(nodes) < max_lines:
                    nodes.append(dict(n, parents=list(n["parents"])))
                    made.append("byte-identical twin")
        elif r < 0.9 and len(nodes) < max_lines:
            nodes.append(dict(n, parents=list(n["parents"]), start=n["start"] + 1, end=n["end"] + 1 + rng.randrange(3)))
            made.append("same featuretype, other coordinates")
    return made or ["single"]


def _second_parent(rng, g):
    """Make sure some line has >= 2 Parent values (adds values naming lines of earlier layers); returns those lines."""
    nodes = g["nodes"]
    multi = [n for n in nodes if len(n["parents"]) >= 2]
    if multi:
        return multi
    cands = [n for n in nodes if n["layer"] >= 1]
    rng.shuffle(cands)
    for n in cands:
        earlier = [m["id"] for m in nodes if m["layer"] < n["layer"] and m["id"] not in n["parents"]]
        rng.shuffle(earlier)
        while len(n["parents"]) < 2 and earlier:
            n["parents"].append(earlier.pop())
        if len(n["parents"]) >= 2:
            return [n]
    return []


DBX = ["EMBL:AA816246", "NCBI_gi:10727410", "GB:X1", "FB:FBgn0031208", "taxon:7227"]


def make_mixed(rng, g, majority):
    """Both ways of writing several values in ONE file.

    majority "repeat": every line writes its Parent values (and, mostly, two Dbxref values) as repeated keys
    (Parent=a;Parent=b) so that a dialect inferred from the file says 'repeated keys', while 1-2 lines with >= 2 parents
    write them as one comma list (Parent=a,b).  majority "comma": the reverse.  The Parent graph does not change.
    Returns the number of minority lines (0: no line with two parents could be made)."""
    nodes = g["nodes"]
    multi = _second_parent(rng, g)
    if not multi:
        return 0
    minority = rng.sample(multi, min(len(multi), rng.choice([1, 1, 2])))
    for n in nodes:
        a, b = rng.sample(DBX, 2)
        if majority == "repeat":
            n["style"] = "repeat"
            n["extra"] = ["Dbxref=" + a, "Dbxref=" + b] if rng.random() < 0.85 else []
        else:
            n["style"] = "comma"
            n["extra"] = ["Dbxref=%s,%s" % (a, b)] if rng.random() < 0.6 else []
    for n in minority:
        a, b = rng.sample(DBX, 2)
        if majority == "repeat":
            n["style"] = "comma"
            # the last form: a comma list for Parent and repeated keys for another attribute in the same line
            n["extra"] = rng.choice([[], ["Dbxref=%s,%s" % (a, b)], ["Dbxref=" + a, "Dbxref=" + b]])
        else:
            n["style"] = "repeat"
            n["extra"] = rng.choice([[], ["Dbxref=%s,%s" % (a, b)]])
    return len(minority)


WILD = ["%", "_", "a", "%%", "__", "ab", "a_", "a%", "_b", "%b", "a_c", "abc", "a%c", "a__", "a%%", "ab_", "_%"]
NUMERIC = ["1", "01", "1.0", "001", "1e0", "10", "1.00", "0x1", "1.", "0", "00", "0.0", "1E0", "100", "1e2"]


def confusable_family(rng):
    """(family name, >= 4 distinct ids that a sloppy comparison takes for one another)."""
    r = rng.randrange(3)
    if r == 0:
        base = "".join(rng.choice(WORD[:26]) for _ in range(rng.randrange(2, 6))) + rng.choice(["", "", "1", "_x"])
        vs = {base, base.upper(), base.capitalize(), base[:-1] + base[-1].upper(), base[0] + base[1:].upper()}
        while len(vs) < 4:
            vs.add("".join(c.upper() if rng.random() < 0.5 else c for c in base))
        return "letter case", sorted(vs)
    if r == 1:
        return "numeric-looking", list(NUMERIC)
    return "SQL wildcard", list(WILD)


def make_confusable(rng, g):
    """Rename 2-5 ids / dangling Parent values (consistently) to members of ONE family of look-alike ids: ids that differ
    only in letter case, numeric-looking ids ('1', '01', '1.0'), ids made of SQL wildcard characters ('%', '_').
    Returns (family name, number of renamed ids) or None."""
    nodes = g["nodes"]
    ids = [n["id"] for n in nodes]
    dangling = sorted({p for n in nodes for p in n["parents"]} - set(ids))
    pool = ids + dangling
    if len(pool) < 2:
        return None
    name, fam = confusable_family(rng)
    # relatives of one another first: a parent and its child, two children of one parent - where a sloppy match hurts
    k = min(len(pool), len(fam), rng.choice([2, 3, 3, 4, 5]))
    start = rng.choice([n for n in nodes if n["parents"]] or nodes)
    near = [start["id"]] + list(start["parents"]) + [n["id"] for n in nodes if set(n["parents"]) & set(start["parents"])]
    picks = []
    for v in near + rng.sample(pool, len(pool)):
        if v not in picks and len(picks) < k:
            picks.append(v)
    new = rng.sample(fam, k)
    if set(new) & (set(pool) - set(picks)):
        return None
    mapping = dict(zip(picks, new))
    for n in nodes:
        n["id"] = mapping.get(n["id"], n["id"])
        n["parents"] = [mapping.get(p, p) for p in n["parents"]]
    return name, k


# -- ids whose text is not in Unicode normal form C -------------------------------------------------------------------
# (flavour, NFC spelling, another spelling of 'the same' text that is NOT in NFC).  To the statement both are opaque,
# different id texts.
NFC_PAIRS = [
    ("letter + combining mark", "r\u00e9gion", "re\u0301gion"),
    ("letter + combining mark", "\u00f1", "n\u0303"),
    ("letter + combining mark", "\u00fc", "u\u0308"),
    ("letter + combining mark", "\u00c7", "C\u0327"),
    ("two combining marks in non-canonical order", "\u1e69", "s\u0307\u0323"),
    ("conjoining Hangul jamo", "\ud55c", "\u1112\u1161\u11ab"),
    ("conjoining Hangul jamo", "\uac00", "\u1100\u1161"),
    ("ANGSTROM SIGN", "\u00c5", "\u212b"),
    ("OHM SIGN", "\u03a9", "\u2126"),
    ("KELVIN SIGN", "K", "\u212a"),
    ("CJK compatibility ideograph", "\u8c48", "\uf900"),
]


def _nfc_place(rng, piece, base):
    return rng.choice([piece + base, base + piece, base[:1] + piece + base[1:], piece])


def make_nonnfc(rng, g, twins=None):
    """Rename 1-3 ids (consistently in every Parent list; features WITH children first) to texts that are not in Unicode
    normal form C, and (twins: drawn, 1 of 2) make one feature that has children exist in BOTH spellings - composed and
    decomposed - as two distinct features, each named as Parent by at least one line.  Returns {"flavours": [...],
    "renamed": k, "twins": [id, id] or None} or None when nothing could be renamed."""
    import unicodedata

    nodes = g["nodes"]
    ids = [n["id"] for n in nodes]
    named = [p for n in nodes for p in n["parents"]]
    dangling = sorted(set(named) - set(ids))
    bearing = [i for i in ids if i in named]
    rng.shuffle(bearing)
    rest = [i for i in ids + dangling if i not in bearing]
    rng.shuffle(rest)
    pool = bearing + rest
    taken = set(pool)
    mapping, flavours = {}, []
    for old in pool[:rng.choice([1, 1, 2, 3])]:
        fl, comp, dec = rng.choice(NFC_PAIRS)
        new = _nfc_place(rng, dec, old)
        if new in taken or unicodedata.normalize("NFC", new) in taken:
            continue
        mapping[old] = new
        taken.add(new)
        flavours.append(fl)
    for n in nodes:
        n["id"] = mapping.get(n["id"], n["id"])
        n["parents"] = [mapping.get(p, p) for p in n["parents"]]
    pair = None
    if twins is None:
        twins = rng.random() < 0.5
    hosts = [n for n in nodes if any(n["id"] in m["parents"] for m in nodes) and n["id"] not in mapping.values()]
    if twins and hosts:
        x = rng.choice(hosts)
        fl, comp, dec = rng.choice(NFC_PAIRS)
        where = rng.randrange(4)
        a, b = [[s + x["id"], x["id"] + s, x["id"][:1] + s + x["id"][1:], s][where] for s in (comp, dec)]
        if a not in taken and b not in taken and a != b:
            if rng.random() < 0.5:
                a, b = b, a
            old = x["id"]
            twin = dict(x, id=b, parents=list(x["parents"]), start=x["start"] + 1)
            x["id"] = a
            kids = [m for m in nodes if old in m["parents"]]
            for m in kids:
                r = rng.random()
                to = [a] if r < 0.4 else [b] if r < 0.8 else [a, b]
                if len(m["parents"]) + len(to) - 1 > 3:
                    to = to[:1]
                k = m["parents"].index(old)
                m["parents"][k:k + 1] = to
            nodes.insert(nodes.index(x) + 1, twin)
            for want in (a, b):
                if not any(want in m["parents"] for m in nodes):
                    src = rng.choice(kids)
                    new_id = word_id(rng, taken | {m["id"] for m in nodes})
                    nodes.append(dict(src, id=new_id, parents=[want], start=src["start"] + 2, end=src["end"] + 2))
            pair = [a, b]
            flavours.append(fl)
    if not mapping and not pair:
        return None
    return {"flavours": flavours, "renamed": len(mapping), "twins": pair}


# -- "wide" graphs: one feature with more than 1000 direct children -------------------------------------------
def wide_params(rng):
    """Parameters (JSON-able, small) of a wide graph: `n` direct children of one hub; the children listed in
    `bearing` have children of their own - several of them are among the LAST children (numbers >= 1000)."""
    n = rng.randrange(1005, 1101)
    late = set(rng.sample(range(1000, n), rng.randrange(3, 6)))
    late.add(n - 1)
    late.add(rng.randrange(1000, 1003))
    early = {rng.randrange(0, 4), rng.randrange(4, 1000)}   # number >= 1000 when the lines are written in reverse
    return {"seed": rng.randrange(10 ** 9), "n": n, "bearing": sorted(early | late)}


def wide_graph(p):
    """The graph of wide_params(): hub gene 'G' (+ a second gene named by a few children), n transcripts, exons under
    the bearing transcripts (some also name the hub = shortcut, some name two transcripts), one part under an exon."""
    import random

    rng = random.Random(p["seed"] * 31 + 7)
    n, bearing = p["n"], list(p["bearing"])

    def node(nid, ft, layer, start, end, parents):
        return {"id": nid, "type": ft, "seqid": "chr1", "start": start, "end": end, "strand": "+", "layer": layer,
                "parents": parents, "style": rng.choice(["comma", "comma", "repeat"]),
                "idpos": rng.choice(["first", "first", "last"]), "name": None}

    # zero-padded: the children's rank by id (the order of an index on the relations) is their number as well
    T = "t%04d"
    nodes = [node("G", "gene", 0, 1, 20 * n + 50, []), node("G2", "gene", 0, 5, 900, [])]
    for i in range(n):
        ps = ["G"]
        if rng.random() < 0.03:
            ps.insert(rng.randrange(2), "G2")
        nodes.append(node(T % i, "mRNA", 1, 1 + 20 * i, 18 + 20 * i, ps))
    exons = []
    for i in bearing:
        for j in range(rng.randrange(1, 4)):
            ps = [T % i]
            r = rng.random()
            if r < 0.3:
                ps.append("G")                                   # shortcut: G -> exon at level 1 and at level 2
            elif r < 0.5:
                other = rng.choice(bearing)
                if other != i:
                    ps.append(T % other)                     # shared child
            rng.shuffle(ps)
            e = node("e%d.%d" % (i, j), rng.choice(["exon", "exon", "CDS"]), 2, 2 + 20 * i + 5 * j, 5 + 20 * i + 5 * j, ps)
            exons.append(e)
            nodes.append(e)
    last = [e for e in exons if (T % bearing[-1]) in e["parents"]][0]
    nodes.append(node("part", "match_part", 3, last["start"], last["start"] + 1, [last["id"]]))
    return {"nodes": nodes, "edge": "raw"}


def order_of_spec(n, spec):
    """Line order from a small spec: ["forward"] | ["reverse"] | ["shuffle", seed]."""
    import random

    o = list(range(n))
    if spec[0] == "reverse":
        o.reverse()
    elif spec[0] == "shuffle":
        random.Random(spec[1]).shuffle(o)
    return o


# -- process-history / update / verbose classes (C02) ------------------------------------------------------------
VERBOSES = ["absent", False, True, "debug"]      # "absent": the argument is not given at all


def rewired(rng, g, keep_order=False):
    """A graph with the SAME ids, featuretypes and columns as g but OTHER Parent links: the lines are put into a random
    order and every line names 0-2 earlier lines that are not among its parents in g (acyclic by construction; a parent in
    g may become a child here).  Returns None when no link could be made (a single line)."""
    src = g["nodes"]
    if any(n.get("noid") for n in src):
        return None
    idx = list(range(len(src)))
    if not keep_order:
        rng.shuffle(idx)
    nodes, links = [], 0
    for pos, i in enumerate(idx):
        n = dict(src[i], layer=min(pos, 3), name=None, extra=[])
        cand = [m["id"] for m in nodes if m["id"] not in src[i]["parents"]]
        want = min(len(cand), rng.choice([0, 1, 1, 1, 2]))
        if pos == len(idx) - 1 and not links and cand:
            want = max(1, want)
        n["parents"] = rng.sample(cand, want)
        n["style"] = rng.choice(["comma", "repeat"])
        links += len(n["parents"])
        nodes.append(n)
    if not links:
        return None
    return {"nodes": nodes, "edge": g.get("edge", "raw")}


def failing_prior(rng, g):
    """An import that must FAIL half-way: the spec of a GFF3 file that uses the ids of g with other Parent links (3 of 4)
    or ids of its own, with one spoiled spot behind at least one line that has a Parent value:
        fail = "duplicate"   a second line with an ID already seen (default merge_strategy='error')
               "start"       a line whose start column is no integer (stands behind the lines peeked for the dialect)
               "two ids"     a line whose ID attribute has two values
               "transform"   the transform raises when it is given feature number `at` (0-based)
               "id_spec"     the id_spec callable raises at feature number `at`
    Returns {"fail", "text", "at", "checklines", "pairs": (Parent value, id) pairs of the lines before the spot,
    "same_ids", "db": memory|file, "input": path|string, "via": create_db|update} or None."""
    same = rng.random() < 0.75
    base = rewired(rng, g) if same else None
    if base is None:
        same = False
        base = graph(rng, max_nodes=8)
    nodes = base["nodes"]
    edge = base.get("edge", "raw")
    with_parent = [k for k, n in enumerate(nodes) if n["parents"]]
    if not with_parent:
        return None
    pos = rng.randrange(with_parent[0] + 1, len(nodes) + 1)     # lines[:pos] are read before the failure
    fail = rng.choice(["duplicate", "duplicate", "start", "two ids", "transform", "id_spec"])
    lines = [line_of(n, edge) for n in nodes]
    before = nodes[:pos]
    if fail in ("transform", "id_spec"):
        if pos == len(nodes):
            lines.append(line_of(dict(nodes[0], id=nodes[0]["id"] + ".z", parents=[]), edge))
    else:
        victim = rng.choice(before)
        spoiled = dict(victim, start=victim["start"] + 3, end=victim["end"] + 7,
                       parents=rng.sample([n["id"] for n in before if n is not victim], min(len(before) - 1, rng.choice([0, 1, 1]))))
        if fail == "start":
            spoiled["id"] = victim["id"] + ".b"
            cols = line_of(spoiled, edge).split("\t")
            cols[3] = rng.choice(["x", "1e3", "12a", "1.5", "start"])
            text = "\t".join(cols)
        elif fail == "two ids":
            spoiled["id"] = victim["id"] + ".b"
            text = line_of(spoiled, edge).replace("ID=" + encode_id(spoiled["id"], edge), "ID=%s,%s" % (encode_id(spoiled["id"], edge), "second"), 1)
        else:
            text = line_of(spoiled, edge)
        lines.insert(pos, text)
    return {"fail": fail, "text": "\n".join(lines) + "\n", "at": pos, "checklines": max(0, min(pos - 1, rng.choice([1, 2, 10]))),
            "pairs": sorted([p, n["id"]] for n in before for p in n["parents"]), "same_ids": same,
            "db": "file" if rng.random() < 0.2 else "memory", "input": "string" if rng.random() < 0.2 else "path",
            "via": "update" if rng.random() < 0.15 else "create_db"}


def nested_spec(rng, g):
    """A second, small import that runs INSIDE the judged one (from its transform, at feature number `at`): a graph with
    the ids of g and other Parent links (2 of 3) or an unrelated graph."""
    g2 = rewired(rng, g) if rng.random() < 0.67 else None
    same = g2 is not None
    if g2 is None:
        g2 = graph(rng, max_nodes=6)
    return {"graph": g2, "at": rng.randrange(len(g["nodes"])), "same_ids": same, "input": "string" if rng.random() < 0.3 else "path"}


def third_level_split(g):
    """Number of leading lines (parents-first order) that form layers 0-1; the rest (layer >= 2) is what an update adds
    'under existing features'.  None when the graph has fewer than three layers."""
    nodes = g["nodes"]
    k = sum(1 for n in nodes if n["layer"] < 2)
    return k if 0 < k < len(nodes) else None


# -- the documented `pragmas` argument (C02) ---------------------------------------------------------------------------
# A pragma spec is "absent" (the argument is not given) or {"default": bool, "set": {name: value}}: the dictionary handed
# over is dict(constants.default_pragmas if default else {}, **set).  The pool holds settings that, by SQLite's own
# documentation, change durability / caching / enforcement / the order of unordered results, never the rows a query returns.
PRAGMA_POOL = [
    {"foreign_keys": "ON"}, {"foreign_keys": 1}, {"synchronous": "OFF"}, {"synchronous": "FULL"}, {"synchronous": 0},
    {"journal_mode": "MEMORY"}, {"journal_mode": "TRUNCATE"}, {"journal_mode": "DELETE"}, {"journal_mode": "PERSIST"},
    {"cache_size": 50}, {"cache_size": -200}, {"main.cache_size": 2000}, {"temp_store": "MEMORY"}, {"page_size": 1024},
    {"main.page_size": 8192}, {"reverse_unordered_selects": "ON"}, {"automatic_index": "OFF"}, {"case_sensitive_like": "ON"},
    {"secure_delete": "ON"}, {"recursive_triggers": "ON"}, {"foreign_keys": "OFF"},
]
FK_ON = ("ON", 1, "1", "TRUE", "YES")


def pragma_specs(rng):
    """The pragma settings one file is imported under: argument absent, the defaults given explicitly, the defaults plus
    foreign_keys='ON', and 1-2 drawn ones (1-2 pool entries on top of the defaults or alone); in a drawn sequence."""
    specs = ["absent", {"default": True, "set": {}}, {"default": True, "set": {"foreign_keys": "ON"}}]
    for _ in range(rng.choice([1, 1, 2])):
        extra = {}
        for d in rng.sample(PRAGMA_POOL, rng.choice([1, 1, 2])):
            extra.update(d)
        spec = {"default": rng.random() < 0.7, "set": extra}
        if spec not in specs:
            specs.append(spec)
    rng.shuffle(specs)
    return specs


def pragma_label(spec):
    if spec == "absent":
        return "absent"
    items = ", ".join("%s=%s" % kv for kv in sorted(spec["set"].items()))
    return ("defaults" if spec["default"] else "no defaults") + (" + " + items if items else "")


def fk_on(spec):
    return spec != "absent" and str(spec["set"].get("foreign_keys", "")).upper() in FK_ON


# -- imports overlapping in time (threads) / imports in a child process with another locale (C02) --------------------------
def forest_params(rng, ns=None):
    """Parameters (JSON-able, small) of a forest of a few hundred lines: `genes` genes with 2-4 transcripts each, 3-6 exons per
    transcript, a few parts below exons.  `ns` is the id namespace: two forests with the same ns use the SAME ids with other
    Parent links (the wiring is drawn from `seed`)."""
    return {"seed": rng.randrange(10 ** 9), "genes": rng.randrange(9, 17), "ns": ns if ns is not None else "f%d" % rng.randrange(1000)}


def forest_graph(p):
    """The graph of forest_params(): four layers (gene, mRNA, exon/CDS, match_part), >= 3 levels everywhere; a transcript names
    a gene drawn from all genes (sometimes two), an exon 1-2 transcripts drawn from a drawn gene (sometimes also the gene:
    shortcut; sometimes a Parent value naming no line)."""
    import random

    rng = random.Random(p["seed"] * 17 + 3)
    ns, ng = p["ns"], p["genes"]

    def node(nid, ft, layer, start, end, parents):
        return {"id": nid, "type": ft, "seqid": "chr1", "start": start, "end": end, "strand": rng.choice("+-"), "layer": layer,
                "parents": parents, "style": rng.choice(["comma", "comma", "repeat"]),
                "idpos": rng.choice(["first", "first", "last"]), "name": None}

    nodes = []
    ntx = [rng.randrange(2, 5) for _ in range(ng)]
    for g in range(ng):
        nodes.append(node("%s.g%d" % (ns, g), "gene", 0, 1 + 5000 * g, 4900 + 5000 * g, []))
    for g in range(ng):
        for t in range(ntx[g]):
            ps = ["%s.g%d" % (ns, rng.randrange(ng))]
            if rng.random() < 0.15:
                other = "%s.g%d" % (ns, rng.randrange(ng))
                if other not in ps:
                    ps.append(other)
            nodes.append(node("%s.g%d.t%d" % (ns, g, t), "mRNA", 1, 1 + 5000 * g, 4900 + 5000 * g, ps))
    for g in range(ng):
        for t in range(ntx[g]):
            for e in range(rng.randrange(3, 7)):
                og = rng.randrange(ng)
                ps = ["%s.g%d.t%d" % (ns, og, rng.randrange(ntx[og]))]
                r = rng.random()
                if r < 0.2:
                    o2 = "%s.g%d.t%d" % (ns, og, rng.randrange(ntx[og]))
                    if o2 not in ps:
                        ps.append(o2)
                elif r < 0.3:
                    ps.append("%s.g%d" % (ns, rng.randrange(ng)))           # possibly a shortcut
                elif r < 0.34:
                    ps.append("%s.nowhere%d" % (ns, rng.randrange(5)))    # dangling
                rng.shuffle(ps)
                eid = "%s.g%d.t%d.e%d" % (ns, g, t, e)
                s = 1 + 5000 * g + 100 * e
                nodes.append(node(eid, rng.choice(["exon", "exon", "CDS"]), 2, s, s + 60, ps))
                if rng.random() < 0.12:
                    nodes.append(node(eid + ".p", "match_part", 3, s, s + 9, [eid]))
    return {"nodes": nodes, "edge": "raw"}


NONASCII_WORDS = ["géne", "tränscript", "ex€n", "ген", "遺伝子", "αβ", "naïve",
                  "\U0001d4d6", "ñu", "גן", "Ångström", "ß"]


def make_nonascii(rng, g):
    """Rename 2-4 ids (features WITH grandchildren or grandparents first) and the Parent values naming them to words with
    characters outside ASCII; returns the number renamed (0: nothing to rename).  The file is written with ascii_text_of()."""
    nodes = g["nodes"]
    byid = {n["id"]: n for n in nodes}
    kids = {}
    for n in nodes:
        for p in n["parents"]:
            kids.setdefault(p, []).append(n["id"])
    top = [i for i in byid if any(kids.get(c) for c in kids.get(i, ()))]
    bottom = [n["id"] for n in nodes if any(byid[p]["parents"] for p in n["parents"] if p in byid)]
    middle = [i for i in byid if kids.get(i) and byid[i]["parents"]]
    first = [rng.choice(top)] if top else []
    if bottom and rng.random() < 0.8:
        first.append(rng.choice(bottom))
    if middle and rng.random() < 0.6:
        first.append(rng.choice(middle))
    rest = [i for i in byid if i not in first]
    rng.shuffle(rest)
    pick = list(dict.fromkeys(first + rest[:rng.randrange(0, 3)]))[:4]
    mapping = {}
    used = set(byid) | {p for n in nodes for p in n["parents"]}
    for i in pick:
        for _ in range(20):
            new = rng.choice(NONASCII_WORDS) + rng.choice(["", "1", "2", ".x", "-a"])
            if rng.random() < 0.3:
                new = rng.choice(["x", "id_", ""]) + new
            if new not in used:
                used.add(new)
                mapping[i] = new
                break
    for n in nodes:
        n["id"] = mapping.get(n["id"], n["id"])
        n["parents"] = [mapping.get(p, p) for p in n["parents"]]
        if n.get("name") and not n["name"].isascii():
            n["name"] = None
    return len(mapping)


def ascii_text_of(g, order):
    """text_of() with every character outside ASCII written percent-encoded (its UTF-8 bytes): an ASCII-only GFF3 file."""
    text = text_of(g, order)
    out = "".join(c if ord(c) < 128 else "".join("%%%02X" % b for b in c.encode("utf-8")) for c in text)
    assert out.isascii()
    return out
