"""
Generators for C11: small feature sets with mixed-case / non-ASCII seqids, numeric-looking text columns, many ties
(DESIGN section 3 (c)) and filter/order queries.  Deterministic in the arguments; never imports gffutils.
"""
import random

from gvmon.models import C11 as M

SEQIDS = ["chr1", "Chr1", "CHR1", "chr10", "chr2", "chrX", "chré", "chrÉ", "染色体1", "Z", "a", "1", "10", "2", "µ"]
SOURCES = ["src", "Src", "ensembl", ".", "ÉNS", "10", "9"]
TYPES = ["gene", "Gene", "GENE", "mRNA", "mrna", "exon", "ex_n", "CDS"]
SCORES = [".", "10", "9", "9.5", "100", "1e3", "-1", "0", "09", "a", "é"]
STARTS = [1, 2, 5, 9, 10, 11, 99, 100, 101, 999, 1000, 20000]
LENS = [0, 0, 1, 5, 9, 90, 91, 100, 1000, 9999]
NAMES = ["a", "B", "b", "é", "10", "9", "x y"]


def make_set(seed, n):
    rng = random.Random(seed * 104729 + 7)
    seqids = rng.sample(SEQIDS, rng.choice([2, 3, 4, 6]))
    types = rng.sample(TYPES, rng.choice([2, 3, 4, 6]))
    sources = rng.sample(SOURCES, rng.choice([1, 2, 3]))
    scores = rng.sample(SCORES, rng.choice([2, 4, 6]))
    starts = rng.sample(STARTS, rng.choice([3, 5, 8]))
    rows, lines = [], []
    for i in range(n):
        s = rng.choice(starts)
        e = s + rng.choice(LENS)
        start = None if rng.random() < 0.04 else s
        end = None if rng.random() < 0.04 else e
        row = {
            "id": "f%d" % i, "file_order": i + 1,
            "seqid": rng.choice(seqids), "source": rng.choice(sources), "featuretype": rng.choice(types),
            "start": start, "end": end, "score": rng.choice(scores), "strand": rng.choice(["+", "-", "."]),
            "frame": rng.choice([".", ".", "0", "1", "2"]),
        }
        attrs = "ID=f%d" % i
        if rng.random() < 0.6:
            attrs += ";Name=" + rng.choice(NAMES)
        if rng.random() < 0.2:
            attrs += ";Note=" + ",".join(rng.sample(NAMES, 2))
        extra = []
        if rng.random() < 0.3:
            extra = [rng.choice(["x", "10", "9", "é", "X"])]
        cols = [row["seqid"], row["source"], row["featuretype"], "." if start is None else str(start),
                "." if end is None else str(end), row["score"], row["strand"], row["frame"], attrs] + extra
        row["extra_in"] = extra
        rows.append(row)
        lines.append("\t".join(cols))
    return {"rows": rows, "text": "\n".join(lines) + "\n", "seqids": seqids, "types": types, "starts": starts}


def gen_query(rng, SET):
    q = {"api": "all_features" if rng.random() < 0.6 else "features_of_type"}
    if q["api"] == "all_features" and rng.random() < 0.4:
        q["ft"], q["ft_form"] = None, None
    else:
        q["ft_form"] = rng.choice(["str", "str", "list", "tuple", "set"])
        pool = SET["types"] + [rng.choice(TYPES), "absent"]
        k = 1 if q["ft_form"] == "str" else rng.choice([1, 2, 2, 3])
        q["ft"] = sorted(set(rng.choice(pool) for _ in range(k)))
    q["strand"] = rng.choice([None, None, None, "+", "-", "."])
    r = rng.random()
    if r < 0.12:
        q["order_by"] = None
    elif r < 0.57:
        q["order_by"] = [rng.choice(M.ORDERABLE)]
    elif r < 0.85:
        q["order_by"] = rng.sample(M.ORDERABLE, 2)
    else:
        q["order_by"] = rng.sample(M.ORDERABLE, 3)
    q["ob_form"] = rng.choice(["tuple", "tuple", "list"])
    q["reverse"] = rng.random() < 0.4
    q["limit"] = None
    q["within"] = False
    if rng.random() < 0.25:
        a = rng.choice(SET["starts"]) + rng.choice([-1, 0, 0, 1])
        b = rng.choice(SET["starts"]) + rng.choice(LENS) + rng.choice([-1, 0, 0, 1])
        a, b = max(1, a), max(1, b)
        if a > b:
            a, b = b, a
        q["limit"] = [rng.choice(SET["seqids"]), a, b]
        q["limit_form"] = rng.choice(["tuple", "string"])
        q["within"] = rng.random() < 0.4
    return q
