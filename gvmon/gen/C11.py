"""
Generators for C11: small feature sets with mixed-case / non-ASCII seqids, numeric-looking text columns, many ties
(DESIGN section 3 (c)) and filter/order queries.  Deterministic in the arguments; never imports gffutils.
"""
import random

from gvmon.models import C11 as M

SEQIDS = ["chr1", "Chr1", "CHR1", "chr10", "chr2", "chrX", "chré", "chrÉ", "染色体1", "Z", "a", "1", "10", "2", "µ"]
SOURCES = ["src", "Src", "ensembl", ".", "ÉNS", "10", "9"]
TYPES = ["gene", "Gene", "GENE", "mRNA", "mrna", "exon", "ex_n", "CDS"]
SCORES = [".", "10", "9", "9.5", "100", "1e3", "-1", "0", "09", "a", "é"]
STARTS = [1, 2, 5, 9, 10, 11, 99, 100, 101, 999, 1000, 20000]
LENS = [0, 0, 1, 5, 9, 90, 91, 100, 1000, 9999]
NAMES = ["a", "B", "b", "é", "10", "9", "x y"]
# flavor "odd": text columns with a comma, a blank, a percent sign, an underscore or SQL/glob wildcard characters (each
# next to the plain values a careless split / LIKE / GLOB would confuse it with)
ODD_TYPES = ["exon,CDS", "exon", "CDS", "exon, CDS", "five prime UTR", "exon ", "100%", "%", "ex%n", "ex_n", "exon%",
             "exAn", "_", "gene*", "gene?", "genes", "[a-z]", "e'x", 'e"x', "x;y"]
ODD_SEQIDS = ["chr1,chr2", "chr1", "chr2", "chr 1", "chr%1", "chr_1", "chrA1", "%", "_", "chr*", "c'1"]
ODD_SOURCES = ["src", "s,t", "s t", "s%", "s_t", "sAt", "*"]
PROBES = ["exo%", "e_on", "ex*", "exon,", ",CDS", "CDS,exon", "%%", "__", "gene_", "absent"]   # never stored
# flavor "empty": a text column that is the empty string (a GFF line may have an empty column) next to ordinary values
# flavor "norm":  values that differ only by Unicode normalisation form (NFC 'é' U+00E9 vs NFD 'e' + U+0301) or only in
#                 case; all of them are different values (filters, distinct lists, counts, order by code point)
NORM_SEQIDS = ["chr\u00e9", "chre\u0301", "Chr\u00e9", "chr\u00c9", "chrE\u0301", "CHR\u00c9", "chre", "chrf", "chr\u00e91",
               "chre\u03011"]
NORM_TYPES = ["caf\u00e9", "cafe\u0301", "Caf\u00e9", "CAF\u00c9", "CAFE\u0301", "cafe", "gene", "Gene", "GENE", "g\u00e8ne",
              "ge\u0300ne"]
NORM_SOURCES = ["\u00e5", "a\u030a", "\u00c5", "A\u030a", "\u212b", "a", "A"]
# flavor "strands": every strand value a file may carry ('?' is legal GFF3: relevant but unknown)
ODD_STRANDS = ["*", "plus", "minus", "0", "1", "+-", "++", "F", "unknown", "\u00e9", "%2B", "+ ", "both"]
# how a caller may come by an order_by name that is EQUAL TO the literal column name without being the same object
OB_BUILDS = ["join", "split", "bytes", "subclass", "strip", "concat"]
ODD_CHARS = [(",", "a comma"), (" ", "a blank"), ("%", "a percent sign"), ("_", "an underscore"),
             ("*", "a wildcard"), ("?", "a wildcard"), ("[", "a wildcard")]


def is_empty(flavor):
    """Flavours "empty" (seqid and/or source '' on some lines) and "empty-all" (every seqid is '')."""
    return flavor in ("empty", "empty-all")


def odd_classes(text):
    return sorted(set(name for ch, name in ODD_CHARS if ch in text))


def make_set(seed, n, flavor=None):
    rng = random.Random(seed * 104729 + 7)
    if flavor == "odd":
        seqids = rng.sample(ODD_SEQIDS, rng.choice([3, 4, 6]))
        types = rng.sample(ODD_TYPES[:3], rng.choice([2, 3, 3])) + rng.sample(ODD_TYPES[3:], rng.choice([2, 3, 5]))
        sources = rng.sample(ODD_SOURCES, rng.choice([2, 3]))
    elif flavor == "norm":
        # the first two of each list are NFC/NFD twins, the third a case twin of the first
        seqids = NORM_SEQIDS[:3] + rng.sample(NORM_SEQIDS[3:], rng.choice([0, 1, 3]))
        types = NORM_TYPES[:3] + rng.sample(NORM_TYPES[3:], rng.choice([0, 2, 4]))
        sources = NORM_SOURCES[:2] + rng.sample(NORM_SOURCES[2:], rng.choice([0, 1, 3]))
    elif is_empty(flavor):
        which = "all seqids" if flavor == "empty-all" else rng.choice(["seqid", "source", "both", "both"])
        seqids = rng.sample(SEQIDS, rng.choice([1, 2, 3]))
        sources = rng.sample(SOURCES, rng.choice([1, 2]))
        if which in ("seqid", "both"):
            seqids.insert(rng.randrange(len(seqids) + 1), "")
        if which in ("source", "both", "all seqids"):
            sources.insert(rng.randrange(len(sources) + 1), "")
        if which == "all seqids":
            seqids = [""]
        types = rng.sample(TYPES, rng.choice([2, 3, 4]))
    else:
        seqids = rng.sample(SEQIDS, rng.choice([2, 3, 4, 6]))
        types = rng.sample(TYPES, rng.choice([2, 3, 4, 6]))
        sources = rng.sample(SOURCES, rng.choice([1, 2, 3]))
    scores = rng.sample(SCORES, rng.choice([2, 4, 6]))
    starts = rng.sample(STARTS, rng.choice([3, 5, 8]))
    strands = ["+", "-", "."]
    if flavor == "strands":
        # the legal GFF3 '?' and values a file may carry although the format does not list them; stored verbatim
        strands = ["+", "-", ".", "?", "?"] + rng.sample(ODD_STRANDS, rng.choice([1, 2, 4]))
    rows, lines = [], []
    for i in range(n):
        s = rng.choice(starts)
        e = s + rng.choice(LENS)
        start = None if rng.random() < 0.04 else s
        end = None if rng.random() < 0.04 else e
        row = {
            "id": "f%d" % i, "file_order": i + 1,
            "seqid": rng.choice(seqids), "source": rng.choice(sources), "featuretype": rng.choice(types),
            "start": start, "end": end, "score": rng.choice(scores), "strand": rng.choice(strands),
            "frame": rng.choice([".", ".", "0", "1", "2"]),
        }
        attrs = "ID=f%d" % i
        if rng.random() < 0.6:
            attrs += ";Name=" + rng.choice(NAMES)
        if rng.random() < 0.2:
            attrs += ";Note=" + ",".join(rng.sample(NAMES, 2))
        extra = []
        if rng.random() < 0.3:
            extra = [rng.choice(["x", "10", "9", "é", "X"])]
        cols = [row["seqid"], row["source"], row["featuretype"], "." if start is None else str(start),
                "." if end is None else str(end), row["score"], row["strand"], row["frame"], attrs] + extra
        row["extra_in"] = extra
        rows.append(row)
        lines.append("\t".join(cols))
    return {"rows": rows, "text": "\n".join(lines) + "\n", "seqids": seqids, "types": types, "starts": starts,
            "flavor": flavor, "traits": traits(rows), "strands": sorted(set(strands))}


def nfc(text):
    import unicodedata

    return unicodedata.normalize("NFC", text)


def twins(values, fold):
    """Pairs of different values that `fold` maps to one value."""
    vals = sorted(set(values))
    return [(a, b) for i, a in enumerate(vals) for b in vals[i + 1:] if fold(a) == fold(b)]


def traits(rows):
    """What the stored feature set holds (names of input classes)."""
    t = []
    for col in ("seqid", "source", "featuretype"):
        vals = set(r[col] for r in rows)
        if "" in vals:
            t.append("empty %s stored" % col)
            if len(vals) == 1:
                t.append("every %s is empty" % col)
        if twins(vals, nfc):
            t.append("%ss that differ only by normalisation form (NFC/NFD) stored" % col)
        if twins(vals, lambda v: v.lower()):
            t.append("%ss that differ only in case stored" % col)
        if any(ord(ch) > 127 for v in vals for ch in v):
            t.append("non-ASCII %s stored" % col)
    strands = set(r["strand"] for r in rows)
    if "?" in strands:
        t.append("strand '?' stored")
    if strands - set(["+", "-", ".", "?"]):
        t.append("strand values other than + - . ? stored")
    return t


def gen_history(rng, SET):
    """A history applied to the database before it is queried: deletes (by id / by Feature object) and in-place
    rewrites through add_relation(parent_func=, child_func=) that add attributes.  Plain data."""
    ids = [r["id"] for r in SET["rows"]]
    n = len(ids)
    ops, gone, pairs = [], set(), set()
    for _ in range(rng.randrange(2, max(4, n // 3))):
        alive = [i for i in ids if i not in gone]
        if len(alive) < 4:
            break
        if rng.random() < 0.5:
            v = rng.choice(alive[:2] + alive[-2:] + alive) if rng.random() < 0.4 else rng.choice(alive)
            gone.add(v)
            ops.append({"op": "delete", "id": v, "form": rng.choice(["id", "feature"])})
        else:
            p, c = rng.sample(alive, 2)
            if (p, c) in pairs:
                continue
            pairs.add((p, c))
            ops.append({"op": "rewrite", "parent": p, "child": c, "level": rng.choice([1, 1, 2]),
                        "funcs": rng.choice(["parent", "child", "both", "both"]), "tag": "h%d" % len(ops),
                        "as": rng.choice(["id", "feature"])})
    return ops


def long_types(ft, pad):
    """The featuretype collection of a 'long' query: pad["n"] (1000-1200) entries, the types of `ft` spread over the
    whole list (first, last, around the 999th/1000th place, elsewhere), the rest types that no feature has; with
    pad["dups"] about a tenth of the entries are repeats (of matching types and of fillers).  Deterministic."""
    r = random.Random(pad["seed"])
    n = pad["n"]
    out = ["none%04d" % i for i in range(n)]
    special = sorted(set(x for x in (0, n - 1, 998, 999, 1000, n // 2, n // 3) if x < n))
    r.shuffle(special)
    places = special[:len(ft)]
    while len(places) < len(ft):
        x = r.randrange(n)
        if x not in places:
            places.append(x)
    order = list(ft)
    r.shuffle(order)
    for pos, t in zip(places, order):
        out[pos] = t
    if pad["dups"]:
        taken = set(places)
        for _ in range(n // 10):
            x = r.randrange(n)
            if x in taken:
                continue
            taken.add(x)
            out[x] = r.choice(order) if r.random() < 0.4 else out[r.randrange(n)]      # a repeat of another entry
    return out


# kinds of collection a featuretype filter may be handed over as ("string or collection"); the last two are one-shot
# iterators (not collections: judged only if the tree under test accepts them)
COLLECTION_FORMS = ["list", "tuple", "set", "frozenset", "dict", "dict_keys", "deque"]
ONE_SHOT_FORMS = ["generator", "iterator"]
UNORDERED_FORMS = ("set", "frozenset", "dict", "dict_keys")     # repeats cannot be expressed


def gen_query(rng, SET, long_ft=False, kinds=None):
    """kinds = (collection form, size class "0" | "1" | "2" | "many"): a query of the 'every kind of collection' block."""
    q = {"api": "all_features" if rng.random() < 0.6 else "features_of_type"}
    odd = SET.get("flavor") == "odd"
    if kinds:
        form, size = kinds
        q["ft_form"] = form
        pool = list(SET["types"]) + ([rng.choice(ODD_TYPES), rng.choice(PROBES)] if odd else
                                     [rng.choice(NORM_TYPES), rng.choice(NORM_TYPES)] if SET.get("flavor") == "norm" else
                                     [rng.choice(TYPES), "absent"])
        pool = sorted(set(pool))
        k = {"0": 0, "1": 1, "2": 2}.get(size)
        if k is None:
            k = rng.randrange(3, len(pool) + 1) if len(pool) >= 3 else len(pool)
        q["ft"] = sorted(rng.sample(pool, min(k, len(pool))))
    elif long_ft:
        q["ft_form"] = rng.choice(["list", "tuple", "set", "frozenset", "dict_keys", "deque"])
        pool = list(SET["types"])
        k = min(len(pool), rng.choice([1, 2, 3, 4]))
        q["ft"] = sorted(rng.sample(pool, k))
        q["ft_pad"] = {"n": rng.randrange(1000, 1201), "seed": rng.randrange(1 << 30),
                       "dups": q["ft_form"] not in UNORDERED_FORMS and rng.random() < 0.5}
    elif q["api"] == "all_features" and rng.random() < 0.4:
        q["ft"], q["ft_form"] = None, None
    else:
        q["ft_form"] = rng.choice(["str", "str", "str", "list", "tuple", "set", "frozenset", "dict", "dict_keys", "deque"])
        pool = SET["types"] + ([rng.choice(ODD_TYPES), rng.choice(PROBES)] if odd else
                               [rng.choice(NORM_TYPES), rng.choice(NORM_TYPES)] if SET.get("flavor") == "norm" else
                               [rng.choice(TYPES), "absent"])
        k = 1 if q["ft_form"] == "str" else rng.choice([1, 2, 2, 3])
        q["ft"] = sorted(set(rng.choice(pool) for _ in range(k)))
    q["strand"] = rng.choice([None, None, None, "+", "-", "."])
    if SET.get("flavor") == "strands" and rng.random() < 0.75:
        # every strand value present in the data (and, rarely, one that is not)
        q["strand"] = rng.choice(SET["strands"] + ["?"] + [rng.choice(ODD_STRANDS)] * (rng.random() < 0.15))
    r = rng.random()
    if long_ft:
        r = 0.12 + r * 0.88 if r > 0.05 else r      # nearly always ordered
    if r < 0.12:
        q["order_by"] = None
    elif r < 0.57:
        q["order_by"] = [rng.choice(M.ORDERABLE)]
    elif r < 0.85:
        q["order_by"] = rng.sample(M.ORDERABLE, 2)
    else:
        q["order_by"] = rng.sample(M.ORDERABLE, 3)
    q["ob_form"] = rng.choice(["tuple", "tuple", "list"])
    if q["order_by"] is not None and rng.random() < 0.4:
        # the names are handed over as strings built at run time (equal to the literal names, not the same objects)
        q["ob_built"] = rng.choice(OB_BUILDS)
    q["reverse"] = rng.random() < 0.4
    q["limit"] = None
    q["within"] = False
    if rng.random() < 0.25:
        a = rng.choice(SET["starts"]) + rng.choice([-1, 0, 0, 1])
        b = rng.choice(SET["starts"]) + rng.choice(LENS) + rng.choice([-1, 0, 0, 1])
        a, b = max(1, a), max(1, b)
        if a > b:
            a, b = b, a
        q["limit"] = [rng.choice(SET["seqids"] + (NORM_SEQIDS[:4] if SET.get("flavor") == "norm" else [])), a, b]
        q["limit_form"] = rng.choice(["tuple", "string"])
        q["within"] = rng.random() < 0.4
    return q
