"""
Generators for C04: annotation records whose features have / lack / multiply define the id attributes, and id_spec
descriptions in every form of the statement.  Cases are plain data (see gvmon/models/C04.py for the spec encoding).
"""
import copy

from gvmon.models import C04 as MC

GFF_TYPES = ["gene", "mRNA", "exon", "CDS", "ncRNA", "region"]
GTF_TYPES = ["exon", "CDS", "transcript", "gene", "start_codon", "exon"]
FORMS = ["none", "str", "column", "list", "list+column", "dict-str", "dict-list", "callable:always_none",
         "callable:name_attr", "callable:autoincrement_seqid", "callable:autoincrement_const", "callable:autoincrement_seqid_strand", "callable:composite",
         "callable:mixed"]
NS = [1, 2, 3, 4, 5, 6, 8, 12, 20]
# values that make a column unique per line when a ':column:' spec keys on it
UNIQUE = {
    "seqid": lambda i: "chr%d" % (i + 1),
    "source": lambda i: "src%d" % i,
    "featuretype": lambda i: "type%d" % i,
    "score": lambda i: "0.%d" % (i + 1),
    "strand": lambda i: "+-."[i],
    "frame": lambda i: ".012"[i],
}
EXOTIC_IDS = ["exon_%d", "gene_%d", "gé%d", "id %d", "G%d|x", "%d", "g%d_1", "CDS_%d_", "g.%d-a", "ID%d:1"]


def id_value(rng, i):
    if rng.random() < 0.2:
        return rng.choice(EXOTIC_IDS) % (50 + i)
    return "g%d" % i


def records(rng, fmt, n, multi_p, offset=0):
    """offset: number the lines offset..offset+n-1 (ids and coordinates of a later batch differ from an earlier one)."""
    gtf = fmt == "gtf"
    pool = rng.sample(GTF_TYPES if gtf else GFF_TYPES, rng.randrange(1, 5))
    recs = []
    ids = []
    for i in range(offset, offset + n):
        ft = rng.choice(pool)
        s = 100 * (i + 1) + rng.randrange(0, 50)
        rec = {
            "seqid": rng.choice(["chr1", "chr2", "chrX", "1", "scaffold_3"]),
            "source": rng.choice(["src", "ensembl", "."]),
            "featuretype": ft,
            "start": str(s), "end": str(100 * (i + 1) + 50 + rng.randrange(0, 40)),
            "score": rng.choice([".", ".", "5", "0.5"]),
            "strand": rng.choice("+-."),
            "frame": rng.choice([".", ".", "0", "1", "2"]),
            "extra": [],
        }
        attrs = []
        if gtf:
            if ft == "gene":
                if rng.random() < 0.8:
                    attrs.append(["gene_id", multi(rng, "G%d" % (10 + i), multi_p)])
            elif ft == "transcript":
                attrs.append(["gene_id", ["G%d" % rng.randrange(1, 3)]])
                if rng.random() < 0.8:
                    attrs.append(["transcript_id", multi(rng, "Tx%d" % (10 + i), multi_p)])
            else:
                t = rng.randrange(1, 4)
                attrs.append(["gene_id", ["G%d" % (1 + t % 2)]])
                attrs.append(["transcript_id", ["T%d" % t]])
        if rng.random() < 0.6:
            v = id_value(rng, i)
            attrs.append(["ID", multi(rng, v, multi_p)])
            ids.append(v)
        if rng.random() < 0.5:
            attrs.append(["Name", multi(rng, "n%d" % i, multi_p)])
        if rng.random() < 0.35:
            attrs.append(["Alias", ["al%d_%d" % (i, j) for j in range(1 if rng.random() < 0.6 else rng.randrange(2, 4))]])
        if rng.random() < 0.4:
            attrs.append(["Note", [rng.choice(["x", "some note", "é", "a:b"]) + str(j) for j in range(rng.randrange(1, 3))]])
        if rng.random() < 0.15:
            attrs.append(["flag", []])
        if not gtf and ids and rng.random() < 0.3:
            attrs.append(["Parent", [rng.choice(ids)]])
        if not any(v for _, v in attrs):
            attrs.insert(0, ["Note", ["only%d" % i]])
        if not gtf:
            # arbitrary attribute order (not for gtf: its first attributes decide the format detection)
            rng.shuffle(attrs)
        while attrs[0][1] == []:
            attrs.append(attrs.pop(0))  # a valueless flag never leads the column
        rec["attrs"] = attrs
        recs.append(rec)
    return recs


def multi(rng, v, p):
    if rng.random() < p:
        return [v + "a", v + "b"] if rng.random() < 0.7 else [v, v + "b", v + "c"]
    return [v]


def attr_name(rng, extra=()):
    return rng.choice(["ID", "ID", "Name", "Alias", "nokey"] + list(extra))


def column_spec(rng, n):
    cols = ["seqid", "source", "featuretype", "start", "end", "score"]
    if n <= 3:
        cols.append("strand")
    if n <= 4:
        cols.append("frame")
    return ":%s:" % rng.choice(cols)


def attr_list(rng):
    k = rng.randrange(2, 4)
    return rng.sample(["ID", "Name", "Alias", "nokey", "Note"], k)


def spec_of(rng, form, recs, fmt):
    n = len(recs)
    if form == "none":
        return {"form": "none"}
    if form == "str":
        return {"form": "str", "v": attr_name(rng)}
    if form == "column":
        return {"form": "str", "v": column_spec(rng, n)}
    if form == "list":
        return {"form": "list", "v": attr_list(rng)}
    if form == "list+column":
        return {"form": "list", "v": attr_list(rng)[:2] + [column_spec(rng, n)]}
    if form in ("dict-str", "dict-list"):
        types = sorted(set(r["featuretype"] for r in recs)) + ["absent_type"]
        d = {}
        for t in types:
            if rng.random() < 0.7:
                if form == "dict-list":
                    d[t] = attr_list(rng)
                elif rng.random() < 0.15:
                    d[t] = column_spec(rng, n)
                else:
                    d[t] = attr_name(rng, extra=("gene_id", "transcript_id") if (fmt == "gtf" and t in ("gene", "transcript")) else ())
        if not d:
            # an empty dict (like '' or []) is indistinguishable from "no id_spec given": not a form of the statement
            d[types[0]] = attr_list(rng) if form == "dict-list" else attr_name(rng)
        return {"form": "dict", "v": d}
    if form.startswith("callable:"):
        return {"form": "callable", "v": form.split(":", 1)[1]}
    raise ValueError(form)


def columns_keyed(spec):
    """Columns a ':column:' spec may key on."""
    out = set()
    if spec["form"] in ("str", "list"):
        ks = [spec["v"]] if spec["form"] == "str" else spec["v"]
    elif spec["form"] == "dict":
        ks = []
        entries = list(spec["v"].values()) + list((spec.get("missing") or {}).values())
        if spec.get("default") is not None:
            entries.append(spec["default"])
        for e in entries:
            ks += [e] if isinstance(e, str) else list(e)
    elif spec["form"] == "callable" and spec["v"] in ("autoincrement_seqid", "autoincrement_seqid_strand"):
        return out
    else:
        ks = []
    for k in ks:
        c = MC.column_of(k)
        if c:
            out.add(c)
    return out


def make_unique(recs, cols):
    for i, rec in enumerate(recs):
        for c in cols:
            if c in UNIQUE:
                rec[c] = UNIQUE[c](i)   # start/end are unique by construction


def gen_case(rng):
    fmt = rng.choice(["gff3", "gff3", "gtf"])
    n = rng.choice(NS)
    form = rng.choice(FORMS)
    multi_p = rng.choice([0.0, 0.0, 0.05, 0.15])
    recs = records(rng, fmt, n, multi_p)
    spec = spec_of(rng, form, recs, fmt)
    cols = columns_keyed(spec)
    if "featuretype" in cols and spec["form"] == "dict":
        cols.discard("featuretype")  # a dict spec selects by featuretype: leave the types alone
    make_unique(recs, cols)
    infer = False
    if fmt == "gtf":
        clean = all(r["featuretype"] not in ("gene", "transcript") for r in recs) and "featuretype" not in cols
        infer = clean and rng.random() < 0.4
    path = "create"
    if n >= 2 and not infer and rng.random() < 0.3:
        path = "create+update"
    if path == "create":
        batches = [recs]
    else:
        cut = rng.randrange(1, n)
        batches = [recs[:cut], recs[cut:]]
    return {
        "kind": "import", "fmt": fmt, "form": form, "spec": spec, "batches": batches, "infer": infer,
        "db": "file" if (path != "create" or rng.random() < 0.3) else "memory",
        "input": rng.choice(["string", "path"]), "reopen": rng.random() < 0.5,
    }


# ---------------------------------------------------------------------------------------------------------------
# GTF with id_spec None and non-default gtf_transcript_key / gtf_gene_key: the default id_spec of the format applies
# ('gene' -> gene_id, 'transcript' -> transcript_id), whatever the two keys are.
CUSTOM_KEYS = [("tx", "gn"), ("transcript_id", "geneID"), ("Parent_tx", "locus"), ("tx_id", "gene_id"), ("transcript", "gene")]


def gen_keys_case(rng):
    tkey, gkey = rng.choice(CUSTOM_KEYS)
    n = rng.choice(NS)
    multi_p = rng.choice([0.0, 0.0, 0.05])
    recs = records(rng, "gtf", n, multi_p)
    if rng.random() < 0.7 and n >= 2:
        # make sure gene / transcript lines occur: they are the lines whose key comes from an attribute
        for rec in rng.sample(recs, rng.randrange(1, min(n, 4) + 1)):
            ft = rng.choice(["gene", "transcript"])
            i = recs.index(rec)
            rec["featuretype"] = ft
            keep = [a for a in rec["attrs"] if a[0] not in ("gene_id", "transcript_id")]
            lead = []
            if ft == "gene":
                if rng.random() < 0.7:
                    lead.append(["gene_id", multi(rng, "G%d" % (10 + i), multi_p)])
            else:
                lead.append(["gene_id", ["G%d" % rng.randrange(1, 3)]])
                if rng.random() < 0.7:
                    lead.append(["transcript_id", multi(rng, "Tx%d" % (10 + i), multi_p)])
            rec["attrs"] = lead + keep
            if not any(v for _, v in rec["attrs"]):
                rec["attrs"].insert(0, ["Note", ["only%d" % i]])
            while rec["attrs"][0][1] == []:
                rec["attrs"].append(rec["attrs"].pop(0))
    clean = all(r["featuretype"] not in ("gene", "transcript") for r in recs)
    infer = clean and rng.random() < 0.4
    for i, rec in enumerate(recs):
        ft = rec["featuretype"]
        have = {k for k, _ in rec["attrs"]}
        add = []
        # the values under the custom keys differ from those under gene_id / transcript_id; on the other lines they name
        # the same grouping (one gene per transcript), so that inference, when on, sees a proper gene model
        cur = dict((k, v[0]) for k, v in rec["attrs"] if v)
        if ft in ("gene", "transcript"):
            if gkey not in have and rng.random() < 0.75:
                add.append([gkey, ["cg%d" % i]])
            if tkey not in have and ft == "transcript" and rng.random() < 0.75:
                add.append([tkey, ["ct%d" % i]])
        elif infer or rng.random() < 0.8:
            # both ids (always when inference is on: every line of the C03 premise carries both) or none
            if gkey not in have:
                add.append([gkey, ["c" + cur["gene_id"]]])
            if tkey not in have:
                add.append([tkey, ["c" + cur["transcript_id"]]])
        for a in add:
            rec["attrs"].insert(rng.randrange(0, len(rec["attrs"]) + 1), a)
    path = "create+update" if (n >= 2 and not infer and rng.random() < 0.25) else "create"
    if path == "create":
        batches = [recs]
    else:
        cut = rng.randrange(1, n)
        batches = [recs[:cut], recs[cut:]]
    return {
        "kind": "import", "fmt": "gtf", "form": "none", "spec": {"form": "none"}, "batches": batches, "infer": infer,
        "keys": [tkey, gkey],
        "db": "file" if (path != "create" or rng.random() < 0.3) else "memory",
        "input": rng.choice(["string", "path"]), "reopen": rng.random() < 0.5,
    }


# ---------------------------------------------------------------------------------------------------------------
# keys that are easily confused by a look-up that is not an exact string match
FAMILIES = {
    "case": ["abc1", "ABC1", "Abc1", "aBC1", "abC1", "AbC1"],
    "blank": ["k1", " k1", "k1 ", " k1 ", "k 1", "k  1"],
    "numeric": ["1", "01", "1.0", "1e3", "1000", "001", "1.", "+1", "1E3", "0x1", "1000.0"],
    "like": ["a%c", "a_c", "abc", "a%", "a_", "%", "_", "a%%c", "a\\_c", "a%25c", "a%63"],
    # spellings that an encode / decode round trip through another encoding maps onto each other ('é'.encode('utf-8')
    # read as latin-1 is the two-letter text 'Ã©'), composed / decomposed / upper-case forms
    "encoding": ["\u00e9", "\u00c3\u00a9", "e\u0301", "\u00c9", "g\u00e9", "g\u00c3\u00a9", "\u00ff", "\u00c3\u00bf"],
}


def gen_confusable_case(rng):
    fam = rng.choice(sorted(FAMILIES))
    members = FAMILIES[fam]
    stored = rng.sample(members, rng.randrange(2, len(members)))
    fmt = rng.choice(["gff3", "gff3", "gtf"])
    recs = []
    if fmt == "gff3":
        spec = rng.choice([{"form": "none"}, {"form": "str", "v": "ID"}, {"form": "list", "v": ["nokey", "ID", "Name"]},
                           {"form": "dict", "v": {"gene": "ID", "mRNA": ["ID"]}}, {"form": "callable", "v": "name_attr"}])
    else:
        spec = rng.choice([{"form": "none"}, {"form": "dict", "v": {"gene": "gene_id"}}])
    idattr = "gene_id" if fmt == "gtf" else ("Name" if spec["form"] == "callable" else "ID")
    for i, k in enumerate(stored):
        rec = {"seqid": rng.choice(["chr1", "chr2"]), "source": "src", "featuretype": "gene" if fmt == "gtf" else rng.choice(["gene", "mRNA"]),
               "start": str(100 * (i + 1)), "end": str(100 * (i + 1) + 40 + i), "score": ".", "strand": rng.choice("+-"), "frame": ".",
               "extra": [], "attrs": [[idattr, [k]], ["Note", ["m%d" % i]]]}
        if rng.random() < 0.5 and fmt != "gtf":
            rec["attrs"].reverse()          # gtf: the id leads (format detection looks at the first attribute)
        recs.append(rec)
    others = records(rng, fmt, rng.randrange(0, 3), 0.0, offset=40)
    if spec["form"] == "callable":
        others = [r for r in others if "Name" in dict((k, 1) for k, _ in r["attrs"])]
    recs += others
    rng.shuffle(recs)
    return {
        "kind": "import", "fmt": fmt, "form": "confusable", "spec": spec, "batches": [recs], "infer": False,
        "family": fam, "probe": list(members),
        "db": "file" if rng.random() < 0.3 else "memory", "input": rng.choice(["string", "path"]), "reopen": rng.random() < 0.5,
    }


# ---------------------------------------------------------------------------------------------------------------
# stale and foreign Feature handles
SCRIPTS = [
    ["delete_top", "update"], ["delete_top", "delete_top", "update"], ["delete_top", "update", "delete_top", "update"],
    ["replace"], ["delete_mid", "update"], ["replace", "delete_top", "update"], ["delete_first", "update", "replace"],
    ["update"], ["delete_top", "update", "replace"], ["delete_mid", "delete_top", "update", "update"],
]


def gen_stale_case(rng):
    fmt = rng.choice(["gff3", "gff3", "gtf"])
    while True:
        n = rng.choice([2, 3, 4, 5, 6, 8])
        base = records(rng, fmt, n, 0.0)
        if fmt == "gtf" or rng.random() < 0.4:
            spec = {"form": "none"}
        else:
            spec = rng.choice([{"form": "str", "v": "ID"}, {"form": "list", "v": ["ID", "Name"]}, {"form": "callable", "v": "autoincrement_const"},
                               {"form": "dict", "v": {"gene": "ID", "exon": ["Name", "ID"]}}])
        r = MC.derive_all(spec, fmt, base)
        if r["outcome"] == "keys" and len(set(r["keys"])) == n:
            break
    ops = []
    offset = 100
    for name in rng.choice(SCRIPTS):
        if name == "update":
            ops.append({"op": "update", "recs": records(rng, fmt, rng.choice([1, 1, 2, 3]), 0.0, offset=offset)})
            offset += 10
        elif name == "replace":
            cands = [i for i, b in enumerate(r["branches"]) if b.startswith("attribute")]
            if not cands:
                continue
            j = rng.choice(cands)
            rec = copy.deepcopy(base[j])
            rec["start"] = str(int(rec["start"]) + 5000)
            rec["end"] = str(int(rec["end"]) + 5000 + rng.randrange(0, 9))
            rec["strand"] = {"+": "-", "-": ".", ".": "+"}[rec["strand"]]
            rec["attrs"].append(["replaced", ["yes"]])
            ops.append({"op": "replace", "key": r["keys"][j], "rec": rec})
        else:
            ops.append({"op": "delete", "which": name.split("_")[1], "as": rng.choice(["id", "feature", "list"])})
    via = rng.choice(["same", "other"])
    perm = list(range(n))
    how = rng.choice(["reverse", "rotate", "shuffle"])
    if how == "reverse":
        perm.reverse()
    elif how == "rotate":
        k = rng.randrange(1, n)
        perm = perm[k:] + perm[:k]
    else:
        rng.shuffle(perm)
    foreign = {"perm": perm, "extra": records(rng, fmt, rng.randrange(0, 3), 0.0, offset=500), "extra_first": rng.random() < 0.5}
    return {"kind": "stale", "fmt": fmt, "spec": spec, "base": base, "ops": ops, "via": via,
            "db": "file" if via == "other" or rng.random() < 0.3 else "memory", "foreign": foreign}


# ---------------------------------------------------------------------------------------------------------------
# dict id_spec objects that are dict SUBCLASSES: the per-featuretype entry is whatever the dict gives for that featuretype
DICT_CLASSES = ["defaultdict", "missing", "ordered", "subclass", "getitem"]


def any_entry(rng, n):
    r = rng.random()
    if r < 0.5:
        return attr_name(rng)
    if r < 0.6:
        return column_spec(rng, n)
    return attr_list(rng)


def subclass_spec(rng, recs, fmt, cls=None):
    """A dict id_spec description with "cls" (see gvmon/models/C04.py): some featuretypes of the file are explicit items,
    others get their entry from default_factory / __missing__ / an aliasing __getitem__ (or none at all)."""
    n = len(recs)
    cls = cls or rng.choice(DICT_CLASSES)
    spec = spec_of(rng, rng.choice(["dict-str", "dict-list"]), recs, fmt)
    v = spec["v"]
    types = sorted(set(r["featuretype"] for r in recs))
    if cls in ("defaultdict", "missing", "getitem") and all(t in v for t in types):
        del v[rng.choice(types)]            # at least one featuretype of the file is not an explicit item
    if not v:
        v["absent_type"] = any_entry(rng, n)
    spec["cls"] = cls
    if cls == "defaultdict":
        spec["default"] = any_entry(rng, n) if rng.random() < 0.5 else rng.choice(["ID", "ID", "Name"])
    elif cls == "missing":
        spec["missing"] = dict((t, any_entry(rng, n)) for t in types + ["other_type"] if t not in v and rng.random() < 0.65)
    elif cls == "getitem":
        alias = {}
        for t in types:
            if t not in v and rng.random() < 0.7:
                alias[t] = rng.choice(sorted(v))          # a featuretype without item is given another item's entry
            elif t in v and rng.random() < 0.2:
                alias[t] = "nothing_here"                 # an explicit item the dict does not give out
        spec["alias"] = alias
    return spec


def plain_of(spec):
    """The same items as a plain dict."""
    return {"form": "dict", "v": copy.deepcopy(spec["v"])}


def finish_import(rng, fmt, form, spec, recs, **more):
    cols = columns_keyed(spec)
    for s2 in (more.get("spec2"),):
        if s2:
            cols |= columns_keyed(s2)
    if "featuretype" in cols and spec["form"] == "dict":
        cols.discard("featuretype")
    make_unique(recs, cols)
    n = len(recs)
    path = "create+update" if (more.get("spec2") or (n >= 2 and rng.random() < 0.35)) and n >= 2 else "create"
    if path == "create":
        batches = [recs]
        more.pop("spec2", None)
    else:
        cut = rng.randrange(1, n)
        batches = [recs[:cut], recs[cut:]]
    case = {"kind": "import", "fmt": fmt, "form": form, "spec": spec, "batches": batches, "infer": False,
            "db": "file" if (path != "create" or rng.random() < 0.3) else "memory",
            "input": rng.choice(["string", "path"]), "reopen": rng.random() < 0.5}
    case.update((k, v) for k, v in more.items() if v is not None)
    return case


def gen_dictsub_case(rng, cls=None):
    fmt = rng.choice(["gff3", "gff3", "gtf"])
    n = rng.choice([2, 3, 4, 5, 6, 8, 12])
    recs = records(rng, fmt, n, rng.choice([0.0, 0.0, 0.05]))
    spec = subclass_spec(rng, recs, fmt, cls)
    spec2 = None
    r = rng.random()
    if r < 0.2:
        # create_db under a plain dict (or the default), the subclass only through FeatureDB.update(id_spec=...)
        spec, spec2 = (plain_of(spec) if rng.random() < 0.7 else {"form": "none"}), spec
    elif r < 0.3:
        spec2 = subclass_spec(rng, recs, fmt)
    return finish_import(rng, fmt, "dict-subclass:" + (spec2 or spec)["cls"], spec, recs, spec2=spec2)


# ---------------------------------------------------------------------------------------------------------------
# attribute VALUES that look like the special return values of a callable id_spec / like ':column:' entries: they are
# just text, and the key itself.
SPECIALS = ["autoincrement:tx", "autoincrement:", "autoincrement:exon", "autoincrement:gene", "autoincrement:chr1",
            "autoincrement:mRNA", ":seqid:", ":source:", ":featuretype:", ":start:", ":strand:", "autoincrement:autoincrement:x",
            "autoincrement:tx_1", "Autoincrement:tx", "autoincrement", ":id:", "autoincrement::seqid:", "autoincrement:é"]
SPECIAL_FORMS = ["none", "str", "list", "dict-str", "dict-list", "dict-subclass", "callable:name_attr", "callable:mixed"]


def set_attr(rec, key, vals):
    for a in rec["attrs"]:
        if a[0] == key:
            a[1] = list(vals)
            return
    rec["attrs"].append([key, list(vals)])


def special_spec(rng, form, recs, fmt):
    types = sorted(set(r["featuretype"] for r in recs))
    if form in ("none", "callable:name_attr", "callable:mixed"):
        return spec_of(rng, form, recs, fmt)
    if form == "str":
        return {"form": "str", "v": rng.choice(["ID", "ID", "Name"])}
    if form == "list":
        return {"form": "list", "v": rng.choice([["ID", "Name"], ["nokey", "ID"], ["Name", "ID"], ["Alias", "ID", "Name"], ["ID", ":seqid:"]])}
    ent = (lambda: rng.choice(["ID", "ID", "Name"])) if form == "dict-str" else (
        lambda: rng.choice([["ID"], ["nokey", "ID"], ["Name", "ID"], ["ID", "Name"]]))
    if form in ("dict-str", "dict-list"):
        d = dict((t, ent()) for t in types if rng.random() < 0.8)
        if not d:
            d[types[0]] = ent()
        if fmt == "gtf":
            for t, k in (("gene", "gene_id"), ("transcript", "transcript_id")):
                if t in d and rng.random() < 0.7:
                    d[t] = k if form == "dict-str" else [k]
        return {"form": "dict", "v": d}
    cls = rng.choice(["defaultdict", "defaultdict", "missing", "ordered", "getitem"])
    d = dict((t, rng.choice(["ID", "Name", ["Name", "ID"]])) for t in types if rng.random() < 0.4)
    d.setdefault("absent_type", "Name")
    spec = {"form": "dict", "v": d, "cls": cls}
    if cls == "defaultdict":
        spec["default"] = rng.choice(["ID", "ID", ["Alias", "ID"]])
    elif cls == "missing":
        spec["missing"] = dict((t, rng.choice(["ID", ["nokey", "ID"]])) for t in types if t not in d and rng.random() < 0.8)
    elif cls == "getitem":
        spec["alias"] = dict((t, "absent_type") for t in types if t not in d and rng.random() < 0.8)
    return spec


def special_records(rng, fmt, n):
    """-> (recs, placed specials): lines whose id-supplying attributes carry SPECIALS (each at most once), gff3: with
    children naming them as Parent."""
    recs = records(rng, fmt, n, 0.0)
    k = rng.randrange(1, min(n, 4) + 1)
    placed = []
    for rec, sp in zip(rng.sample(recs, k), rng.sample(SPECIALS, k)):
        ft = rec["featuretype"]
        if fmt == "gtf" and ft in ("gene", "transcript") and rng.random() < 0.7:
            key = "gene_id" if ft == "gene" else "transcript_id"
        else:
            key = rng.choice(["ID", "ID", "ID", "Name", "Alias"])
        set_attr(rec, key, [sp])
        placed.append((sp, key))
    if fmt == "gff3":
        off = 60
        for sp, key in list(placed):
            if key == "ID" and rng.random() < 0.7:
                for kid in records(rng, fmt, rng.choice([1, 1, 2]), 0.0, offset=off):
                    off += 2
                    kid["featuretype"] = rng.choice(["exon", "CDS"])
                    others = [p for p, kk in placed if kk == "ID" and p != sp]
                    set_attr(kid, "Parent", [sp] + ([rng.choice(others)] if others and rng.random() < 0.2 else []))
                    if rng.random() < 0.5:
                        kid["attrs"] = [a for a in kid["attrs"] if a[0] != "ID"] or [["Note", ["kid"]]]
                    while kid["attrs"][0][1] == []:
                        kid["attrs"].append(kid["attrs"].pop(0))      # a valueless flag never leads the column
                    recs.insert(rng.randrange(0, len(recs) + 1), kid)
    return recs, placed


def absent_for(placed, recs):
    out = []
    for sp, _ in placed:
        if sp.startswith(MC.AUTO):
            x = sp[len(MC.AUTO):]
            out += [x + "_1", x + "_2", x, "_1", sp + "_1", sp.split(":")[0]]
        else:
            out += [sp.strip(":"), sp[1:], sp[:-1]] + [r[sp.strip(":")] for r in recs[:3] if sp.strip(":") in r]
    return [k for k in dict.fromkeys(out) if k]


def gen_special_case(rng):
    fmt = rng.choice(["gff3", "gff3", "gff3", "gtf"])
    n = rng.choice([2, 3, 4, 5, 6, 8])
    recs, placed = special_records(rng, fmt, n)
    form = rng.choice(SPECIAL_FORMS)
    spec = special_spec(rng, form, recs, fmt)
    return finish_import(rng, fmt, "special:" + form, spec, recs, special=True, absent=absent_for(placed, recs))


def gen_collide_case(rng):
    """Two or three features carrying the same (special-looking, sometimes plain) id value, imported under 'error' /
    'create_unique': they collide like any duplicates."""
    fmt = rng.choice(["gff3", "gff3", "gtf"])
    n = rng.choice([2, 3, 4, 5, 6])
    recs, placed = special_records(rng, fmt, n)
    form = rng.choice(["none", "none", "str", "list", "dict-str", "dict-list", "dict-subclass", "callable:name_attr"])
    if fmt == "gtf":
        # the value sits where the default spec of the format looks
        form = rng.choice(["none", "dict-str"])
    dup = rng.choice(SPECIALS) if rng.random() < 0.8 else "plain.7"
    key = "ID"
    if form == "callable:name_attr":
        key = "Name"
    donors = [r for r in recs if not any(a[0] == "Parent" for a in r["attrs"])] or recs
    chosen = rng.sample(donors, min(len(donors), rng.choice([2, 2, 3])))
    if len(chosen) < 2:
        extra = records(rng, fmt, 1, 0.0, offset=80)[0]
        recs.append(extra)
        chosen.append(extra)
    for rec in chosen:
        if fmt == "gtf":
            rec["featuretype"] = "gene"
            rec["attrs"] = [["gene_id", [dup]]] + [a for a in rec["attrs"] if a[0] not in ("gene_id", "transcript_id")]
        else:
            set_attr(rec, key, [dup])
    if fmt == "gtf":
        spec = {"form": "none"} if form == "none" else {"form": "dict", "v": {"gene": "gene_id", "exon": "ID"}}
    elif form == "str":
        spec = {"form": "str", "v": "ID"}
    elif form == "list":
        spec = {"form": "list", "v": rng.choice([["ID", "Name"], ["nokey", "ID"]])}
    else:
        spec = special_spec(rng, form, recs, fmt)
    case = finish_import(rng, fmt, "collide:" + form, spec, recs, special=True, absent=absent_for(placed + [(dup, key)], recs))
    case.update(kind="collide", strategy=rng.choice(["error", "create_unique", "create_unique"]), dup=dup)
    return case


# ---------------------------------------------------------------------------------------------------------------
# SEVERAL successive update() calls through one FeatureDB object (optionally with a reopen in between), each adding
# features that lack the id attribute, on a database whose first import auto-numbered nothing (every feature had its id
# attribute) or that already has counters; under every merge strategy (the keys are all distinct: nothing collides).
STRATEGIES = ["error", "warning", "replace", "create_unique", "merge"]
SUCCESSIVE_FORMS = ["none", "none", "str", "list", "dict-str", "dict-list", "dict-subclass", "callable:name_attr", "callable:always_none",
                    "callable:autoincrement_const", "callable:mixed"]


def successive_spec(rng, form, fmt, types):
    if form == "none" or form.startswith("callable:"):
        return spec_of(rng, form, [], fmt)
    if form == "str":
        return {"form": "str", "v": "ID"}
    if form == "list":
        return {"form": "list", "v": rng.choice([["ID", "Name"], ["nokey", "ID"], ["ID"], ["ID", "Alias"]])}
    ent = (lambda: "ID") if form == "dict-str" else (lambda: rng.choice([["ID"], ["nokey", "ID"], ["ID", "Name"]]))
    if form in ("dict-str", "dict-list"):
        return {"form": "dict", "v": dict((t, ent()) for t in types)}
    cls = rng.choice(["defaultdict", "missing", "ordered", "subclass"])
    spec = {"form": "dict", "v": dict((t, "ID") for t in types), "cls": cls}
    if cls == "defaultdict":
        spec["default"] = "ID"
    elif cls == "missing":
        spec["missing"] = {}
    return spec


def strip_ids(rec, note):
    """Remove the id-supplying attributes; a line keeps at least one attribute with a value, and that one leads."""
    rec["attrs"] = [a for a in rec["attrs"] if a[0] not in ("ID", "Name", "Alias")]
    if not any(v for _, v in rec["attrs"]):
        rec["attrs"].insert(0, ["Note", [note]])
    while rec["attrs"][0][1] == []:
        rec["attrs"].append(rec["attrs"].pop(0))


def gen_successive_case(rng, strategy=None, start=None):
    """start: "keyed" (every feature of the first import has its id attribute: no key is auto-numbered, the
    autoincrements table starts empty) | "counters" (the first import already hands out '<featuretype>_<n>' keys)."""
    fmt = rng.choice(["gff3", "gff3", "gff3", "gtf"])
    start = start or rng.choice(["keyed", "keyed", "counters"])
    form = rng.choice(SUCCESSIVE_FORMS)
    if fmt == "gtf" and form == "none" and start == "keyed":
        form = "str"            # the default spec of the format auto-numbers every line that is not a gene / transcript
    pool = rng.sample(["exon", "CDS", "start_codon"] if fmt == "gtf" else ["exon", "CDS", "mRNA", "ncRNA", "region"], rng.choice([1, 1, 2]))
    n0 = rng.choice([1, 2, 3, 4, 6])
    base = records(rng, fmt, n0, 0.0)
    types = sorted(set(r["featuretype"] for r in base) | set(pool))
    spec = successive_spec(rng, form, fmt, types)
    idattr = "Name" if form == "callable:name_attr" else "ID"
    if start == "keyed":
        for i, rec in enumerate(base):
            if fmt == "gtf" and form == "none":
                continue
            set_attr(rec, idattr, ["b%d" % i])
            if form == "callable:mixed":
                rec["featuretype"] = rng.choice(["gene", "mRNA"] if fmt == "gff3" else ["gene", "transcript"])
    elif base:
        for rec in base[:rng.randrange(1, len(base) + 1)]:
            if rng.random() < 0.6:
                rec["featuretype"] = rng.choice(pool)
            strip_ids(rec, "first")
    batches = [base]
    k = rng.choice([2, 2, 3, 3, 4])
    off = 30
    for _ in range(k):
        m = rng.choice([1, 1, 2, 2, 3, 4])
        recs = records(rng, fmt, m, 0.0, offset=off)
        off += m + 2
        for rec in recs:
            if rng.random() < 0.85:
                rec["featuretype"] = rng.choice(pool)
            if rng.random() < 0.85:
                # lacks the id attribute(s): the key is '<featuretype>_<n>'
                strip_ids(rec, "later" + rec["start"])
        batches.append(recs)
    db = rng.choice(["file", "file", "memory"])
    reopen_before = [False] * k
    if db == "file" and rng.random() < 0.35:
        reopen_before[rng.randrange(0, k)] = True       # for contrast: a fresh handle reads the stored counters
    return {"kind": "import", "fmt": fmt, "form": "successive:" + form.split(":")[0], "spec": spec, "batches": batches, "infer": False,
            "db": db, "input": rng.choice(["string", "string", "path"]), "reopen": rng.random() < 0.5,
            "ustrategy": strategy or rng.choice(STRATEGIES), "reopen_before": reopen_before,
            "handle": rng.choice(["create_db", "FeatureDB"]) if db == "file" else "create_db", "start": start}


# ---------------------------------------------------------------------------------------------------------------
# force_gff=True: the import runs through the GFF importer whatever the file looks like; with id_spec None the default of
# THAT format applies ('ID', else '<featuretype>_<n>').  (This tree has no force_gtf option: create_db(force_gtf=True) is a
# TypeError 'unhandled kwarg', so the converse is not generated.)
FORCE_FORMS = ["none", "none", "none", "str", "list", "dict-str", "dict-list", "callable:name_attr"]


def gen_force_case(rng):
    fmt = "gtf" if rng.random() < 0.85 else "gff3"
    n = rng.choice(NS)
    multi_p = rng.choice([0.0, 0.0, 0.05])
    recs = records(rng, fmt, n, multi_p)
    if fmt == "gtf" and rng.random() < 0.8:
        # gene / transcript lines carrying gene_id / transcript_id (some ids repeated): what the GTF default would key on
        for rec in rng.sample(recs, rng.randrange(1, min(n, 4) + 1)):
            ft = rng.choice(["gene", "transcript"])
            i = recs.index(rec)
            rec["featuretype"] = ft
            keep = [a for a in rec["attrs"] if a[0] not in ("gene_id", "transcript_id")]
            g = "G%d" % (rng.randrange(1, 3) if rng.random() < 0.5 else 10 + i)
            lead = [["gene_id", [g]]]
            if ft == "transcript":
                lead.append(["transcript_id", ["Tx%d" % (rng.randrange(1, 3) if rng.random() < 0.4 else 10 + i)]])
            if rng.random() < 0.5:
                keep = [a for a in keep if a[0] != "ID"]
            rec["attrs"] = lead + keep
    form = rng.choice(FORCE_FORMS)
    spec = spec_of(rng, form, recs, fmt)
    path = "create+update" if (fmt == "gff3" and n >= 2 and rng.random() < 0.3) else "create"
    if path == "create":
        batches = [recs]
    else:
        cut = rng.randrange(1, n)
        batches = [recs[:cut], recs[cut:]]
    return {"kind": "import", "fmt": fmt, "form": form, "spec": spec, "batches": batches, "infer": rng.random() < 0.5,
            "force": "gff", "db": "file" if (path != "create" or rng.random() < 0.3) else "memory",
            "input": rng.choice(["string", "path"]), "reopen": rng.random() < 0.5}


# ---------------------------------------------------------------------------------------------------------------
# 'list or tuple': per-featuretype entries of a dict id_spec (and the whole id_spec) given as TUPLES of names
def gen_tuple_case(rng):
    fmt = rng.choice(["gff3", "gff3", "gtf"])
    n = rng.choice([1, 2, 3, 4, 5, 6, 8, 12])
    recs = records(rng, fmt, n, rng.choice([0.0, 0.0, 0.05, 0.15]))
    r = rng.random()
    if r < 0.15:
        spec = dict(spec_of(rng, rng.choice(["list", "list+column"]), recs, fmt), seq="tuple")
        form = "tuple"
    else:
        spec = spec_of(rng, "dict-list", recs, fmt)
        types = sorted(spec["v"])
        # mostly every entry a tuple; otherwise tuples, lists and strings side by side
        tuples = list(types) if rng.random() < 0.5 else [t for t in types if rng.random() < 0.6] or types[:1]
        for t in types:
            if t not in tuples and rng.random() < 0.4:
                spec["v"][t] = attr_name(rng)
            elif rng.random() < 0.2:
                spec["v"][t] = spec["v"][t][:1]          # a one-element tuple / list
        spec["tuples"] = tuples
        if rng.random() < 0.25:
            spec["cls"] = rng.choice(["ordered", "subclass"])
        form = "dict-tuple"
    return finish_import(rng, fmt, form, spec, recs)


# ---------------------------------------------------------------------------------------------------------------
# (autoclash) an EXPLICIT id that spells a counter-made key: a feature whose id attribute (or callable return value) reads
# '<base>_<k>' while the k-th feature of that base that has to be auto-numbered gets exactly that key by the rule (the
# counters never skip).  The two collide; the merge strategy decides.  Mostly the explicit one comes first (also: already
# in the database, the anonymous ones arriving through update()), sometimes after.
AUTOCLASH_STRATEGIES = ["error", "create_unique", "warning", "replace", "merge"]
AUTOCLASH_FORMS = ["none", "str", "list", "dict", "dict-partial", "callable:name_attr", "callable:id_else_auto_type",
                   "callable:id_else_auto_x", "callable:mixed"]


def autoclash_spec(rng, form, fmt, types):
    if form == "none" or form.startswith("callable:"):
        return spec_of(rng, form, [], fmt)
    if form == "str":
        return {"form": "str", "v": "ID"}
    if form == "list":
        return {"form": "list", "v": rng.choice([["ID", "Name"], ["nokey", "ID"], ["ID"], ["ID", "Alias"]])}
    ent = lambda: rng.choice(["ID", "ID", ["ID"], ["nokey", "ID"]])
    if form == "dict":
        return {"form": "dict", "v": dict((t, ent()) for t in types)}
    # dict-partial: only some featuretypes have an entry; the others are '<featuretype>_<n>' whatever they carry
    some = [t for t in types if rng.random() < 0.4]
    return {"form": "dict", "v": dict((t, ent()) for t in some)}


def gen_autoclash_case(rng, strategy=None, path=None):
    for _ in range(200):
        fmt = rng.choice(["gff3", "gff3", "gff3", "gtf"])
        form = rng.choice(AUTOCLASH_FORMS)
        n = rng.choice([2, 3, 4, 5, 6, 8])
        recs = records(rng, fmt, n, 0.0)
        for rec in recs:
            if rng.random() < 0.7:
                strip_ids(rec, "anon" + rec["start"])
        gtf_default = fmt == "gtf" and form == "none"
        if gtf_default:
            ctypes = ["gene", "transcript"]
        elif form == "callable:mixed":
            ctypes = ["gene", "mRNA"] if fmt == "gff3" else ["gene", "transcript"]
        else:
            ctypes = GFF_TYPES if fmt == "gff3" else ["exon", "CDS", "start_codon", "gene", "transcript"]
        m = rng.choice([1, 1, 1, 2])
        carrier_types = [rng.choice(ctypes) for _ in range(m)]
        types = sorted(set(r["featuretype"] for r in recs))
        spec = autoclash_spec(rng, form, fmt, types + carrier_types)
        if form == "dict-partial":
            for t in carrier_types:
                spec["v"].setdefault(t, "ID")
        r = MC.derive_all(spec, fmt, recs)
        if r["outcome"] != "keys" or len(set(r["keys"])) != n:
            continue
        auto = [j for j, b in enumerate(r["branches"]) if MC.is_auto(b)]
        if not auto:
            continue
        targets = rng.sample(auto, min(m, len(auto)))
        idattr = "Name" if form == "callable:name_attr" else "ID"
        placed = [(float(i), rec) for i, rec in enumerate(recs)]
        for t, (j, ctype) in enumerate(zip(targets, carrier_types)):
            key = r["keys"][j]
            car = records(rng, fmt, 1, 0.0, offset=200 + 3 * t)[0]
            strip_ids(car, "named")
            car["featuretype"] = ctype
            if gtf_default:
                car["attrs"] = [a for a in car["attrs"] if a[0] not in ("gene_id", "transcript_id")]
                lead = [["gene_id", [key]]] if ctype == "gene" else [["gene_id", ["G1"]], ["transcript_id", [key]]]
                car["attrs"] = lead + car["attrs"]
            else:
                set_attr(car, idattr, [key])
                if fmt == "gff3" and rng.random() < 0.5:
                    car["attrs"].insert(0, car["attrs"].pop())      # the id attribute leads
            before = rng.random() < 0.8
            pos = rng.uniform(-0.5, j - 0.01) if before else rng.uniform(j + 0.01, n)
            placed.append((pos, car))
        placed.sort(key=lambda x: x[0])
        recs = [rec for _, rec in placed]
        r = MC.derive_all(spec, fmt, recs)
        if r["outcome"] != "keys":
            continue
        try:
            res = MC.resolve(r["keys"], "create_unique")
        except MC.Silent:
            continue
        col = res["collisions"]
        if not col or len(set(k for k, _, _ in col)) != len(col):
            continue
        path = path or rng.choice(["create", "create", "update"])
        if path == "update":
            k, first, later = rng.choice(col)
            cut = rng.randrange(first + 1, later + 1)
            batches = [recs[:cut], recs[cut:]]
        else:
            batches = [recs]
        return {"kind": "autoclash", "fmt": fmt, "form": form, "spec": spec, "batches": batches, "infer": False,
                "strategy": strategy or rng.choice(AUTOCLASH_STRATEGIES),
                "db": "file" if (path == "update" and rng.random() < 0.6) or rng.random() < 0.3 else "memory",
                "input": rng.choice(["string", "string", "path"]), "reopen_before_update": rng.random() < 0.4}
    raise RuntimeError("gen_autoclash_case: no case in 200 tries")


# ---------------------------------------------------------------------------------------------------------------
# (dbcopy) create_db(data=<FeatureDB>, id_spec=S): the keys of the new database are fixed by S applied to each feature (and
# '<featuretype>_<n>' counted 1,2,... in the order the features arrive), never by the keys the features have in the database
# they come from.  The source is built under ANOTHER id_spec (attribute / column / callable / list / default) and / or gets
# holes in its numbering (delete) and later additions (update) before it is copied.
DBCOPY_SRC_FORMS = ["none", "none", "str:Name", "str:nokey", "column", "list", "callable:composite", "callable:autoincrement_const",
                    "callable:name_attr", "callable:always_none", "callable:autoincrement_seqid", "dict"]
DBCOPY_FORMS = ["none", "none", "str", "str", "list", "dict-str", "dict-list", "callable:always_none", "callable:id_else_auto_type",
                "callable:name_attr", "callable:mixed"]
DBCOPY_HISTORIES = ["plain", "delete", "delete", "delete+update", "update"]


def dbcopy_src_spec(rng, form, types):
    if form == "none" or form.startswith("callable:"):
        return spec_of(rng, form, [], "gff3")
    if form.startswith("str:"):
        return {"form": "str", "v": form.split(":")[1]}
    if form == "column":
        return rng.choice([{"form": "str", "v": ":start:"}, {"form": "list", "v": ["nokey", ":end:"]}, {"form": "list", "v": ["Name", ":start:"]}])
    if form == "list":
        return {"form": "list", "v": rng.choice([["Name", "ID"], ["nokey", "Name"], ["Name"]])}
    return {"form": "dict", "v": dict((t, rng.choice(["Name", "Name", ["Name", "ID"], ":start:"])) for t in types if rng.random() < 0.7) or {"absent_type": "Name"}}


def dbcopy_spec(rng, form, types):
    if form == "none" or form.startswith("callable:"):
        return spec_of(rng, form, [], "gff3")
    if form == "str":
        return {"form": "str", "v": rng.choice(["ID", "ID", "ID", "Name", "Alias", "nokey", ":start:"])}
    if form == "list":
        return {"form": "list", "v": rng.choice([attr_list(rng), ["ID", "Name"], ["nokey", "ID"], ["ID", ":end:"]])}
    ent = (lambda: attr_name(rng)) if form == "dict-str" else (lambda: rng.choice([attr_list(rng), ["ID"], ["nokey", "ID"]]))
    d = dict((t, ent()) for t in types + ["absent_type"] if rng.random() < 0.55)
    if not d:
        d["absent_type"] = ent()
    spec = {"form": "dict", "v": d}
    if rng.random() < 0.2:
        spec["cls"] = rng.choice(["ordered", "subclass"])
    return spec


def gen_dbcopy_case(rng, history=None):
    for _ in range(300):
        fmt = rng.choice(["gff3", "gff3", "gff3", "gtf"])
        n = rng.choice([2, 3, 4, 5, 6, 8, 12])
        base = records(rng, fmt, n, 0.0)
        for rec in base:
            if rng.random() < 0.35:
                strip_ids(rec, "anon" + rec["start"])
        hist = history or rng.choice(DBCOPY_HISTORIES)
        added = []
        if "update" in hist:
            added = records(rng, fmt, rng.choice([1, 2, 3]), 0.0, offset=40)
            for rec in added:
                if rng.random() < 0.5:
                    strip_ids(rec, "added" + rec["start"])
        types = sorted(set(r["featuretype"] for r in base + added))
        sform = rng.choice(DBCOPY_SRC_FORMS)
        if hist == "plain" and sform == "none":
            sform = rng.choice(["str:Name", "callable:composite", "column", "callable:always_none"])
        spec1 = dbcopy_src_spec(rng, sform, types)
        r1 = MC.derive_all(spec1, fmt, base)
        if r1["outcome"] != "keys":
            continue
        r1b = MC.derive_all(spec1, fmt, added, r1["deriver"])
        if r1b["outcome"] != "keys" or len(set(r1["keys"] + r1b["keys"])) != len(base) + len(added):
            continue
        ops = []
        gone = []
        if "delete" in hist:
            # prefer the lines the source auto-numbered (holes in ITS numbering), not only the last ones
            auto = [i for i, b in enumerate(r1["branches"]) if MC.is_auto(b)]
            cand = auto if auto and rng.random() < 0.8 else list(range(n))
            gone = sorted(rng.sample(cand, rng.randrange(1, min(len(cand), 3) + 1)))
            if len(gone) == n:
                gone = gone[:-1]
            if not gone:
                continue
            ops.append({"op": "delete", "lines": [[base[i]["start"], base[i]["end"]] for i in gone], "as": rng.choice(["id", "feature"])})
        if added:
            ops.append({"op": "update", "recs": added})
        form = rng.choice(DBCOPY_FORMS)
        spec = dbcopy_spec(rng, form, types)
        if spec == spec1 and not gone:
            continue
        # predicted arrival order (chronological); the check judges by the order the source actually iterates
        order = [rec for i, rec in enumerate(base) if i not in gone] + added
        r = MC.derive_all(spec, fmt, order)
        if r["outcome"] == "silent" or (r["outcome"] == "keys" and len(set(r["keys"])) != len(order)):
            continue
        later = []
        if r["outcome"] == "keys" and rng.random() < 0.4:
            later = records(rng, fmt, rng.choice([1, 2, 3]), 0.0, offset=80)
            pool = sorted(set(x["featuretype"] for x in order))
            for rec in later:
                if rng.random() < 0.8:
                    rec["featuretype"] = rng.choice(pool)
                if rng.random() < 0.8:
                    strip_ids(rec, "later" + rec["start"])
            r2 = MC.derive_all(spec, fmt, later, r["deriver"])
            if r2["outcome"] != "keys" or len(set(r["keys"] + r2["keys"])) != len(order) + len(later):
                continue
        srcdb = rng.choice(["memory", "file", "file"])
        return {"kind": "dbcopy", "fmt": fmt, "form": form, "sform": sform, "history": hist, "spec1": spec1, "spec": spec,
                "base": base, "ops": ops, "later": later, "infer": False, "srcdb": srcdb,
                "src_handle": "FeatureDB" if srcdb == "file" and rng.random() < 0.5 else "create_db",
                "db": rng.choice(["memory", "memory", "file"]), "reopen": rng.random() < 0.5}
    raise RuntimeError("gen_dbcopy_case: no case in 300 tries")
