"""
GTF gene models for C03 (generator (b) of DESIGN section 3).

model(rng) -> {"D": gtf dialect point, "tkey", "gkey", "subfeature", "lines": [record...] in file order}
records are in gvmon/gen/records.py format; every line carries a unique marker attribute `tag "L<n>"`.

genes x transcripts x subfeature ("exon") lines / other lines (CDS, codons, UTR), lines shuffled across genes,
transcripts without exons, optional `gene`/`transcript` lines present in the file.  Exons of one gene share seqid
and strand (the statement's premise); other lines may lie outside the exons and (rarely) on another strand.
Every exon / other line carries both ids; a transcript line carries both; a gene line carries its gene id only
(optionally with an empty transcript id, as in RefSeq GTF files).
"""
from gvmon.models import dialect as M

SEQIDS = ["chr1", "chr2L", "Chr1", "scaffold_12", "MT"]
SOURCES = ["src", "HAVANA", "ensembl", "a.b"]
OTHER_TYPES = ["CDS", "CDS", "start_codon", "stop_codon", "UTR", "five_prime_utr", "Selenocysteine", "exon"]
KEYSETS = [("transcript_id", "gene_id", "exon")] * 6 + [
    ("tx", "gn", "exon"), ("transcript_id", "gene_id", "CDS"), ("Parent_tx", "locus", "block"),
    ("transcript_id", "geneID", "exon"), ("tx_id", "gene_id", "exon"),
]
GENE_IDS = ["G%d", "ENSG%05d.2", "gene:%d", "FBgn%07d", "g-%d", "gène%d", "locus %d"]
TX_IDS = ["T%d", "ENST%05d.1", "tx:%d", "FBtr%07d", "t-%d.a", "trañscript%d", "tx %d"]
# ids that would mean something else in another grammar (GTF has neither key=value pairs nor percent escapes):
# 'word=' inside the quoted value, '%41'-like sequences, single/double/trailing blanks, non-ASCII letters.
# "eq" pairs put a 'word=' into the value of the first attribute of every line.
ODD_IDS = {
    "eq": (["locus=AT1G%05d", "ID=gene%d", "gene=%d=x", "Name=g%d"], ["locus=AT1G%05d.1", "ID=tx%d", "Parent=g%d", "tr=%d"]),
    "percent": (["g%%41%d", "%%3Bg%d", "g%d%%", "%%20g%%3D%d"], ["t%%41%d", "%%3Bt%d", "t%d%%25", "%%09t%d"]),
    "blank": (["locus %d b", "g  %d", "g%d ", "a = %d"], ["tx %d b", "t  %d", "t%d ", "t = %d"]),
    "unicode": (["gén%dё", "遺伝子%d", "Ünï%d=ß", "γ %d"], ["trä%dж", "転写%d", "Tñ%d=ø", "τ %d"]),
}
ODD_VALUES = ["a=b", "key=value pair", "x%41y", "100%", "%3B%3D", "two  blanks", "naïve café", "ID=1", "Ωmega 3=β", "a = b "]
WHERE = ["late", "early", "both", "late", "none"]


def gtf_points():
    return [D for D in M.points() if D["fmt"] == "gtf"]


def model(rng, ngenes=None, odd=None, explicit=None):
    """odd: None or a key of ODD_IDS (ids and some attribute values of that family); ngenes: None = 1-3;
    explicit: None (drawn: none / some / all gene and transcript lines, ordinary or derived-like), "differing" (all or
    some such lines, rewritten by make_differing) or "derived-like" (all or some, looking exactly like derived features)."""
    D = rng.choice(gtf_points())
    tkey, gkey, subfeature = rng.choice(KEYSETS)
    explicit_mode = rng.choice(["none", "none", "none", "all", "some", "some"])
    # derived-like: the explicit lines look exactly like what inference would produce (source gffutils_derived,
    # '.' score and frame, exact extents), as in a re-import of an exported database: exercises the merge path
    derived_like = explicit_mode != "none" and rng.random() < 0.35
    if explicit is not None:
        explicit_mode = rng.choice(["all", "all", "some"])
        derived_like = explicit == "derived-like"
    id_first = rng.choice(["g", "g", "t"])
    exotic = rng.random() < 0.2
    gfmt = rng.choice(GENE_IDS if exotic else GENE_IDS[:5])
    tfmt = rng.choice(TX_IDS if exotic else TX_IDS[:5])
    if odd is not None:
        gfmt, tfmt = rng.choice(ODD_IDS[odd][0]), rng.choice(ODD_IDS[odd][1])
        if odd != "eq" and rng.random() < 0.5:
            # one of the two ids stays ordinary
            if rng.random() < 0.5:
                gfmt = rng.choice(GENE_IDS[:5])
            else:
                tfmt = rng.choice(TX_IDS[:5])
    lines = []
    if ngenes is None:
        ngenes = rng.choice([1, 1, 2, 2, 3])
    tcount = 0
    base = rng.randrange(1, 50)
    for gi in range(ngenes):
        gid = gfmt % (base + gi)
        seqid = rng.choice(SEQIDS)
        strand = rng.choice("+-")
        source = rng.choice(SOURCES)
        origin = rng.randrange(1, 100000)
        span = rng.choice([200, 2000, 50000, 300000])
        ntx = rng.choice([1, 1, 2, 2, 3])
        gene_sub = []
        gene_lines = []
        for _ in range(ntx):
            tcount += 1
            tid = tfmt % (base * 10 + tcount)
            nsub = rng.choice([0, 1, 1, 2, 2, 3, 4])
            subs = []
            for k in range(nsub):
                s = origin + rng.randrange(0, span)
                e = s + rng.choice([0, 5, 120, rng.randrange(0, max(1, span // 4))])
                subs.append((s, e))
            tx_lines = []
            for k, (s, e) in enumerate(subs):
                tx_lines.append(line(rng, seqid, source, subfeature, s, e, strand, gkey, gid, tkey, tid, id_first,
                                     extra=[["exon_number", [str(k + 1)]]] if rng.random() < 0.6 else []))
            others = [t for t in OTHER_TYPES if t != subfeature]
            for _ in range(rng.choice([0, 0, 1, 1, 2, 3])):
                # other lines may reach beyond the exons on both sides
                s = max(1, origin + rng.randrange(-span // 2 - 1, span))
                e = s + rng.choice([0, 2, 2, rng.randrange(0, span * 2)])
                tx_lines.append(line(rng, seqid if rng.random() < 0.9 else rng.choice(SEQIDS), source, rng.choice(others), s, e,
                                     strand if rng.random() < 0.85 else rng.choice("+-."), gkey, gid, tkey, tid, id_first))
            want_t = explicit_mode == "all" or (explicit_mode == "some" and rng.random() < 0.5)
            if not tx_lines and not want_t:
                want_t = True     # a transcript must occur somewhere in the file
            if want_t:
                if subs:
                    s, e = min(s for s, _ in subs), max(e for _, e in subs)
                    if not derived_like and rng.random() < 0.2:
                        s, e = max(1, s - rng.randrange(0, 50)), e + rng.randrange(1, 50)
                else:
                    s = origin
                    e = origin + span
                tx_lines.append(line(rng, seqid, "gffutils_derived" if derived_like else source, "transcript", s, e, strand,
                                     gkey, gid, tkey, tid, id_first, plain=derived_like,
                                     extra=[["transcript_name", ["n" + tid.replace(" ", "_")]]] if rng.random() < 0.5 else []))
            gene_sub += subs
            gene_lines += tx_lines
        want_g = explicit_mode == "all" or (explicit_mode == "some" and rng.random() < 0.5)
        if want_g:
            if gene_sub:
                s, e = min(s for s, _ in gene_sub), max(e for _, e in gene_sub)
                if not derived_like and rng.random() < 0.2:
                    s, e = max(1, s - rng.randrange(0, 50)), e + rng.randrange(1, 50)
            else:
                s, e = origin, origin + span
            rec = line(rng, seqid, "gffutils_derived" if derived_like else source, "gene", s, e, strand, gkey, gid, None, None,
                       "g", plain=derived_like, extra=[["gene_name", ["GN%d" % gi]]] if rng.random() < 0.5 else [])
            if rng.random() < 0.3:
                rec["attrs"].insert(1, [tkey, []])    # gene_id "G"; transcript_id "";
            gene_lines.append(rec)
        lines += gene_lines
    shuffle = rng.choice(["full", "full", "within", "none", "reverse"])
    if shuffle == "full":
        rng.shuffle(lines)
    elif shuffle == "reverse":
        lines.reverse()
    elif shuffle == "within":
        # genes stay together, lines inside a gene shuffled: approximated by a local shuffle
        for i in range(0, len(lines), 5):
            chunk = lines[i:i + 5]
            rng.shuffle(chunk)
            lines[i:i + 5] = chunk
    if odd is not None:
        names = ["note", "gene_name", "description", "product"]
        for rec in lines:
            if rng.random() < 0.6:
                have = {k for k, _ in rec["attrs"]}
                k = rng.choice([x for x in names if x not in have])
                rec["attrs"].append([k, [rng.choice(ODD_VALUES)]])
    differing = make_differing(rng, lines, tkey, gkey, subfeature) if explicit == "differing" else None
    for n, rec in enumerate(lines):
        rec["attrs"].append(["tag", ["L%d" % n]])
    out = {"D": D, "tkey": tkey, "gkey": gkey, "subfeature": subfeature, "lines": lines, "shuffle": shuffle,
           "explicit_mode": explicit_mode, "derived_like": derived_like}
    if odd is not None:
        out["odd"] = odd
    if differing is not None:
        out["differing"] = differing
    return out


MERGE_STRATEGIES = ["error", "merge", "replace", "create_unique", "warning"]
OTHER_SOURCES = ["HAVANA", "ensembl", "RefSeq", "manual", "BestRefSeq", "src2"]
EXTRA_ATTRS = {"gene": [("gene_name", ["alpha", "BRCA2", "CG1234"]), ("gene_biotype", ["protein_coding", "lncRNA"]),
                        ("level", ["1", "2"]), ("description", ["a gene of the file", "kinase"])],
               "transcript": [("transcript_name", ["alpha-201", "T-RA"]), ("transcript_biotype", ["protein_coding", "retained_intron"]),
                              ("transcript_support_level", ["1", "NA"]), ("ccdsid", ["CCDS1.1"])]}


def make_differing(rng, lines, tkey, gkey, subfeature):
    """Rewrite the gene / transcript lines of the file so that their columns differ from what inference would derive from
    the subfeature lines: another source than the exons' (never 'gffutils_derived'), coordinates reaching beyond the exons on
    one or both sides (6 of 10; 1 of 10 narrower than the exons), 1-2 attributes that no derived feature has (8 of 10).
    seqid, strand and ids stay.  Returns the list of the kinds of difference made (file-wide)."""
    made = set()
    ext_t, ext_g = {}, {}
    for rec in lines:
        if rec["featuretype"] == subfeature:
            for key, ext in ((tkey, ext_t), (gkey, ext_g)):
                v = [x for k, x in rec["attrs"] if k == key]
                if v and v[0]:
                    s, e = ext.get(v[0][0], (int(rec["start"]), int(rec["end"])))
                    ext[v[0][0]] = (min(s, int(rec["start"])), max(e, int(rec["end"])))
    for rec in lines:
        ft = rec["featuretype"]
        if ft not in ("gene", "transcript"):
            continue
        key, ext = (gkey, ext_g) if ft == "gene" else (tkey, ext_t)
        ident = [x for k, x in rec["attrs"] if k == key][0][0]
        if rng.random() < 0.85:
            rec["source"] = rng.choice([x for x in OTHER_SOURCES if x != rec["source"]])
            made.add("source")
        if ident in ext:
            s, e = ext[ident]
            r = rng.random()
            if r < 0.6:
                side = rng.choice(["left", "right", "both", "both"])
                if side != "right":
                    s = max(1, s - rng.randrange(1, 500))
                if side != "left":
                    e = e + rng.randrange(1, 500)
                made.add("wider coordinates")
            elif r < 0.7 and e - s >= 2:
                s, e = s + 1, e - 1
                made.add("narrower coordinates")
            rec["start"], rec["end"] = str(s), str(e)
        if rng.random() < 0.8:
            have = {k for k, _ in rec["attrs"]}
            for k, values in rng.sample(EXTRA_ATTRS[ft], rng.choice([1, 2])):
                if k not in have:
                    rec["attrs"].append([k, [rng.choice(values)]])
                    made.add("extra attributes")
    return sorted(made)


def large_model(rng, where, nlines=None):
    """
    A GTF file of 1100-2500 lines (many genes, in gene order or shuffled) in which the `gene`/`transcript` lines of
    the file itself (for 4-30 of the ids; the other ids have none) are placed
        where = "late":  all after line 1000      "early": all among the first 900 lines
                "both":  some early, some late    "none":  no such lines at all
    Deterministic in (rng state, where, nlines): the check stores only the seed.
    """
    D = rng.choice(gtf_points())
    tkey, gkey, subfeature = rng.choice(KEYSETS[:7])
    if nlines is None:
        nlines = rng.choice([1100, 1300, 1700, 2100, 2500])
    id_first = rng.choice(["g", "t"])
    gfmt, tfmt = rng.choice(GENE_IDS[:5]), rng.choice(TX_IDS[:5])
    derived_like = rng.random() < 0.3
    body, explicit = [], []
    gi = tcount = 0
    while len(body) < nlines:
        gi += 1
        gid = gfmt % gi
        seqid, strand, source = rng.choice(SEQIDS), rng.choice("+-"), rng.choice(SOURCES)
        origin = gi * 1000 + rng.randrange(0, 500)
        want_expl = where != "none" and rng.random() < 0.06
        gene_sub = []
        for _ in range(rng.choice([1, 2, 2, 3])):
            tcount += 1
            tid = tfmt % tcount
            subs = []
            for k in range(rng.choice([1, 2, 3, 4])):
                s = origin + rng.randrange(0, 5000)
                subs.append((s, s + rng.randrange(0, 400)))
                body.append(line(rng, seqid, source, subfeature, subs[-1][0], subs[-1][1], strand, gkey, gid, tkey, tid, id_first))
            for _ in range(rng.choice([0, 0, 1, 2])):
                s = max(1, origin + rng.randrange(-300, 6000))
                body.append(line(rng, seqid, source, rng.choice([t for t in OTHER_TYPES if t != subfeature]), s,
                                 s + rng.randrange(0, 900), strand, gkey, gid, tkey, tid, id_first))
            gene_sub += subs
            if want_expl and rng.random() < 0.6:
                s, e = min(s for s, _ in subs), max(e for _, e in subs)
                if not derived_like and rng.random() < 0.5:
                    s, e = max(1, s - rng.randrange(1, 50)), e + rng.randrange(1, 50)
                explicit.append(line(rng, seqid, "gffutils_derived" if derived_like else source, "transcript", s, e, strand,
                                     gkey, gid, tkey, tid, id_first, plain=derived_like,
                                     extra=[["transcript_name", ["n%d" % tcount]]] if rng.random() < 0.5 else []))
        if want_expl and rng.random() < 0.7:
            s, e = min(s for s, _ in gene_sub), max(e for _, e in gene_sub)
            if not derived_like and rng.random() < 0.5:
                s, e = max(1, s - rng.randrange(1, 50)), e + rng.randrange(1, 50)
            explicit.append(line(rng, seqid, "gffutils_derived" if derived_like else source, "gene", s, e, strand, gkey, gid,
                                 None, None, "g", plain=derived_like, extra=[["gene_name", ["GN%d" % gi]]] if rng.random() < 0.5 else []))
    shuffle = rng.choice(["none", "none", "full", "within"])
    if shuffle == "full":
        rng.shuffle(body)
    elif shuffle == "within":
        for i in range(0, len(body), 8):
            chunk = body[i:i + 8]
            rng.shuffle(chunk)
            body[i:i + 8] = chunk
    if where != "none" and not explicit:
        raise ValueError("generator: no gene/transcript line drawn")
    rng.shuffle(explicit)
    # distinct positions in the final file (0-based index i is line i+1)
    total = len(body) + len(explicit)
    k = len(explicit)
    if where == "late":
        pos = rng.sample(range(1001, total), k)
    elif where == "early":
        pos = rng.sample(range(0, 900), k)
    else:
        pos = rng.sample(range(0, 900), k // 2) + rng.sample(range(1001, total), k - k // 2)
    lines = [None] * total
    for p, rec in zip(pos, explicit):
        lines[p] = rec
    it = iter(body)
    for i in range(total):
        if lines[i] is None:
            lines[i] = next(it)
    for n, rec in enumerate(lines):
        rec["attrs"].append(["tag", ["L%d" % n]])
    first = [i for i, r in enumerate(lines) if r["featuretype"] in ("gene", "transcript")]
    return {"D": D, "tkey": tkey, "gkey": gkey, "subfeature": subfeature, "lines": lines, "shuffle": shuffle,
            "explicit_mode": "some" if explicit else "none", "derived_like": derived_like and bool(explicit), "where": where,
            "explicit_at": [min(first), max(first)] if first else []}


def line(rng, seqid, source, ft, s, e, strand, gkey, gid, tkey, tid, id_first, extra=(), plain=False):
    attrs = [[gkey, [gid]]]
    if tkey is not None:
        attrs.append([tkey, [tid]])
        if id_first == "t":
            attrs.reverse()
    attrs += [list(x) for x in extra]
    return {
        "seqid": seqid, "source": source, "featuretype": ft, "start": str(s), "end": str(e),
        "score": "." if plain else rng.choice([".", ".", "0", "12.5"]), "strand": strand,
        "frame": "." if plain else rng.choice([".", ".", "0", "1", "2"]), "attrs": attrs, "extra": [],
    }


def text_of(m):
    return "\n".join(M.render_line(rec, m["D"]) for rec in m["lines"]) + "\n"


# -- seqids with blank-like characters at their edges ---------------------------------------------------------------
# (name, text): characters that str.strip() removes but that are ordinary content of a tab-separated column.
# Line terminators (LF, CR) are not among them: they end the line.
EDGE_BLANKS = [("space", " "), ("two spaces", "  "), ("NBSP U+00A0", "\u00a0"), ("U+3000", "\u3000"), ("form feed", "\f"),
               ("vertical tab", "\x0b"), ("U+2009", "\u2009"), ("U+0085", "\x85"), ("U+001F", "\x1f")]
EDGE_WHERE = ["leading", "leading", "trailing", "both ends", "blank only"]


def make_edge_seqids(rng, m):
    """Rewrite the seqid of every line of 1..all genes (all lines carrying that gene id, whatever their seqid was) so that
    it starts and/or ends with a blank-like character (or consists of one).  Lines of one gene that shared a seqid still
    share it; two genes that shared 'chr1' may now sit on 'chr1' and ' chr1'.  Returns the list of (where, blank name)."""
    gkey = m["gkey"]
    by_gene = {}
    for rec in m["lines"]:
        g = [v for k, v in rec["attrs"] if k == gkey]
        by_gene.setdefault(g[0][0] if g and g[0] else None, []).append(rec)
    genes = sorted(by_gene, key=repr)
    rng.shuffle(genes)
    made = []
    for gi, g in enumerate(genes):
        if gi and rng.random() < 0.35:
            continue
        where = rng.choice(EDGE_WHERE)
        name, ch = rng.choice(EDGE_BLANKS)
        name2, ch2 = rng.choice(EDGE_BLANKS) if rng.random() < 0.3 else (name, ch)
        deco = {"leading": lambda s: ch + s, "trailing": lambda s: s + ch, "both ends": lambda s: ch + s + ch2,
                "blank only": lambda s: ch}[where]
        for rec in by_gene[g]:
            rec["seqid"] = deco(rec["seqid"])
        made.append([where, name])
        if where == "both ends" and name2 != name:
            made.append([where, name2])
    m["edge_seqids"] = made
    return made


# -- one transcript_id annotated under two (or three) gene_ids ---------------------------------------------------------
def shared_model(rng):
    """
    A GTF file in which 1-2 transcript ids are annotated under 2-3 gene ids each (the same accession placed at two loci,
    a read-through transcript listed under both genes): every (shared transcript, gene) combination has at least one
    subfeature line, and every gene id owns at least one subfeature line (of a transcript of its own or of a shared one),
    so that nothing has to be derived from nothing.  All genes sharing a transcript lie on one seqid and strand (the
    statement's "the exons' seqid and strand" stays defined).  Genes may also have ordinary transcripts and a `gene` line
    of their own; a shared transcript has at most ONE `transcript` line (under one of its genes).  Lines are in generation order: the check draws the
    line orders.  m["shared"] = {transcript id: [gene ids]}.
    """
    D = rng.choice(gtf_points())
    tkey, gkey, subfeature = rng.choice(KEYSETS)
    id_first = rng.choice(["g", "g", "t"])
    gfmt, tfmt = rng.choice(GENE_IDS[:5]), rng.choice(TX_IDS[:5])
    ngenes = rng.choice([2, 2, 2, 3, 3, 4])
    seqid, strand, source = rng.choice(SEQIDS), rng.choice("+-"), rng.choice(SOURCES)
    base = rng.randrange(1, 50)
    gids = [gfmt % (base + i) for i in range(ngenes)]
    origin = {g: rng.randrange(1, 100000) for g in gids}
    if rng.random() < 0.5:      # neighbouring loci (read-through) rather than far-apart copies
        o = rng.randrange(1, 100000)
        origin = {g: o + 3000 * i for i, g in enumerate(gids)}
    span = rng.choice([200, 2000, 50000])
    others = [t for t in OTHER_TYPES if t != subfeature]
    lines, shared = [], {}
    tcount = 0

    def sub(g, tid, n_sub, n_other):
        out = []
        for k in range(n_sub):
            s = origin[g] + rng.randrange(0, span)
            out.append(line(rng, seqid, source, subfeature, s, s + rng.choice([0, 5, 120, rng.randrange(0, max(1, span // 4))]), strand,
                            gkey, g, tkey, tid, id_first, extra=[["exon_number", [str(k + 1)]]] if rng.random() < 0.5 else []))
        for _ in range(n_other):
            s = max(1, origin[g] + rng.randrange(-span // 2 - 1, span))
            out.append(line(rng, seqid, source, rng.choice(others), s, s + rng.choice([0, 2, rng.randrange(0, span * 2)]), strand,
                            gkey, g, tkey, tid, id_first))
        return out

    for _ in range(rng.choice([1, 1, 2])):
        tcount += 1
        tid = tfmt % (base * 10 + tcount)
        owners = rng.sample(gids, min(ngenes, rng.choice([2, 2, 2, 3])))
        shared[tid] = owners
        for g in owners:
            lines += sub(g, tid, rng.choice([1, 1, 2, 3]), rng.choice([0, 0, 1, 2]))
        if rng.random() < 0.15:
            # ONE transcript line of its own, filed under one of the genes (two would be a duplicate id)
            ss = [(int(r["start"]), int(r["end"])) for r in lines if r["featuretype"] == subfeature and [tkey, [tid]] in r["attrs"]]
            lines.append(line(rng, seqid, source, "transcript", min(s for s, _ in ss), max(e for _, e in ss), strand, gkey, rng.choice(owners),
                              tkey, tid, id_first))
    for g in gids:
        owns = any(r["featuretype"] == subfeature and [gkey, [g]] in r["attrs"] for r in lines)
        for k in range(rng.choice([0, 1, 1, 2]) if owns else rng.choice([1, 2])):
            tcount += 1
            tid = tfmt % (base * 10 + tcount)
            n_sub = rng.choice([0, 1, 2, 3]) if owns or k else rng.choice([1, 2, 3])
            tx = sub(g, tid, n_sub, rng.choice([0, 1, 2]) if n_sub else 1)
            if rng.random() < 0.2:
                ss = [(int(r["start"]), int(r["end"])) for r in tx if r["featuretype"] == subfeature] or [(origin[g], origin[g] + span)]
                tx.append(line(rng, seqid, source, "transcript", min(s for s, _ in ss), max(e for _, e in ss), strand, gkey, g, tkey, tid, id_first))
            lines += tx
        if rng.random() < 0.2:
            ss = [(int(r["start"]), int(r["end"])) for r in lines if r["featuretype"] == subfeature and [gkey, [g]] in r["attrs"]]
            lines.append(line(rng, seqid, source, "gene", min(s for s, _ in ss), max(e for _, e in ss), strand, gkey, g, None, None, "g"))
    for n, rec in enumerate(lines):
        rec["attrs"].append(["tag", ["L%d" % n]])
    return {"D": D, "tkey": tkey, "gkey": gkey, "subfeature": subfeature, "lines": lines, "shuffle": "drawn by the check",
            "explicit_mode": "some", "derived_like": False, "shared": shared}


def reordered(m, perm):
    """The model with its lines in the order perm (indices into m["lines"]); the marker attribute is renumbered so that
    line j of the new file carries tag L<j> (what the check relies on)."""
    lines = []
    for j, i in enumerate(perm):
        rec = dict(m["lines"][i])
        rec["attrs"] = [list(a) for a in rec["attrs"] if a[0] != "tag"] + [["tag", ["L%d" % j]]]
        lines.append(rec)
    return dict(m, lines=lines)


# -- exons of one gene / transcript on both strands (one seqid) -----------------------------------------------------------
def _ids_of(rec, tkey, gkey):
    t = [v for k, v in rec["attrs"] if k == tkey]
    g = [v for k, v in rec["attrs"] if k == gkey]
    return (t[0][0] if t and t[0] else None), (g[0][0] if g and g[0] else None)


def make_mixed_strands(rng, m):
    """Put the subfeature lines of 1..n genes on BOTH strands of their one seqid:
        "antisense transcript": all lines of one transcript of a gene with >= 2 exon-bearing transcripts go to the other
                                strand (each transcript consistent, the gene mixed);
        "trans-spliced":        some but not all subfeature lines of one transcript with >= 2 of them go to the other strand
                                (transcript and gene mixed).
    gene/transcript lines of the file keep their columns.  Returns the list of modes made (m["mixed_strands"]) or None."""
    tkey, gkey, sub = m["tkey"], m["gkey"], m["subfeature"]
    flip = {"+": "-", "-": "+"}
    by_gene = {}
    for rec in m["lines"]:
        if rec["featuretype"] in ("gene", "transcript"):
            continue
        t, g = _ids_of(rec, tkey, gkey)
        by_gene.setdefault(g, {}).setdefault(t, []).append(rec)
    made = []
    genes = sorted(by_gene, key=repr)
    rng.shuffle(genes)
    for g in genes:
        if made and rng.random() < 0.4:
            continue
        txs = {t: [r for r in recs if r["featuretype"] == sub and r["strand"] in flip] for t, recs in by_gene[g].items()}
        bearing = sorted((t for t, ex in txs.items() if ex), key=repr)
        multi = [t for t in bearing if len(txs[t]) >= 2]
        modes = (["antisense transcript"] if len(bearing) >= 2 else []) + (["trans-spliced"] if multi else [])
        if not modes:
            continue
        mode = rng.choice(modes)
        if mode == "antisense transcript":
            t = rng.choice(bearing)
            for r in by_gene[g][t]:
                r["strand"] = flip.get(r["strand"], r["strand"])
        else:
            t = rng.choice(multi)
            ex = txs[t]
            for r in rng.sample(ex, rng.randrange(1, len(ex))):
                r["strand"] = flip[r["strand"]]
        made.append(mode)
    if not made:
        return None
    m["mixed_strands"] = sorted(set(made))
    return m["mixed_strands"]


# -- several lines with ONE primary key (a shared exon_id) naming different transcripts / genes ------------------------------
DUP_STRATEGIES = ["replace", "merge", "create_unique", "warning"]
DUP_KEY = "exon_id"


def make_dupkeys(rng, m, same_columns=True):
    """Give 1-2 subfeature lines an exon_id attribute (id_spec {subfeature: 'exon_id'} makes it their primary key) and add,
    for each, 1-2 more lines with the SAME exon_id under ANOTHER transcript (of the same gene, or of another gene on the same
    seqid and strand): the exon shared between transcripts, listed once per transcript.  The added lines have the columns of
    the first one (same_columns; what merge_strategy='merge' needs) or other coordinates.  Both transcripts keep at least one
    more ordinary line with a key of its own, so that the (gene, transcript) link never depends on a duplicated line alone.
    Some other subfeature lines get unique exon_ids.  Returns m["dupkeys"] = {"attr", "groups": [[tag, ...] in file order]}
    (tags are renumbered) or None when the file has no two such transcripts."""
    tkey, gkey, sub = m["tkey"], m["gkey"], m["subfeature"]
    lines = m["lines"]
    ordinary = {}      # (t, g) -> ordinary lines
    for rec in lines:
        if rec["featuretype"] in ("gene", "transcript"):
            continue
        ordinary.setdefault(_ids_of(rec, tkey, gkey), []).append(rec)
    used = set()       # id(rec) of lines in a group
    groups = []
    n = 0
    for _ in range(rng.choice([1, 1, 2])):
        srcs = [(tg, r) for tg, recs in ordinary.items() if len(recs) >= 2 for r in recs
                if r["featuretype"] == sub and id(r) not in used]
        rng.shuffle(srcs)
        for (t, g), r in srcs:
            targets = [tg for tg, recs in ordinary.items() if tg[0] != t and sum(1 for x in recs if id(x) not in used) >= 1
                       and all(x["seqid"] == r["seqid"] for x in recs if x["featuretype"] == sub)
                       and all(x["strand"] == r["strand"] for x in recs if x["featuretype"] == sub)
                       and any(x["featuretype"] == sub for x in recs)]
            # the source transcript keeps another ordinary line outside every group
            if not targets or sum(1 for x in ordinary[(t, g)] if id(x) not in used and x is not r) < 1:
                continue
            same_gene = [tg for tg in targets if tg[1] == g]
            picks = rng.sample(targets, min(len(targets), rng.choice([1, 1, 2])))
            if same_gene and rng.random() < 0.5:
                picks = [rng.choice(same_gene)]
            n += 1
            eid = "exn:%d" % n
            r["attrs"].append([DUP_KEY, [eid]])
            group = [r]
            used.add(id(r))
            for (t2, g2) in picks:
                c = dict(r, attrs=[[k, [g2] if k == gkey else [t2] if k == tkey else list(v)] for k, v in r["attrs"]])
                if not same_columns and rng.random() < 0.6:
                    s = int(r["start"]) + rng.randrange(-40, 400)
                    c["start"], c["end"] = str(max(1, s)), str(max(1, s) + rng.randrange(0, 300))
                lines.insert(rng.randrange(len(lines) + 1), c)
                ordinary[(t2, g2)].append(c)
                used.add(id(c))
                group.append(c)
            groups.append(group)
            break
    if not groups:
        return None
    k = 0
    for rec in lines:
        if rec["featuretype"] == sub and id(rec) not in used and rng.random() < 0.3:
            k += 1
            rec["attrs"].append([DUP_KEY, ["exu:%d" % k]])
    for i, rec in enumerate(lines):
        rec["attrs"] = [a for a in rec["attrs"] if a[0] != "tag"] + [["tag", ["L%d" % i]]]
    pos = {id(rec): i for i, rec in enumerate(lines)}
    m["dupkeys"] = {"attr": DUP_KEY, "same_columns": bool(same_columns),
                    "groups": [["L%d" % i for i in sorted(pos[id(r)] for r in grp)] for grp in groups]}
    return m["dupkeys"]


def surviving(m, strategy):
    """Indices of the lines that are stored features of their own after an import with the given merge_strategy, for a
    model made by make_dupkeys: 'replace' keeps the LAST line of each primary key, 'warning' the FIRST; 'merge' (one feature
    carrying the attributes of all of them) and 'create_unique' (every line stored, later ones under a new key) keep all."""
    lines = m["lines"]
    drop = set()
    for grp in m["dupkeys"]["groups"]:
        idx = sorted(int(t[1:]) for t in grp)
        if strategy == "replace":
            drop.update(idx[:-1])
        elif strategy == "warning":
            drop.update(idx[1:])
    return [i for i in range(len(lines)) if i not in drop]


# -- ids shaped like the names a collision-rename would produce ('<id>_<k>') ------------------------------------------------
def make_rename_shaped(rng, m):
    """Rename ids of a model() so that they look like the names handed out when a key collides ('<key>_1', '<key>_2', ...):
    the transcripts of a gene X that has a gene line of its own become X_1, X_2, ... (in order of appearance; such transcripts
    keep their subfeature and other lines but get no transcript line of their own, so with inference on they are DERIVED
    features); a gene without a line of its own one of whose transcripts T has a transcript line becomes 'T_1' (7 of 10).
    Lines are re-tagged.  Returns {"transcripts": [...new ids], "genes": [...new ids]} or None when nothing was renamed."""
    lines, tkey, gkey = m["lines"], m["tkey"], m["gkey"]

    def val(rec, key):
        for k, v in rec["attrs"]:
            if k == key:
                return v[0] if v else None
        return None

    gene_lines = {val(r, gkey) for r in lines if r["featuretype"] == "gene"}
    tx_lines = {val(r, tkey) for r in lines if r["featuretype"] == "transcript"}
    tx_of_gene = {}
    for r in lines:
        t, g = val(r, tkey), val(r, gkey)
        if t is not None and g is not None and r["featuretype"] != "gene":
            tx_of_gene.setdefault(g, [])
            if t not in tx_of_gene[g]:
                tx_of_gene[g].append(t)
    map_t, map_g = {}, {}
    for g, tids in tx_of_gene.items():
        if g in gene_lines:
            tids = list(tids)
            if rng.random() < 0.3:
                rng.shuffle(tids)
            for k, t in enumerate(tids):
                map_t[t] = "%s_%d" % (g, k + 1)
        else:
            own = [t for t in tids if t in tx_lines]
            if own and rng.random() < 0.7:
                map_g[g] = "%s_1" % own[0]
    if not map_t and not map_g:
        return None
    kept = []
    for r in lines:
        # (a transcript named '<gene id>_<k>' keeps its own line if it has one - F-C03-2 is repaired: the explicit line stays
        # the single feature under that id, attributes included)
        for pair in r["attrs"]:
            if pair[0] == tkey and pair[1]:
                pair[1] = [map_t.get(x, x) for x in pair[1]]
            elif pair[0] == gkey and pair[1]:
                pair[1] = [map_g.get(x, x) for x in pair[1]]
        kept.append(r)
    for n, r in enumerate(kept):
        r["attrs"] = [p for p in r["attrs"] if p[0] != "tag"] + [["tag", ["L%d" % n]]]
    m["lines"] = kept
    m["rename_shaped"] = {"transcripts": sorted(map_t.values()), "genes": sorted(map_g.values())}
    return m["rename_shaped"]
