"""
Generator of C05 histories: sequences of features with colliding keys, steered by the reference model so that third
and later arrivals do collide with earlier '<key>_n' entries.  A case is plain data.
"""
import copy

from gvmon.models import C05 as M

VALUES = {
    "seqid": ["c1", "c2", "chrX"],
    "source": ["s", "t", "u"],
    "featuretype": ["exon", "CDS", "UTR"],
    "start": ["100", "150", "170"],
    "end": ["200", "260", "300"],
    "score": [".", "5", "0.5"],
    "strand": ["+", "-", "."],
    "frame": [".", "0", "1", "2"],
}
NOTES = ["a", "b", "c", "d", "é f"]
ALIASES = ["x", "y", "z"]
PARENTS = ["P1", "P2", "P3", "PX"]       # PX: dangling
TRANSCRIPTS = ["T1", "T2", "T3"]
BASES = ["K", "Q", "gene.7", "x_1"]
GENES = ["G1", "G2", "G3"]
FLAGS = ["pseudo", "partial"]                       # valueless attribute keys
# (transcript key, gene key) given as gtf_transcript_key / gtf_gene_key (create_db) and transcript_key / gene_key (update)
GTF_KEYS = [["tx", "gn"], ["transcript_name", "gene_name"], ["Parent", "gene_id"], ["transcript_id", "locus"],
            ["mRNA", "transcript_id"], ["gene_id", "transcript_id"]]
DOT_POOL = {"start": [".", ".", "100", "150"], "end": [".", ".", "200", "300"]}
# (start, end) pairs that lie in different genomic bins at every level of the usual binning schemes (all far below 2**29)
POSITIONS = [["1", "500"], ["40000001", "40000500"], ["100", "200"], ["300000000", "300000400"], ["65000", "70000"],
             ["131073", "131074"]]
# (start, end) pairs on both sides of / across the boundaries of the usual genomic bins (multiples of 131072 = 2**17 and of the
# 8x coarser sizes 2**20, 2**23), some one base apart
EDGE_POSITIONS = [["131000", "140000"], ["100000", "131071"], ["100000", "131072"], ["100000", "131073"], ["131072", "131100"],
                  ["131073", "131200"], ["1048000", "1049000"], ["1048577", "1048700"], ["1048000", "1048576"],
                  ["8388000", "8389000"], ["262100", "262200"], ["100", "200"], ["150", "260"]]
EXTRAS = ["x1", "y", "10", "é", "a b", ".", "0.5", "ID=K"]       # 10th / 11th tab-separated fields

# opts (all optional; plain data, only used while generating):
#     flags    True: valueless attribute keys on the colliding features (extra flag keys; Note/Alias sometimes valueless)
#     dots     "start" | "end" | "both": these coordinates are drawn from {'.', two numbers}
#     gtfkeys  [transcript key, gene key] for the GTF importer (decoy transcript_id / gene_id attributes may be present)
#     shuffle  True: force_merge_fields is handed over in a non-canonical order
#     nbase    number of colliding base keys
#     extras   True: the colliding lines carry 0-2 fields after the attribute column; they differ from arrival to arrival
#              (under 'merge': one list per base key, the statement does not say whether such columns must agree)
#     farbins  True: the column variants of a key are placed at POSITIONS (different genomic bins)
#     verbose  False | True | "debug": handed to create_db and to every update (absent: not handed over)
#     edges    True (with farbins): the positions are EDGE_POSITIONS (around genomic-bin boundaries)


def pool(c, opts):
    d = (opts or {}).get("dots")
    if d and (d == "both" or d == c) and c in DOT_POOL:
        return DOT_POOL[c]
    return VALUES[c]


def columns(rng, opts=None):
    return dict((c, rng.choice(pool(c, opts))) for c in VALUES)


def vary(rng, cols, force, opts=None):
    """A variant of cols: differs in 1-2 columns, biased to forced columns (mergeable) when there are any."""
    new = dict(cols)
    r = rng.random()
    if force and r < 0.55:
        pick = rng.sample(list(force), min(len(force), rng.randrange(1, 3)))
    elif r < 0.85:
        pick = [rng.choice([c for c in M.COLS if c not in force])] if len(force) < len(M.COLS) else []
    else:
        pick = rng.sample(list(M.COLS), 2)
    for c in pick:
        new[c] = rng.choice([v for v in pool(c, opts) if v != cols[c]])
    return new


def draw_extra(rng, opts, fixed=None):
    if not (opts or {}).get("extras"):
        return []
    if fixed is not None:
        return list(fixed)
    return rng.sample(EXTRAS, rng.choice([0, 1, 1, 2, 2]))


def place(rng, cols, opts):
    """farbins: put a column variant at one of POSITIONS."""
    if (opts or {}).get("farbins") and not (opts or {}).get("dots"):
        inverted = int(cols["start"]) > int(cols["end"])      # a variant of a placed feature: only one coordinate redrawn
        if inverted or rng.random() < 0.75:
            cols = dict(cols)
            cols["start"], cols["end"] = rng.choice(EDGE_POSITIONS if opts.get("edges") else POSITIONS)
    return cols


def attributes(rng, fmt, idkey, key, opts=None):
    opts = opts or {}
    attrs = [[idkey, [key]]]
    if fmt == "gtf" and opts.get("gtfkeys"):
        tkey, gkey = opts["gtfkeys"]
        head = [[gkey, [rng.choice(GENES)]]]
        if rng.random() < 0.9:
            head.append([tkey, [rng.choice(TRANSCRIPTS)]])
        for decoy, vals in (("transcript_id", TRANSCRIPTS), ("gene_id", GENES)):   # ordinary attributes under these keys
            if decoy not in (tkey, gkey, idkey) and rng.random() < 0.5:
                head.append([decoy, [rng.choice(vals)]])
        attrs = head + attrs
    elif fmt == "gtf":
        t = rng.choice(TRANSCRIPTS)
        attrs = [["gene_id", ["G%d" % (1 + int(t[1:]) % 2)]], ["transcript_id", [t]]] + attrs
    elif rng.random() < 0.7:
        attrs.append(["Parent", rng.sample(PARENTS, rng.choice([1, 1, 2]))])
    if rng.random() < 0.75:
        attrs.append(["Note", rng.sample(NOTES, rng.choice([1, 1, 2, 3]))])
    if rng.random() < 0.4:
        attrs.append(["Alias", rng.sample(ALIASES, rng.choice([1, 2]))])
    if rng.random() < 0.15:
        attrs.append(["only%d" % rng.randrange(3), ["v%d" % rng.randrange(3)]])
    if rng.random() < 0.1:
        attrs.append(["flag", []])
    if opts.get("flags"):
        have = set(k for k, _ in attrs)
        for k in ("Note", "Alias"):
            if k in have:
                if rng.random() < 0.3:
                    attrs = [[a, [] if a == k else v] for a, v in attrs]      # the same key: here without values
            elif rng.random() < 0.25:
                attrs.append([k, []])
        for k in FLAGS:
            if rng.random() < 0.45:
                attrs.append([k, []])
    return attrs


def gen_history(rng, fmt, strategy, force, path, arrivals=None, opts=None):
    opts = dict(opts or {})
    if fmt != "gtf":
        opts.pop("gtfkeys", None)
    idkey = "ID" if fmt == "gff3" else rng.choice(["fid", "ID"])
    steer = M.Store(strategy, force)
    recs = []
    if fmt == "gff3":
        for p in PARENTS[:3]:
            if rng.random() < 0.8:
                cols = columns(rng, opts)
                cols["featuretype"] = "mRNA"
                rec = dict(cols, attrs=[["ID", [p]], ["Note", ["parent"]]], extra=draw_extra(rng, opts))
                steer.arrive(p, rec)
                recs.append(rec)
    nbase = opts.get("nbase") or rng.choice([1, 1, 2])
    bases = rng.sample(BASES, nbase)
    variants = dict((b, [place(rng, columns(rng, opts), opts)]) for b in bases)
    same_extra = dict((b, draw_extra(rng, opts) if strategy == "merge" else None) for b in bases)
    todo = dict((b, arrivals or rng.choice([2, 3, 3, 4, 5, 6])) for b in bases)
    pattern = dict((b, []) for b in bases)
    aborted = False
    guard = 0
    while any(todo.values()) and guard < 60:
        guard += 1
        b = rng.choice([x for x in bases if todo[x]])
        key = b
        spawned = steer.spawn.get(b, []) if strategy == "merge" else [k for k in steer.feats if k.startswith(b + "_")]
        natural = bool(spawned) and rng.random() < 0.2
        if natural:
            key = rng.choice(spawned)   # a feature whose own id is 'K_1': collides with the entry filed there earlier
        vs = variants[b]
        if len(vs) > 1 and rng.random() < 0.5:
            vi = rng.randrange(len(vs))
        elif rng.random() < 0.35:
            vi = 0
        else:
            vs.append(place(rng, vary(rng, vs[0], force if strategy == "merge" else rng.sample(M.COLS, 2), opts), opts))
            vi = len(vs) - 1
        rec = dict(vs[vi], attrs=attributes(rng, fmt, idkey, key, opts), extra=draw_extra(rng, opts, same_extra[b]))
        try:
            steer.arrive(key, rec)
        except M.Silent:
            continue
        except M.Abort:
            recs.append(rec)
            aborted = True
            break
        recs.append(rec)
        pattern[b].append(("n" if natural else "") + str(vi))
        todo[b] -= 1
        if rng.random() < 0.15:
            u = "u%d" % len(recs)
            rec = dict(place(rng, columns(rng, opts), opts), attrs=attributes(rng, fmt, idkey, u, opts),
                       extra=draw_extra(rng, opts))
            steer.arrive(u, rec)
            recs.append(rec)
    if aborted and rng.random() < 0.5:
        recs.append(dict(columns(rng, opts), attrs=attributes(rng, fmt, idkey, "after", opts), extra=[]))
    if path == "create" or len(recs) < 2:
        batches = [recs]
    else:
        ncut = 1 if (len(recs) < 4 or rng.random() < 0.6) else 2
        cuts = sorted(rng.sample(range(1, len(recs)), ncut))
        batches = [recs[i:j] for i, j in zip([0] + cuts, cuts + [len(recs)])]
    given = list(force)
    if opts.get("shuffle") and len(given) >= 2:
        while given == canonical(given):
            rng.shuffle(given)
    case = {
        "kind": "history", "fmt": fmt, "strategy": strategy, "force": given, "idkey": idkey,
        "spec_form": rng.choice(["default", "str"]) if (fmt == "gff3" and idkey == "ID") else rng.choice(["str", "list"]),
        "batches": batches, "reopen": rng.random() < 0.4,
        "db": "file" if (len(batches) > 1 or rng.random() < 0.25) else "memory",
        "pass_force_anyway": strategy != "merge" and rng.random() < 0.3,
        "pattern": sorted(tuple(p) for p in pattern.values()),
    }
    if opts.get("gtfkeys"):
        case["gtfkeys"] = list(opts["gtfkeys"])
    if opts.get("verbose") is not None:
        case["verbose"] = opts["verbose"]
    tags = [k for k in ("flags", "dots", "gtfkeys", "extras", "farbins", "edited") if opts.get(k)]
    if tags:
        case["opts"] = tags
    return case


def canonical(force):
    return [f for f in M.COLS if f in force]


def base_of(rec, idkey, bases):
    k = dict((a, v) for a, v in rec["attrs"])[idkey][0]
    for b in bases:
        if k == b or (k.startswith(b + "_") and k[len(b) + 1:].isdigit()):
            return b
    return None


def gen_multirun(rng, fmt, strategy, force, opts=None):
    """One key colliding in create_db and again in 2-4 later update() calls (reopened between runs: never / always /
    mixed).  The single-batch history is cut so that the first run holds >= 2 arrivals of the key and every later run
    at least one."""
    case = gen_history(rng, fmt, strategy, force, "create", arrivals=rng.choice([5, 6, 7, 8, 9]),
                       opts=dict(opts or {}, nbase=1))
    recs = case["batches"][0]
    idx = [i for i, r in enumerate(recs) if base_of(r, case["idkey"], BASES) is not None]
    later = idx[2:]
    nruns = min(len(later), rng.choice([2, 2, 3, 4]))
    if nruns < 1:
        return case
    # split `later` into nruns consecutive non-empty groups; a run starts somewhere after the previous group's last arrival
    marks = sorted(rng.sample(range(1, len(later)), nruns - 1)) if nruns > 1 else []
    groups = [later[i:j] for i, j in zip([0] + marks, marks + [len(later)])]
    cuts, prev_last = [], idx[1]
    for g in groups:
        cuts.append(rng.randrange(prev_last + 1, g[0] + 1))
        prev_last = g[-1]
    case["batches"] = [recs[i:j] for i, j in zip([0] + cuts, cuts + [len(recs)])]
    mode = rng.choice(["never", "always", "mixed"])
    case["reopen"] = [mode == "always" or (mode == "mixed" and rng.random() < 0.5) for _ in cuts]
    case["db"] = "file" if (any(case["reopen"]) or rng.random() < 0.5) else "memory"
    case["multirun"] = True
    return case


def gen_badforce(rng, fmt):
    bad = rng.choice([["start"], ["end"], ["start", "end"], ["source", "end"], ["start", "strand"]])
    case = gen_history(rng, fmt, "merge", [], "update", arrivals=2)
    case.update(kind="badforce", force=bad)
    return case


# ---------------------------------------------------------------------------------------------------------------
# colliding newcomers that are Feature objects whose coordinates were edited after construction
def bin_of(start, end):
    """Smallest bin of the usual binning scheme (128 kb bins, 8x coarser per level) that holds start..end; only compared
    for equality (classification of cases, not part of the oracle)."""
    s, e = int(start) - 1, int(end) - 1
    for shift in (17, 20, 23, 26):
        if s >> shift == e >> shift:
            return (shift, s >> shift)
    return (29, 0)


def gen_edited(rng, fmt, strategy, force, opts=None):
    """A history whose records are the features as finally handed to the importer; "built"[batch][i] = [start, end] at
    which the Feature object of record i is constructed before its coordinates are edited to the record's (None: not
    edited), "modes"[batch] = who edits: "transform" (a transform given to create_db / update; the text carries the
    construction coordinates) or "objects" (the caller builds Feature objects, edits .start/.end, hands the list over)."""
    o = dict(opts or {}, farbins=True, edges=True, edited=True)
    o.pop("dots", None)
    if rng.random() < 0.25 and strategy != "error":
        case = gen_multirun(rng, fmt, strategy, force, opts=o)
    else:
        case = gen_history(rng, fmt, strategy, force, rng.choice(["create", "update", "update"]), opts=o)
    used = set((r["start"], r["end"]) for b in case["batches"] for r in b)
    first = {}
    built, modes = [], []
    idx = 0
    for b in case["batches"]:
        mode = rng.choice(["transform", "objects"])
        bl = []
        for rec in b:
            idx += 1
            key = dict((k, v) for k, v in rec["attrs"])[case["idkey"]][0]
            here = (rec["start"], rec["end"])
            r = rng.random()
            pair = None
            if r < 0.15:
                pass
            elif mode == "objects" and key in first and first[key] != here and r < 0.5:
                pair = list(first[key])       # built with the coordinates of the feature stored under the key, then edited away
            else:
                while pair is None or tuple(pair) in used:
                    how = rng.choice(["small", "small", "far", "longer", "shifted"])
                    if how == "small":
                        s0 = 1000 + 61 * idx + rng.randrange(50)
                        pair = [str(s0), str(s0 + 50)]
                    elif how == "far":
                        s0 = 300000000 + 61 * idx + rng.randrange(50)
                        pair = [str(s0), str(s0 + 400)]
                    elif how == "longer":
                        pair = [rec["start"], str(int(rec["end"]) + rng.choice([1, 1, 2, 70000, 1000000]) + idx)]
                    else:
                        d = rng.choice([1, 2, 500, 131072]) + idx
                        pair = [str(int(rec["start"]) + d), str(int(rec["end"]) + d)]
                used.add(tuple(pair))
            first.setdefault(key, here)
            bl.append(pair)
        built.append(bl)
        modes.append(mode)
    case["built"] = built
    case["modes"] = modes
    return case


def gen_locked(rng, fmt, strategy):
    """update() of a file database while another connection holds a write transaction for longer than sqlite3's busy
    timeout and then releases it.  No key collides."""
    base, new = [], []
    idkey = "ID" if fmt == "gff3" else "fid"
    for i in range(rng.choice([1, 2, 3])):
        base.append(dict(columns(rng), attrs=attributes(rng, fmt, idkey, "b%d" % i), extra=[]))
    if fmt == "gff3":
        base.append(dict(columns(rng), featuretype="mRNA", attrs=[["ID", ["P1"]], ["Note", ["parent"]]], extra=[]))
    for i in range(rng.choice([2, 3, 4])):
        new.append(dict(columns(rng), attrs=attributes(rng, fmt, idkey, "n%d" % i), extra=[]))
    return {"kind": "locked", "fmt": fmt, "strategy": strategy, "force": [], "idkey": idkey,
            "spec_form": "default" if fmt == "gff3" else "str", "batches": [base, new], "reopen": True, "db": "file",
            "pass_force_anyway": False, "pattern": [], "hold": rng.choice([6.5, 7.0])}


# ---------------------------------------------------------------------------------------------------------------
# colliding lines that REPEAT a stored line (verbatim, or up to the order of keys / values), value lists that hold a
# value more than once
XREFS = ["X1", "X2", "DB7", "k9"]
REPEATABLE = ("Note", "Alias", "Dbxref", "only0", "only1", "only2")     # never the id attribute or a link attribute


def repeat_inside(rng, rec):
    """Make one or two value lists of the line hold a value more than once (Note=a,a / Dbxref=X1,X2,X1)."""
    cands = [a for a in rec["attrs"] if a[0] in REPEATABLE and a[1]]
    if not cands or rng.random() < 0.4:
        xs = rng.sample(XREFS, rng.choice([1, 2, 2]))
        a = ["Dbxref", xs]
        rec["attrs"].append(a)
        cands.append(a)
    for a in rng.sample(cands, min(len(cands), rng.choice([1, 1, 2]))):
        vals = list(a[1])
        for _ in range(rng.choice([1, 1, 2])):
            vals.insert(rng.randrange(0, len(vals) + 1), rng.choice(a[1]))
        a[1] = vals


def repeat_of(rng, rec, fmt, how, nlead):
    """A copy of the line: "verbatim" | "keys" (attribute keys in another order) | "values" (values of a list in another
    order) | "both".  nlead: leading attributes that stay in place (gtf: format detection looks at the first ones)."""
    new = copy.deepcopy(rec)
    if how in ("keys", "both"):
        head, tail = new["attrs"][:nlead], new["attrs"][nlead:]
        if len(tail) >= 2:
            for _ in range(8):
                t = list(tail)
                rng.shuffle(t)
                if t != tail and ((head or t)[0][1] != []):
                    tail = t
                    break
        new["attrs"] = head + tail
    if how in ("values", "both"):
        for a in new["attrs"]:
            if len(a[1]) >= 2:
                v = list(a[1])
                rng.shuffle(v)
                a[1] = v
    return new


def gen_verbatim(rng, fmt, strategy, force, opts=None, inner=None):
    """A history in which stored lines arrive again - verbatim, or differing only in the order of keys / values -, in the
    same import run or in a later update(); inner: some value lists of the repeated lines hold a value more than once."""
    opts = dict(opts or {})
    opts.pop("dots", None)
    inner = (rng.random() < 0.7) if inner is None else inner
    flavour = rng.choice(["plain", "plain", "layered", "multirun"])
    if flavour == "plain":
        # a few features, nothing else collides
        case = gen_history(rng, fmt, strategy, force, "create", arrivals=1, opts=dict(opts, nbase=rng.choice([1, 2])))
    elif flavour == "layered" or strategy == "error":
        case = gen_history(rng, fmt, strategy, force, "create", arrivals=rng.choice([1, 2, 3]), opts=dict(opts, nbase=1))
    else:
        case = gen_multirun(rng, fmt, strategy, force, opts=opts)
    idkey = case["idkey"]
    batches = [list(b) for b in case["batches"]]
    nlead = 0
    if fmt == "gtf":
        nlead = 2 if not case.get("gtfkeys") else 3
    allrecs = [r for b in batches for r in b]
    if inner:
        for rec in rng.sample(allrecs, max(1, min(len(allrecs), rng.choice([1, 2, 3])))):
            repeat_inside(rng, rec)
    withrep = [r for r in allrecs if any(len(set(v)) != len(v) for _, v in r["attrs"])]
    # which lines arrive again, how, and where
    k = rng.choice([1, 1, 2, 3])
    chosen = (rng.sample(withrep, min(len(withrep), k)) if withrep and rng.random() < 0.8 else
              rng.sample(allrecs, min(len(allrecs), k)))
    hows = []
    for rec in chosen:
        how = rng.choice(["verbatim", "verbatim", "verbatim", "keys", "values", "both"])
        hows.append(how)
        for _ in range(rng.choice([1, 1, 1, 2])):
            new = repeat_of(rng, rec, fmt, how, nlead)
            where = rng.choice(["next", "later", "end", "update", "update"])
            bi = [i for i, b in enumerate(batches) if any(r is rec for r in b)][0]
            j = [i for i, r in enumerate(batches[bi]) if r is rec][0]
            if where == "next":
                batches[bi].insert(j + 1, new)
            elif where == "later":
                batches[bi].insert(rng.randrange(j + 1, len(batches[bi]) + 1), new)
            elif where == "end":
                batches[-1].append(new)
            elif bi + 1 < len(batches) and rng.random() < 0.5:
                batches[bi + 1].insert(rng.randrange(0, len(batches[bi + 1]) + 1), new)
            else:
                batches.append([new])
    case["batches"] = batches
    nb = len(batches)
    if nb > 1:
        if not isinstance(case["reopen"], list) or len(case["reopen"]) != nb - 1:
            mode = rng.choice(["never", "always", "mixed"])
            case["reopen"] = [mode == "always" or (mode == "mixed" and rng.random() < 0.5) for _ in range(nb - 1)]
        if any(case["reopen"]):
            case["db"] = "file"
    case["repeats"] = [sorted(hows), bool(inner), flavour]
    case["opts"] = sorted(set(case.get("opts", []) + ["verbatim"] + (["inner"] if inner else [])))
    return case


# ---------------------------------------------------------------------------------------------------------------
# keys that do not come from an attribute: ':field:' id_spec, callable id_spec, auto-numbered '<featuretype>_<n>' ids that a
# later literal id hits; colliding features (stored and/or newcomer) without any attribute
KEY_FIELDS = ["seqid", "source", "featuretype"]
KEY_COLS = [["seqid", "start"], ["seqid", "start", "end"], ["featuretype", "start"], ["seqid", "featuretype", "start", "end"]]


def gen_keyless(rng, fmt, strategy, force, path, form, opts=None):
    """kind "keyless": case["keyspec"] = {"form": "field", "field": c} (id_spec ':c:' as str or list) |
    {"form": "callable", "cols": [...]} (id_spec = a function joining these columns with ':') |
    {"form": "autoid"} (id_spec names the id attribute; features without it get '<featuretype>_<n>').  About half of the
    colliding arrivals have no attributes at all (empty 9th column)."""
    opts = dict(opts or {})
    for k in ("dots", "gtfkeys", "flags", "farbins", "edges"):
        opts.pop(k, None)
    idkey = "ID" if fmt == "gff3" else "fid"
    if form == "field":
        keyspec = {"form": "field", "field": rng.choice(KEY_FIELDS)}
        keycols = [keyspec["field"]]
    elif form == "callable":
        keyspec = {"form": "callable", "cols": rng.choice(KEY_COLS)}
        keycols = list(keyspec["cols"])
    else:
        keyspec = {"form": "autoid"}
        keycols = []
    steer = M.Store(strategy, force)
    recs = []

    def attrs_for(key, bare):
        if bare:
            return []
        a = attributes(rng, fmt, idkey, key, opts)
        if form != "autoid":
            a = [x for x in a if x[0] != idkey]      # the key does not come from an attribute; the line may end up bare
        if fmt == "gff3" and a and not a[0][1]:
            # a key=value column never STARTS with a valueless flag (outside the grammar: indistinguishable from the
            # 'key value' style, see C07): a valued attribute goes first, or one is added
            valued = [x for x in a if x[1]]
            a = (valued[:1] or [["Note", ["n"]]]) + [x for x in a if x is not (valued[0] if valued else None)]
        return a

    def push(rec):
        try:
            steer.arrive_rec(rec, idkey, keyspec)
        except M.Silent:
            return False
        recs.append(rec)
        return True

    # a leading feature with attributes and a key of its own (lets the GTF dialect be detected from the first line)
    if True:
        lead = dict(columns(rng), seqid="c9", source="lead", featuretype="leadtype", start="1", end="50")
        lead["attrs"] = attributes(rng, fmt, idkey, "lead", opts)
        lead["extra"] = []
        push(lead)
    if fmt == "gff3" and form == "autoid":
        for p in PARENTS[:2]:
            if rng.random() < 0.6:
                push(dict(columns(rng), featuretype="mRNA", attrs=[["ID", [p]], ["Note", ["parent"]]], extra=[]))
    base = columns(rng)
    variants = [base]
    same_extra = draw_extra(rng, opts) if strategy == "merge" else None
    todo = rng.choice([2, 3, 3, 4, 5])
    pattern = []
    aborted = False
    guard = 0
    while todo and guard < 40:
        guard += 1
        if len(variants) > 1 and rng.random() < 0.45:
            vi = rng.randrange(len(variants))
        elif rng.random() < 0.3:
            vi = 0
        else:
            v = vary(rng, base, force if strategy == "merge" else rng.sample(M.COLS, 2))
            for c in keycols:
                if rng.random() < 0.9:
                    v[c] = base[c]
            if form == "autoid" and rng.random() < 0.9:
                v["featuretype"] = base["featuretype"]
            variants.append(v)
            vi = len(variants) - 1
        cols = variants[vi]
        bare = rng.random() < (0.7 if not pattern else 0.45)
        if form == "autoid" and not bare:
            # a literal id that is (or will be) an auto-numbered one
            ft = cols["featuretype"]
            n = steer.autoid.get(ft, 0)
            key = "%s_%d" % (ft, rng.randrange(1, n + 1) if n and rng.random() < 0.85 else n + 1)
        else:
            key = "k"
        rec = dict(cols, attrs=attrs_for(key, bare), extra=draw_extra(rng, opts, same_extra))
        try:
            steer.arrive_rec(rec, idkey, keyspec)
        except M.Silent:
            continue
        except M.Abort:
            recs.append(rec)
            aborted = True
            break
        recs.append(rec)
        pattern.append(("b" if bare else "") + str(vi))
        todo -= 1
        if rng.random() < 0.15:
            u = dict(columns(rng), seqid="c8", source="uniq", featuretype="utype", start=str(1000 + len(recs)), end="2000")
            u["attrs"] = attrs_for("u%d" % len(recs), rng.random() < 0.3 and form != "autoid")
            if form == "autoid" and not u["attrs"]:
                u["attrs"] = [[idkey, ["u%d" % len(recs)]]]
            u["extra"] = draw_extra(rng, opts)
            if form == "field":
                u[keyspec["field"]] = "uq%d" % len(recs)
            push(u)
    if path == "create" or len(recs) < 2:
        batches = [recs]
    else:
        ncut = 1 if (len(recs) < 4 or rng.random() < 0.6) else 2
        cuts = sorted(rng.sample(range(1, len(recs)), ncut))
        batches = [recs[i:j] for i, j in zip([0] + cuts, cuts + [len(recs)])]
    given = list(force)
    if opts.get("shuffle") and len(given) >= 2:
        while given == canonical(given):
            rng.shuffle(given)
    case = {
        "kind": "keyless", "fmt": fmt, "strategy": strategy, "force": given, "idkey": idkey, "keyspec": keyspec,
        "spec_form": (rng.choice(["field", "field-list"]) if form == "field" else "callable" if form == "callable" else
                      rng.choice(["default", "str", "list"]) if fmt == "gff3" else rng.choice(["str", "list"])),
        "batches": batches, "reopen": rng.random() < 0.5,
        "db": "file" if (len(batches) > 1 or rng.random() < 0.25) else "memory",
        "pass_force_anyway": False, "pattern": [tuple(pattern)],
    }
    if opts.get("verbose") is not None:
        case["verbose"] = opts["verbose"]
    tags = [k for k in ("extras",) if opts.get(k)]
    if tags:
        case["opts"] = tags
    return case


# ---------------------------------------------------------------------------------------------------------------
# features that SHARE value-list objects
CONSTS = [["batch", ["b7"]], ["status", ["reviewed"]], ["tags", ["t1", "t2"]], ["Note", ["a"]]]


def gen_shared(rng, fmt, strategy, force, mode, opts=None):
    """kind "shared": case["share"] = {"mode": "transform", "const": [[key, values], ...], "parent": [values] | None}: the
    text does not carry the const keys; a transform attaches ONE list object per const key to every feature (and, gff3, one
    Parent list object to every feature that is not an mRNA); the records of the case are the features after the transform.
    {"mode": "objects" | "iterator" | "clone" | "clone-dict"}: Feature objects; equal (key, values) lists of the whole case
    are one list object (objects / iterator: interned; clone*: copy.copy() of an earlier feature of the run, own attribute
    mapping - Attributes or plain dict - whose equal value lists are the template's objects)."""
    opts = dict(opts or {})
    for k in ("dots", "flags"):
        opts.pop(k, None)
    r = rng.random()
    if r < 0.25 and strategy != "error":
        case = gen_multirun(rng, fmt, strategy, force, opts=opts)
    else:
        case = gen_history(rng, fmt, strategy, force, rng.choice(["create", "update"]), opts=opts)
    idkey = case["idkey"]
    batches = case["batches"]
    # later features that collide with nothing
    if strategy != "error" or rng.random() < 0.3:
        for i in range(rng.choice([1, 2, 3])):
            rec = dict(columns(rng), attrs=attributes(rng, fmt, idkey, "w%d" % i, opts), extra=draw_extra(rng, opts))
            batches[-1].append(rec)
    share = {"mode": mode}
    recs = [r for b in batches for r in b]
    if mode == "transform":
        taken = set(k for r in recs for k, _ in r["attrs"])
        consts = [c for c in rng.sample(CONSTS, rng.choice([1, 1, 2])) if c[0] not in taken]
        if not consts:
            consts = [["batch", ["b7"]]]
        share["const"] = consts
        share["parent"] = None
        if fmt == "gff3" and rng.random() < 0.6:
            share["parent"] = rng.sample(PARENTS, rng.choice([1, 2]))
        for rec in recs:
            attrs = [list(a) for a in rec["attrs"]]
            if share["parent"] and rec["featuretype"] != "mRNA":
                if any(a[0] == "Parent" for a in attrs):
                    attrs = [[a[0], list(share["parent"])] if a[0] == "Parent" else a for a in attrs]
                else:
                    attrs.append(["Parent", list(share["parent"])])
            rec["attrs"] = attrs + [[k, list(v)] for k, v in consts]
    else:
        # make value lists coincide: the colliding and the later features take their Parent / Note / Alias ... from few
        pools = {}
        for rec in recs:
            for a in rec["attrs"]:
                if a[0] == idkey or not a[1]:
                    continue
                seen = pools.setdefault(a[0], [])
                if seen and rng.random() < 0.6:
                    a[1] = list(rng.choice(seen))
                else:
                    seen.append(list(a[1]))
    case["share"] = share
    case["kind"] = "shared"
    case["opts"] = sorted(set(case.get("opts", [])))
    if not case["opts"]:
        case.pop("opts")
    return case
