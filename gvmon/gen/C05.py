"""
Generator of C05 histories: sequences of features with colliding keys, steered by the reference model so that third
and later arrivals do collide with earlier '<key>_n' entries.  A case is plain data.
"""
from gvmon.models import C05 as M

VALUES = {
    "seqid": ["c1", "c2", "chrX"],
    "source": ["s", "t", "u"],
    "featuretype": ["exon", "CDS", "UTR"],
    "start": ["100", "150", "170"],
    "end": ["200", "260", "300"],
    "score": [".", "5", "0.5"],
    "strand": ["+", "-", "."],
    "frame": [".", "0", "1", "2"],
}
NOTES = ["a", "b", "c", "d", "é f"]
ALIASES = ["x", "y", "z"]
PARENTS = ["P1", "P2", "P3", "PX"]       # PX: dangling
TRANSCRIPTS = ["T1", "T2", "T3"]
BASES = ["K", "Q", "gene.7", "x_1"]


def columns(rng):
    return dict((c, rng.choice(v)) for c, v in VALUES.items())


def vary(rng, cols, force):
    """A variant of cols: differs in 1-2 columns, biased to forced columns (mergeable) when there are any."""
    new = dict(cols)
    r = rng.random()
    if force and r < 0.55:
        pick = rng.sample(list(force), min(len(force), rng.randrange(1, 3)))
    elif r < 0.85:
        pick = [rng.choice([c for c in M.COLS if c not in force])] if len(force) < len(M.COLS) else []
    else:
        pick = rng.sample(list(M.COLS), 2)
    for c in pick:
        new[c] = rng.choice([v for v in VALUES[c] if v != cols[c]])
    return new


def attributes(rng, fmt, idkey, key):
    attrs = [[idkey, [key]]]
    if fmt == "gtf":
        t = rng.choice(TRANSCRIPTS)
        attrs = [["gene_id", ["G%d" % (1 + int(t[1:]) % 2)]], ["transcript_id", [t]]] + attrs
    elif rng.random() < 0.7:
        attrs.append(["Parent", rng.sample(PARENTS, rng.choice([1, 1, 2]))])
    if rng.random() < 0.75:
        attrs.append(["Note", rng.sample(NOTES, rng.choice([1, 1, 2, 3]))])
    if rng.random() < 0.4:
        attrs.append(["Alias", rng.sample(ALIASES, rng.choice([1, 2]))])
    if rng.random() < 0.15:
        attrs.append(["only%d" % rng.randrange(3), ["v%d" % rng.randrange(3)]])
    if rng.random() < 0.1:
        attrs.append(["flag", []])
    return attrs


def gen_history(rng, fmt, strategy, force, path, arrivals=None):
    idkey = "ID" if fmt == "gff3" else rng.choice(["fid", "ID"])
    steer = M.Store(strategy, force)
    recs = []
    if fmt == "gff3":
        for p in PARENTS[:3]:
            if rng.random() < 0.8:
                cols = columns(rng)
                cols["featuretype"] = "mRNA"
                rec = dict(cols, attrs=[["ID", [p]], ["Note", ["parent"]]], extra=[])
                steer.arrive(p, rec)
                recs.append(rec)
    nbase = rng.choice([1, 1, 2])
    bases = rng.sample(BASES, nbase)
    variants = dict((b, [columns(rng)]) for b in bases)
    todo = dict((b, arrivals or rng.choice([2, 3, 3, 4, 5, 6])) for b in bases)
    pattern = dict((b, []) for b in bases)
    aborted = False
    guard = 0
    while any(todo.values()) and guard < 60:
        guard += 1
        b = rng.choice([x for x in bases if todo[x]])
        key = b
        spawned = steer.spawn.get(b, []) if strategy == "merge" else [k for k in steer.feats if k.startswith(b + "_")]
        natural = bool(spawned) and rng.random() < 0.2
        if natural:
            key = rng.choice(spawned)   # a feature whose own id is 'K_1': collides with the entry filed there earlier
        vs = variants[b]
        if len(vs) > 1 and rng.random() < 0.5:
            vi = rng.randrange(len(vs))
        elif rng.random() < 0.35:
            vi = 0
        else:
            vs.append(vary(rng, vs[0], force if strategy == "merge" else rng.sample(M.COLS, 2)))
            vi = len(vs) - 1
        rec = dict(vs[vi], attrs=attributes(rng, fmt, idkey, key), extra=[])
        try:
            steer.arrive(key, rec)
        except M.Silent:
            continue
        except M.Abort:
            recs.append(rec)
            aborted = True
            break
        recs.append(rec)
        pattern[b].append(("n" if natural else "") + str(vi))
        todo[b] -= 1
        if rng.random() < 0.15:
            u = "u%d" % len(recs)
            rec = dict(columns(rng), attrs=attributes(rng, fmt, idkey, u), extra=[])
            steer.arrive(u, rec)
            recs.append(rec)
    if aborted and rng.random() < 0.5:
        recs.append(dict(columns(rng), attrs=attributes(rng, fmt, idkey, "after"), extra=[]))
    if path == "create" or len(recs) < 2:
        batches = [recs]
    else:
        ncut = 1 if (len(recs) < 4 or rng.random() < 0.6) else 2
        cuts = sorted(rng.sample(range(1, len(recs)), ncut))
        batches = [recs[i:j] for i, j in zip([0] + cuts, cuts + [len(recs)])]
    return {
        "kind": "history", "fmt": fmt, "strategy": strategy, "force": list(force), "idkey": idkey,
        "spec_form": rng.choice(["default", "str"]) if (fmt == "gff3" and idkey == "ID") else rng.choice(["str", "list"]),
        "batches": batches, "reopen": rng.random() < 0.4,
        "db": "file" if (len(batches) > 1 or rng.random() < 0.25) else "memory",
        "pass_force_anyway": strategy != "merge" and rng.random() < 0.3,
        "pattern": sorted(tuple(p) for p in pattern.values()),
    }


def gen_badforce(rng, fmt):
    bad = rng.choice([["start"], ["end"], ["start", "end"], ["source", "end"], ["start", "strand"]])
    case = gen_history(rng, fmt, "merge", [], "update", arrivals=2)
    case.update(kind="badforce", force=bad)
    return case
