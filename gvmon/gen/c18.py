"""
Generators for C18: reference genomes + slices, transcripts with block/thick/thin children + bed12 call options.
No gffutils import.
"""
from gvmon.models import c18 as M

SEQ_NAMES = ["chr1", "chr2L", "scaffold_12", "ctg.7-b", "MT", "1", "chrUn_random"]
WIDTHS = [50, 60, 70, 80, 37, 13, 100, 1, 7]


def bases(rng, n):
    out = []
    while sum(len(x) for x in out) < n:
        r = rng.random()
        m = 1 + int(rng.expovariate(1 / 40.0))
        if r < 0.55:
            out.append("".join(rng.choice("ACGT") for _ in range(m)))
        elif r < 0.80:
            out.append("".join(rng.choice("acgt") for _ in range(m)))
        elif r < 0.86:
            out.append("".join(rng.choice("ACGTacgtNn") for _ in range(m)))
        elif r < 0.90:
            # IUPAC ambiguity codes, as found in real reference sequences
            out.append("".join(rng.choice("RYKMBVDHSWrykmbvdhswACGT") for _ in range(min(m, 30))))
        else:
            out.append(rng.choice("Nn") * min(m, 25))
    return "".join(out)[:n]


def genome(rng, maxlen=3000):
    names = list(SEQ_NAMES)
    rng.shuffle(names)
    seqs = []
    for name in names[:rng.randrange(2, 5)]:
        n = rng.choice([1, 2, 59, 60, 61, 120, rng.randrange(3, 400), rng.randrange(200, maxlen), rng.randrange(200, maxlen)])
        width = rng.choice(WIDTHS)
        if width < 7 and n > 300:
            width = 60
        desc = rng.choice(["", "", "", "some description", "len=%d" % n])
        seqs.append([name, desc, bases(rng, n), width])
    return seqs


def slices(rng, seqs, n):
    out = []
    for _ in range(n):
        name, _, seq, width = rng.choice(seqs)
        L = len(seq)
        r = rng.random()
        if r < 0.12:
            s, e = 1, L
        elif r < 0.24:
            s = rng.randrange(1, L + 1)
            e = s
        elif r < 0.36:
            s, e = 1, rng.randrange(1, L + 1)
        elif r < 0.48:
            s, e = rng.randrange(1, L + 1), L
        elif r < 0.64 and L > width:
            # around line-wrap boundaries of the file
            k = rng.randrange(1, L // width + 1)
            s = max(1, min(L, k * width + rng.randrange(-1, 3)))
            e = max(s, min(L, s + rng.choice([0, 1, width - 1, width, width + 1, rng.randrange(0, 3 * width)])))
        else:
            s = rng.randrange(1, L + 1)
            e = min(L, s + int(rng.expovariate(1 / 80.0)))
        strand = rng.choice(["+", "-", "-", ".", "+"])
        out.append([name, s, e, strand])
    return out


# --- transcripts ----------------------------------------------------------------
ID_FORMS = ["t%d", "tx.%d-a", "NM_%d.2", "tré%d", "T%d|alt"]
BLOCK_CHOICES = [["exon"], "exon", ["exon", "noncoding_exon"], ["CDS"], "absent_type", ["exon"], "exon"]
THICK_THIN = [(["CDS"], None), ("CDS", None), (["CDS"], None), (None, ["five_prime_UTR", "three_prime_UTR"]),
              (None, "five_prime_UTR"), (["CDS", "stop_codon"], None), (["absent_type"], None)]
COLORS = [None, None, "255,0,0", "0, 128,255", "12,34,56"]


def transcript(rng, idx, fmt):
    strand = rng.choice(["+", "-"])
    n_exons = rng.choice([0, 1, 1, 2, 2, 3, 4, 5, 6])
    if fmt == "gtf" and n_exons == 0:
        n_exons = 1
    n_cds = min(rng.choice([0, 0, 1, 2, 3, 4]), n_exons) if n_exons else rng.choice([0, 0, 1])
    pos = rng.randrange(1, 3000)
    exons = []
    for _ in range(n_exons):
        ln = rng.choice([1, 2, 3, rng.randrange(1, 300), rng.randrange(1, 300)])
        exons.append([pos, pos + ln - 1])
        pos += ln + rng.choice([0, 1, 2, rng.randrange(1, 500)])  # gap 0 = abutting exons (starts stay distinct)
    children = []
    alt_type = fmt == "gff3" and rng.random() < 0.2
    for s, e in exons:
        children.append({"type": "noncoding_exon" if alt_type and rng.random() < 0.4 else "exon", "start": s, "end": e})
    if n_exons:
        tstart, tend = exons[0][0], exons[-1][1]
    else:
        tstart = pos
        tend = pos + rng.randrange(0, 800)
    # coding part
    if n_exons and n_cds:
        i = rng.randrange(0, n_exons - n_cds + 1)
        cds = [list(x) for x in exons[i:i + n_cds]]
        cds[0][0] += rng.randrange(0, cds[0][1] - cds[0][0] + 1) if n_cds > 1 else rng.randrange(0, (cds[0][1] - cds[0][0]) // 2 + 1)
        cds[-1][1] -= rng.randrange(0, cds[-1][1] - cds[-1][0] + 1)
        for s, e in cds:
            children.append({"type": "CDS", "start": s, "end": e})
        five, three = ("five_prime_UTR", "three_prime_UTR") if strand == "+" else ("three_prime_UTR", "five_prime_UTR")
        for s, e in exons:
            if e < cds[0][0]:
                children.append({"type": five, "start": s, "end": e})
            elif s < cds[0][0] <= e:
                children.append({"type": five, "start": s, "end": cds[0][0] - 1})
            if s > cds[-1][1]:
                children.append({"type": three, "start": s, "end": e})
            elif s <= cds[-1][1] < e:
                children.append({"type": three, "start": cds[-1][1] + 1, "end": e})
        if rng.random() < 0.3 and cds[-1][1] - cds[-1][0] >= 2:
            children.append({"type": "stop_codon", "start": cds[-1][1] - 2, "end": cds[-1][1]})
    elif not n_exons and n_cds:
        s = rng.randrange(tstart, tend + 1)
        children.append({"type": "CDS", "start": s, "end": rng.randrange(s, tend + 1)})
    if rng.random() < 0.15 and tend > tstart:
        s = rng.randrange(tstart, tend)
        children.append({"type": "intron", "start": s, "end": rng.randrange(s, tend + 1)})
    # deliberately non-spanning blocks (GFF3 only: in GTF the transcript extent is inferred from the exons)
    shape = "spanning"
    if fmt == "gff3" and n_exons and rng.random() < 0.25:
        shape = rng.choice(["starts before first block", "ends after last block", "both", "first block starts before",
                            "last block ends after"])
        if shape in ("starts before first block", "both"):
            tstart = max(1, tstart - rng.choice([1, 1, 2, 50])) if tstart > 1 else tstart
        if shape in ("ends after last block", "both"):
            tend += rng.choice([1, 1, 2, 50])
        if shape == "first block starts before" and exons[0][1] > exons[0][0]:
            tstart += 1
        if shape == "last block ends after" and exons[-1][1] > exons[-1][0]:
            tend -= 1
    rng.shuffle(children)
    tid = rng.choice(ID_FORMS) % idx
    attrs = []
    if fmt == "gff3":
        attrs = [["ID", [tid]], ["Parent", ["g%d" % (idx // 3)]]]
        if rng.random() < 0.6:
            attrs.append(["Name", [rng.choice(["nm", "Abc-RA", "näme", "x.1", "a b"])]])
    else:
        attrs = [["transcript_id", [tid]], ["gene_id", ["g%d" % (idx // 3)]]]
    return {"id": tid, "seqid": rng.choice(["chr1", "chr2L", "ctg.7-b"]) if idx % 3 == 0 else None, "strand": strand,
            "start": tstart, "end": tend, "score": rng.choice([".", ".", "0", "7", "12.5", "900"]) if fmt == "gff3" else ".",
            "type": rng.choice(["mRNA", "transcript", "ncRNA"]) if fmt == "gff3" else "transcript",
            "attrs": attrs, "children": children, "shape": shape}


def call(rng, t, fmt):
    for _ in range(20):
        block = rng.choice(BLOCK_CHOICES)
        thick, thin = rng.choice(THICK_THIN)
        if M.ambiguous_order(t["children"], block) or M.ambiguous_order(t["children"], thick):
            continue
        break
    else:
        block, thick, thin = ["exon"], ["CDS"], None
    if fmt == "gff3":
        name_field = rng.choice(["ID", "ID", "Name", "Name", "absent_key"])
    else:
        name_field = rng.choice(["transcript_id", "transcript_id", "gene_id", "Name"])
    return {"as": rng.choice(["id", "feature"]), "block": block, "thick": thick, "thin": thin, "name_field": name_field,
            "color": rng.choice(COLORS), "to_bed12": rng.random() < 0.5}


def bed_case(rng, fmt, single_by_id=False):
    """single_by_id=False: a transcript whose block selection is empty is always given as a Feature;
    single_by_id=True: every call selects no block child and gives the transcript by id (plus the same call by Feature)."""
    n = rng.randrange(1, 6)
    ts = []
    for i in range(n):
        t = transcript(rng, i, fmt)
        if t["seqid"] is None:
            t["seqid"] = ts[3 * (i // 3)]["seqid"]  # transcripts of one gene share the sequence
        ts.append(t)
    calls = []
    for i, t in enumerate(ts):
        for _ in range(rng.randrange(1, 4)):
            c = call(rng, t, fmt)
            c["t"] = i
            empty = not M.select(t["children"], c["block"])
            if single_by_id:
                if not empty:
                    c["block"] = "absent_type"
                c["as"] = "id"
                calls.append(dict(c, **{"as": "feature"}))
            elif empty:
                c["as"] = "feature"
            calls.append(c)
    return {"kind": "bed12", "fmt": fmt, "transcripts": ts, "calls": calls,
            "shuffle_seed": rng.randrange(1 << 30) if rng.random() < 0.3 else None}


# --- FASTA rewritten between calls; readers with non-default naming -------------------------------------------------
def small_genome(rng, names, maxlen=400):
    seqs = []
    for name in names:
        n = rng.choice([1, 2, 59, 60, 61, rng.randrange(3, 120), rng.randrange(50, maxlen), rng.randrange(50, maxlen)])
        width = rng.choice(WIDTHS)
        if width < 7 and n > 200:
            width = 60
        seqs.append([name, rng.choice(["", "", "some description", "len=%d" % n]), bases(rng, n), width])
    return seqs


def rewrite_case(rng):
    """2-4 versions of one FASTA file (same record names; other bases, mostly other lengths and line widths), slices
    inside each version; how the next version replaces the previous one and what happens to the index file."""
    names = list(SEQ_NAMES)
    rng.shuffle(names)
    names = names[:rng.randrange(1, 4)]
    rounds = []
    prev = None
    for r in range(rng.randrange(2, 5)):
        g = small_genome(rng, names)
        if prev is not None:
            x = rng.random()
            if x < 0.25:
                # same lengths and layout, other bases: only the content tells the versions apart
                g = [[p[0], p[1], bases(rng, len(p[2])), p[3]] for p in prev]
            elif x < 0.35:
                g = [list(p) for p in prev]  # unchanged file
        rounds.append({"genome": g, "slices": slices(rng, g, rng.randrange(2, 7)), "fai": rng.choice(["remove", "keep"]),
                       "write": rng.choice(["truncate", "truncate", "replace"])})
        prev = g
    return {"kind": "seqrw", "rounds": rounds, "origin": rng.choice(["line", "ctor"])}


def named_case(rng):
    """Records with headers gi|<n>|<name> [description], a naming mode of the reader, and slices addressed by the keys the
    reader offers in that mode: [key, record index, start, end, strand]."""
    names = list(SEQ_NAMES)
    rng.shuffle(names)
    names = names[:rng.randrange(2, 5)]
    g = small_genome(rng, names, maxlen=600)
    for i, rec in enumerate(g):
        rec[0] = "gi|%d|%s" % (100 + 7 * i, rec[0])
        if rng.random() < 0.7:
            rec[1] = rng.choice(["some description", "len=%d" % len(rec[2]), "chr1 chr2L", "gi|100|chr1"])
    mode = rng.choice(M.NAMING_MODES)
    keys = M.naming_keys(mode, g)
    klist = sorted(keys)
    out = []
    for sl in slices(rng, [[k, "", g[keys[k]][2], g[keys[k]][3]] for k in klist], rng.randrange(4, 12)):
        out.append([sl[0], keys[sl[0]], sl[1], sl[2], sl[3]])
    return {"kind": "seqobj", "genome": g, "mode": mode, "as_raw": rng.random() < 0.25, "slices": out,
            "origin": rng.choice(["line", "ctor"])}


def deep_case(rng):
    """Single-isoform genes: gene > transcript > exon/CDS/UTR.  target 'gene': bed12 is asked for the gene, whose block and
    thick features are its level-2 children.  target 'transcript' with 'via': the listed child types hang on an
    intermediate feature below the transcript (transcript > protein > CDS), i.e. are level-2 children of the transcript."""
    target = rng.choice(["gene", "gene", "transcript"])
    fmt = "gtf" if (target == "gene" and rng.random() < 0.25) else "gff3"
    ts = []
    for i in range(rng.randrange(1, 4)):
        t = transcript(rng, i, fmt)
        t["seqid"] = t["seqid"] or rng.choice(["chr1", "chr2L", "ctg.7-b"])
        gid = "gene%d" % i
        t["attrs"] = [[k, ([gid] if k in ("Parent", "gene_id") else v)] for k, v in t["attrs"]]
        ts.append(t)
    via = []
    if target == "transcript":
        via = rng.choice([["CDS"], ["CDS"], ["CDS", "stop_codon"], ["exon", "noncoding_exon"], ["five_prime_UTR", "three_prime_UTR"],
                          ["CDS", "exon", "noncoding_exon"]])
    calls = []
    for i, t in enumerate(ts):
        for _ in range(rng.randrange(1, 4)):
            c = call(rng, t, fmt)
            c["t"] = i
            c["to_bed12"] = False
            if target == "gene":
                c["name_field"] = rng.choice(["ID", "Name"] if fmt == "gff3" else ["gene_id", "transcript_id"])
            if not M.select(t["children"], c["block"]):
                c["as"] = "feature"
            calls.append(c)
    return {"kind": "bed12", "fmt": fmt, "transcripts": ts, "calls": calls, "deep": {"target": target, "via": via},
            "shuffle_seed": rng.randrange(1 << 30) if rng.random() < 0.3 else None}


# --- featuretype names that are substrings of one another ------------------------------------------------------------
NAME_PAIRS = [("exon", "coding_exon"), ("UTR", "five_prime_UTR"), ("CDS", "CDS_part")]
SUB_NAMES = [n for pair in NAME_PAIRS for n in pair]
PARTNER = dict([(a, b) for a, b in NAME_PAIRS] + [(b, a) for a, b in NAME_PAIRS])


def as_argument(rng, types):
    """A list of type names in one of the two documented forms: a plain str (one name only) or a list."""
    types = list(types)
    if len(types) == 1 and rng.random() < 0.5:
        return types[0]
    rng.shuffle(types)
    return types


def sub_types(rng):
    """Block type names: one name, a name with the name it contains / is contained in, names of several families."""
    a = rng.choice(SUB_NAMES)
    r = rng.random()
    if r < 0.40:
        return [a]
    if r < 0.70:
        return [a, PARTNER[a]]
    if r < 0.90:
        return [a, rng.choice([n for n in SUB_NAMES if n not in (a, PARTNER[a])])]
    return [a, PARTNER[a], rng.choice([n for n in SUB_NAMES if n not in (a, PARTNER[a])])]


def thick_types(rng, block):
    """Thick type names in a chosen relation to the block type names."""
    rel = rng.choice(["equal", "contained", "disjoint", "disjoint", "partner", "partner", "overlap"])
    outside = [n for n in SUB_NAMES if n not in block]
    if rel == "equal":
        return list(block)
    if rel == "contained" and len(block) > 1:
        return rng.sample(block, rng.randrange(1, len(block)))
    if rel == "partner":
        # the names that contain / are contained in a block name and are not block names themselves
        p = [PARTNER[b] for b in block if PARTNER[b] not in block]
        if p:
            return [rng.choice(p)]
    if rel == "overlap" and outside:
        return [rng.choice(block), rng.choice(outside)]
    if outside:
        t = [rng.choice(outside)]
        if PARTNER[t[0]] in outside and rng.random() < 0.3:
            t.append(PARTNER[t[0]])
        return t
    return list(block)


def sub_transcript(rng, idx, block, thick):
    """A transcript whose children carry the names of NAME_PAIRS.  flat: 3-8 pairwise disjoint (or abutting) segments,
    each of one type; the first and last segment mostly of a block type, and every type named by the call has the type
    whose name contains it / is contained in it somewhere in the transcript.  nested: exon / coding_exon segments
    spanning the transcript, a CDS / CDS_part piece inside every coding_exon, UTR / five_prime_UTR over the others."""
    strand = rng.choice(["+", "-"])
    pos = rng.randrange(1, 3000)
    layout = "flat" if rng.random() < 0.6 else "nested"
    n = rng.randrange(3, 9)
    segs = []
    for _ in range(n):
        ln = rng.choice([1, 2, 3, rng.randrange(1, 300), rng.randrange(1, 300)])
        segs.append([pos, pos + ln - 1])
        pos += ln + rng.choice([0, 1, 2, rng.randrange(1, 500)])
    children = []
    if layout == "flat":
        named = list(block) + list(thick)
        wanted = list(dict.fromkeys(named + [PARTNER[x] for x in named]))
        types = [rng.choice(wanted if rng.random() < 0.75 else SUB_NAMES) for _ in segs]
        inner = list(range(1, n - 1))
        rng.shuffle(inner)
        for i, w in zip(inner, rng.sample(wanted, len(wanted))):
            types[i] = w
        if rng.random() < 0.85:
            types[0] = rng.choice(block)
            types[-1] = rng.choice(block)
        for (s, e), ty in zip(segs, types):
            children.append({"type": ty, "start": s, "end": e})
    else:
        kinds = [rng.choice(["exon", "coding_exon", "coding_exon"]) for _ in segs]
        for (s, e), ty in zip(segs, kinds):
            children.append({"type": ty, "start": s, "end": e})
            if ty == "coding_exon":
                a = rng.randrange(s, e + 1)
                children.append({"type": rng.choice(["CDS", "CDS_part"]), "start": a, "end": rng.randrange(a, e + 1)})
            else:
                children.append({"type": rng.choice(["UTR", "five_prime_UTR"]), "start": s, "end": e})
    tstart, tend = segs[0][0], segs[-1][1]
    shape = "spanning"
    if rng.random() < 0.1:
        shape = "ends after last block"
        tend += rng.choice([1, 2, 50])
    rng.shuffle(children)
    tid = rng.choice(ID_FORMS) % idx
    attrs = [["ID", [tid]], ["Parent", ["g%d" % idx]]]
    if rng.random() < 0.5:
        attrs.append(["Name", [rng.choice(["nm", "Abc-RA", "x.1"])]])
    return {"id": tid, "seqid": rng.choice(["chr1", "chr2L", "ctg.7-b"]), "strand": strand, "start": tstart, "end": tend,
            "score": rng.choice([".", ".", "0", "7"]), "type": rng.choice(["mRNA", "transcript"]), "attrs": attrs,
            "children": children, "shape": shape, "layout": layout}


NESTED_BLOCKS = [["exon", "coding_exon"], ["exon", "coding_exon"], ["coding_exon"], ["exon"], ["CDS", "CDS_part"], ["CDS_part"],
                 ["CDS"], ["UTR", "five_prime_UTR"], ["UTR"]]
NESTED_THICK = [["CDS"], ["CDS_part"], ["CDS", "CDS_part"], ["exon"], ["coding_exon"], ["exon", "coding_exon"], ["UTR"],
                ["five_prime_UTR"], ["UTR", "five_prime_UTR"]]


def substring_case(rng):
    """bed12 calls on GFF3 transcripts whose children carry type names that contain one another; block and thick
    featuretypes as str and as list, thick names equal to / contained in / disjoint from / overlapping the block names.
    Selections with two children sharing a start or overlapping are not asked (order / extent not stated)."""
    ts, calls = [], []
    for i in range(rng.randrange(1, 4)):
        block = sub_types(rng)
        thick = thick_types(rng, block)
        t = sub_transcript(rng, i, block, thick)
        ts.append(t)
        todo = [(block, thick)]
        for _ in range(rng.randrange(1, 4)):
            if t["layout"] == "nested":
                todo.append((rng.choice(NESTED_BLOCKS), rng.choice(NESTED_THICK)))
            else:
                b = sub_types(rng)
                if rng.random() < 0.7:
                    # block names that include the types of the outermost segments (blocks span the transcript)
                    order = sorted(t["children"], key=lambda c: c["start"])
                    b = list(dict.fromkeys([order[0]["type"], order[-1]["type"]] + (b[:1] if rng.random() < 0.4 else [])))
                todo.append((b, thick_types(rng, b)))
        if t["layout"] == "nested":
            todo[0] = (rng.choice(NESTED_BLOCKS[:3]), rng.choice(NESTED_THICK))
        for b, k in todo:
            if (M.ambiguous_order(t["children"], b) or M.overlapping(t["children"], b) or M.ambiguous_order(t["children"], k)
                    or M.overlapping(t["children"], k)):
                continue
            thin = None
            if rng.random() < 0.08:
                k, thin = None, as_argument(rng, ["UTR"] if rng.random() < 0.5 else ["five_prime_UTR", "UTR"])
            c = {"t": i, "as": rng.choice(["id", "feature"]), "block": as_argument(rng, b),
                 "thick": as_argument(rng, k) if k else None, "thin": thin,
                 "name_field": rng.choice(["ID", "Name", "absent_key"]), "color": rng.choice(COLORS), "to_bed12": rng.random() < 0.3}
            if not M.select(t["children"], c["block"]):
                c["as"] = "feature"
            calls.append(c)
    return {"kind": "bed12", "fmt": "gff3", "transcripts": ts, "calls": calls, "sub": True,
            "shuffle_seed": rng.randrange(1 << 30) if rng.random() < 0.3 else None}


# --- two FASTA files with the same base name and byte size in different directories ---------------------------------
def twin_case(rng):
    """File B holds the records of file A in another order / with some bases changed / with bases moved from one record
    to another, such that both files have the same size in bytes; calls alternate between the two paths."""
    names = list(SEQ_NAMES)
    rng.shuffle(names)
    a = small_genome(rng, names[:rng.randrange(2, 5)])
    size = len(M.fasta_text(a).encode())
    how = rng.choice(["order", "order", "order", "bases", "move", "move"])
    b = None
    if how == "move":
        for _ in range(20):
            i, j = rng.sample(range(len(a)), 2)
            k = rng.randrange(1, 6)
            if len(a[j][2]) <= k:
                continue
            cand = [list(r) for r in a]
            cand[i][2] = a[i][2] + a[j][2][:k]
            cand[j][2] = a[j][2][k:]
            if len(M.fasta_text(cand).encode()) == size:
                b = cand
                break
        if b is None:
            how = "order"
    if how == "bases":
        b = [list(r) for r in a]
        for _ in range(rng.randrange(1, 4)):
            r = rng.choice(b)
            p = rng.randrange(len(r[2]))
            r[2] = r[2][:p] + {"A": "C", "C": "G", "G": "T", "T": "A"}.get(r[2][p].upper(), "A") + r[2][p + 1:]
    if how == "order":
        b = [list(r) for r in a]
        while [r[0] for r in b] == [r[0] for r in a]:
            rng.shuffle(b)
    assert len(M.fasta_text(b).encode()) == size
    calls = []
    first = rng.randrange(2)
    for n in range(rng.randrange(3, 8)):
        which = (first + n) % 2 if rng.random() < 0.85 else rng.randrange(2)
        calls.append([which] + slices(rng, (a, b)[which], 1)[0])
    return {"kind": "seqtwin", "a": a, "b": b, "how": how, "basename": rng.choice(["genome.fa", "ref.fasta", "dm6.fa", "seq"]),
            "calls": calls, "origin": rng.choice(["line", "ctor"])}


# --- duplicated block records; thick / thin children reaching past the transcript ------------------------------------
def _pick_transcript(rng, idx, fmt, want):
    for _ in range(200):
        t = transcript(rng, idx, fmt)
        if want(t):
            return t
    raise AssertionError("generator: no suitable transcript in 200 draws")


def add_duplicates(rng, t):
    """Repeats 1-2 exon records (and sometimes a CDS record) of t once or twice.  'identical': every copy (the original
    included) carries no ID of its own, so the lines are byte-identical and the database keeps them under generated
    keys (exon_1, exon_2); 'distinct': the copies have equal coordinates but each its own ID (GTF: exon_id)."""
    kids = t["children"]
    exons = [c for c in kids if c["type"] in ("exon", "noncoding_exon")]
    picks = rng.sample(exons, min(len(exons), rng.choice([1, 1, 2])))
    if rng.random() < 0.4:
        cds = [c for c in kids if c["type"] == "CDS"]
        if cds:
            picks.append(rng.choice(cds))
    serial = 0
    modes = []
    for c in picks:
        mode = "identical" if rng.random() < 0.65 else "distinct"
        modes.append(mode)
        copies = [c] + [dict(c) for _ in range(rng.choice([1, 1, 2]))]
        for x in copies:
            serial += 1
            x["id"] = None if mode == "identical" else "%s.d%d" % (t["id"], serial)
        kids.extend(copies[1:])
    rng.shuffle(kids)
    t["dups"] = sorted(set(modes))
    return t


def dup_case(rng, fmt):
    """bed12 / to_bed12 for transcripts some of whose block (and thick) records are written twice or three times."""
    ts, calls = [], []
    for i in range(rng.randrange(1, 4)):
        t = _pick_transcript(rng, i, fmt, lambda t: any(c["type"] in ("exon", "noncoding_exon") for c in t["children"]))
        t["seqid"] = t["seqid"] or ts[3 * (i // 3)]["seqid"]
        ts.append(add_duplicates(rng, t))
        for _ in range(rng.randrange(1, 4)):
            c = call(rng, t, fmt)
            c["t"] = i
            if rng.random() < 0.5:
                c["block"] = rng.choice([["exon", "noncoding_exon"], ["exon", "noncoding_exon"], "exon", ["exon"]])
                if M.ambiguous_order(t["children"], c["block"]):
                    c["block"] = ["exon", "noncoding_exon"]
            if not M.select(t["children"], c["block"]):
                c["as"] = "feature"
            calls.append(c)
    return {"kind": "bed12", "fmt": fmt, "transcripts": ts, "calls": calls, "dup": True,
            "shuffle_seed": rng.randrange(1 << 30) if rng.random() < 0.5 else None}


def reach_past(rng, t):
    """Lets the coding part and / or the UTRs of a transcript whose exons span it exactly reach past its start, its end
    or both (a CDS continuing beyond the last annotated exon, a UTR record longer than the transcript record)."""
    kids = t["children"]
    cds = sorted([c for c in kids if c["type"] == "CDS"], key=lambda c: c["start"])
    left, right = ("five_prime_UTR", "three_prime_UTR") if t["strand"] == "+" else ("three_prime_UTR", "five_prime_UTR")
    sides = rng.choice([["start"], ["end"], ["start", "end"], ["start", "end"]])
    if t["start"] <= 2:
        sides = ["end"]
    what = rng.choice(["CDS", "CDS", "CDS+UTR", "UTR"])
    done = []
    if "start" in sides:
        lo = t["start"]
        if "CDS" in what:
            cds[0]["start"] = lo = max(1, t["start"] - rng.choice([1, 1, 2, 10, 50, 300]))
            done.append("CDS start")
        if "UTR" in what and lo > 1:
            # the UTR lies before the coding part and starts before the transcript
            s = max(1, lo - rng.choice([1, 2, 10, 50]))
            old = [c for c in kids if c["type"] == left and c["start"] == t["start"]] if "CDS" not in what else []
            if old:
                old[0]["start"] = s
            else:
                kids.append({"type": left, "start": s, "end": lo - 1})
            done.append("UTR start")
    if "end" in sides:
        hi = t["end"]
        if "CDS" in what:
            old_end = cds[-1]["end"]
            cds[-1]["end"] = hi = t["end"] + rng.choice([1, 1, 2, 10, 50, 300])
            for c in kids:
                if c["type"] == "stop_codon" and c["end"] == old_end:
                    c["start"], c["end"] = hi - 2, hi  # the stop codon stays the end of the coding part
            done.append("CDS end")
        if "UTR" in what:
            e = hi + rng.choice([1, 2, 10, 50])
            old = [c for c in kids if c["type"] == right and c["end"] == t["end"] and "CDS" not in what]
            if old:
                old[0]["end"] = e
            else:
                kids.append({"type": right, "start": hi + 1, "end": e})
            done.append("UTR end")
    rng.shuffle(kids)
    t["reach"] = done
    return t


REACH_THICK = [(["CDS"], None), ("CDS", None), (["CDS"], None), (["CDS", "stop_codon"], None),
               (None, ["five_prime_UTR", "three_prime_UTR"]), (None, "five_prime_UTR"), (None, "three_prime_UTR")]


def reach_case(rng, fmt):
    """bed12 for transcripts whose exons span them exactly while CDS / UTR records reach past the transcript."""
    ts, calls = [], []
    for i in range(rng.randrange(1, 4)):
        t = _pick_transcript(rng, i, fmt, lambda t: t["shape"] == "spanning" and any(c["type"] == "CDS" for c in t["children"])
                             and any(c["type"] in ("exon", "noncoding_exon") for c in t["children"]))
        t["seqid"] = t["seqid"] or ts[3 * (i // 3)]["seqid"]
        ts.append(reach_past(rng, t))
        for _ in range(rng.randrange(1, 4)):
            c = call(rng, t, fmt)
            c["t"] = i
            c["block"] = rng.choice([["exon", "noncoding_exon"], ["exon", "noncoding_exon"], "exon", ["exon"]])
            if fmt == "gtf":
                c["block"] = rng.choice(["exon", ["exon"]])
            thick, thin = rng.choice(REACH_THICK)
            if thick and (M.ambiguous_order(t["children"], thick) or M.overlapping(t["children"], thick) and "stop_codon" not in thick):
                thick, thin = ["CDS"], None
            c["thick"], c["thin"] = thick, thin
            if not M.select(t["children"], c["block"]):
                c["as"] = "feature"
            calls.append(c)
    return {"kind": "bed12", "fmt": fmt, "transcripts": ts, "calls": calls, "reach": True,
            "shuffle_seed": rng.randrange(1 << 30) if rng.random() < 0.3 else None}


# --- reference files whose record names are equal ignoring letter case / normalisation form -------------------------
TWIN_NAME_FAMILIES = [
    ["ctgA", "ctga", "CTGA", "CtgA"], ["chrX", "chrx", "CHRX"], ["MT", "Mt", "mt"], ["scaffold_1", "Scaffold_1", "SCAFFOLD_1"],
    ["chrUn_KI270302v1", "chrUn_ki270302v1"], ["2L", "2l"],
    # NFC / NFD (/ compatibility) spellings of one name
    ["contig\u00e9", "contige\u0301"], ["\u00c51", "A\u030a1", "\u212b1"],
    # case pairs outside ASCII
    ["chr\u0130", "chri\u0307", "chrI", "chri"], ["stra\u00dfe", "STRASSE", "strasse"], ["\u03a3x", "\u03c3x", "\u03c2x"],
]


def twin_name_genome(rng, maxlen=400):
    """2-7 records: 1-2 families of 2-4 names that are equal ignoring letter case or Unicode normalisation form, the
    records of a family all of the SAME length with independent bases (so that every slice exists in every twin and
    holds other bases there), plus 0-1 ordinary records; file order random."""
    seqs = []
    for fam in rng.sample(TWIN_NAME_FAMILIES, rng.choice([1, 1, 2])):
        names = rng.sample(fam, rng.randrange(2, min(4, len(fam)) + 1))
        n = rng.choice([20, 61, 120, rng.randrange(30, maxlen)])
        width = rng.choice([60, 60, 70, 13, 100])
        for name in names:
            s = "".join(rng.choice("ACGT") for _ in range(n)) if rng.random() < 0.5 else bases(rng, n)
            seqs.append([name, rng.choice(["", "", "twin record"]), s, width])
    if rng.random() < 0.5:
        seqs.append([rng.choice(["chr1", "other", "scaffold_12"]), "", bases(rng, rng.randrange(20, maxlen)), 60])
    rng.shuffle(seqs)
    return seqs


# --- featuretypes that look alike: letter-case twins, twins differing where the requested type has '_' or '%' ---------
LOOK_FAMILIES = {
    "exon": ["EXON", "Exon", "eXon"],
    "CDS": ["cds", "Cds"],
    "coding_exon": ["coding-exon", "codingXexon", "Coding_exon", "coding.exon", "CODING-EXON"],
    "five_prime_UTR": ["five-prime-UTR", "five_prime_utr", "fiveXprime_UTR", "five-prime_UTR"],
    "UTR": ["utr", "Utr"],
    "ex%n": ["exon", "exZZn", "exn", "EX%N", "ex%N"],
    "CDS%": ["CDS", "CDS_part", "cds%", "CDSx"],
    "noncoding_exon": ["noncoding-exon", "Noncoding_Exon", "noncodingexon"],
}
LOOK_BLOCKS = ["exon", "exon", "coding_exon", "coding_exon", "ex%n", "noncoding_exon", "five_prime_UTR"]
LOOK_THICK = ["CDS", "CDS", "five_prime_UTR", "UTR", "CDS%"]


def look_transcript(rng, idx, block, thick):
    """3-8 disjoint segments; each is a child of the block type or of one of its look-alikes (the outermost two mostly
    of the block type itself: otherwise only a look-alike reaches the transcript boundary); inside segments pieces of
    the thick type or of one of its look-alikes; look-alike pieces also in the gaps."""
    strand = rng.choice(["+", "-"])
    pos = rng.randrange(1, 3000)
    n = rng.randrange(3, 9)
    segs = []
    for _ in range(n):
        ln = rng.choice([2, 3, rng.randrange(4, 300), rng.randrange(4, 300)])
        segs.append([pos, pos + ln - 1])
        pos += ln + rng.choice([0, 1, 2, rng.randrange(3, 500)])
    children = []
    twins_b, twins_t = LOOK_FAMILIES[block], LOOK_FAMILIES[thick]
    boundary = rng.random() < 0.18
    for i, (s, e) in enumerate(segs):
        outer = i in (0, n - 1)
        if outer:
            ty = rng.choice(twins_b) if boundary and rng.random() < 0.6 else block
        else:
            ty = block if rng.random() < 0.5 else rng.choice(twins_b)
        children.append({"type": ty, "start": s, "end": e})
        if rng.random() < 0.6:
            a = rng.randrange(s, e + 1)
            children.append({"type": thick if rng.random() < 0.5 else rng.choice(twins_t), "start": a, "end": rng.randrange(a, e + 1)})
    for (s1, e1), (s2, e2) in zip(segs, segs[1:]):
        if s2 - e1 > 2 and rng.random() < 0.3:
            a = rng.randrange(e1 + 1, s2)
            children.append({"type": rng.choice(twins_b + twins_t), "start": a, "end": rng.randrange(a, s2)})
    tstart, tend = segs[0][0], segs[-1][1]
    rng.shuffle(children)
    tid = rng.choice(ID_FORMS) % idx
    attrs = [["ID", [tid]], ["Parent", ["g%d" % idx]]]
    if rng.random() < 0.5:
        attrs.append(["Name", [rng.choice(["nm", "Abc-RA", "x.1"])]])
    return {"id": tid, "seqid": rng.choice(["chr1", "chr2L", "ctg.7-b"]), "strand": strand, "start": tstart, "end": tend,
            "score": rng.choice([".", ".", "0", "7"]), "type": rng.choice(["mRNA", "transcript"]), "attrs": attrs,
            "children": children, "shape": "look-alike at the boundary" if boundary else "spanning"}


def lookalike_case(rng):
    """bed12 calls on GFF3 transcripts whose children carry, next to the requested block / thick types, look-alike types.
    Requested: the family's base name or (25%) one of the look-alikes itself (then the base name is the look-alike);
    as str or list; 15% a list of the name and one of its twins.  Selections with two children sharing a start or
    overlapping are not asked."""
    ts, calls = [], []
    for i in range(rng.randrange(1, 4)):
        block, thick = rng.choice(LOOK_BLOCKS), rng.choice(LOOK_THICK)
        if thick == block:
            thick = "CDS"
        t = look_transcript(rng, i, block, thick)
        ts.append(t)
        present = sorted(set(c["type"] for c in t["children"]))
        for _ in range(rng.randrange(2, 5)):
            b = [block]
            if rng.random() < 0.25:
                b = [rng.choice([x for x in present if x in LOOK_FAMILIES[block]] or [block])]
            elif rng.random() < 0.15:
                b = [block, rng.choice(LOOK_FAMILIES[block])]
            k = [thick]
            if rng.random() < 0.25:
                k = [rng.choice([x for x in present if x in LOOK_FAMILIES[thick]] or [thick])]
            elif rng.random() < 0.1:
                k = [thick, rng.choice(LOOK_FAMILIES[thick])]
            if (M.ambiguous_order(t["children"], b) or M.overlapping(t["children"], b) or M.ambiguous_order(t["children"], k)
                    or M.overlapping(t["children"], k)):
                continue
            c = {"t": i, "as": rng.choice(["id", "feature"]), "block": as_argument(rng, b), "thick": as_argument(rng, k),
                 "thin": None, "name_field": rng.choice(["ID", "Name", "absent_key"]), "color": rng.choice(COLORS),
                 "to_bed12": rng.random() < 0.3}
            if not M.select(t["children"], c["block"]):
                c["as"] = "feature"
            calls.append(c)
    return {"kind": "bed12", "fmt": "gff3", "transcripts": ts, "calls": calls, "look": True,
            "shuffle_seed": rng.randrange(1 << 30) if rng.random() < 0.3 else None}


# --- block / thick children recorded on another seqid than the transcript ---------------------------------------------
ALT_SEQIDS = ["chr1_alt", "chrY", "chr1_KI270706v1_random", "ctg.7-b_hap2", "chrUn"]


def altseq_case(rng):
    """GFF3 transcripts (explicit transcript records) some of whose children are recorded on ANOTHER seqid than the
    transcript (alternate contig / the other sex chromosome): which child: the first block, the last block, an inner one,
    a thick feature, or a random subset; coordinates, strand and Parent as usual."""
    case = bed_case(rng, "gff3")
    for t in case["transcripts"]:
        ch = t["children"]
        if not ch:
            t["alt"] = []
            continue
        order = sorted(range(len(ch)), key=lambda i: ch[i]["start"])
        exons = [i for i in order if ch[i]["type"] in ("exon", "noncoding_exon")]
        cds = [i for i in order if ch[i]["type"] == "CDS"]
        mode = rng.choice(["first block", "last block", "inner block", "thick first", "thick last", "subset", "all", "subset",
                           "beyond"])
        picked = []
        if mode == "first block" and exons:
            picked = [exons[0]]
        elif mode == "last block" and exons:
            picked = [exons[-1]]
        elif mode == "inner block" and len(exons) >= 3:
            picked = [rng.choice(exons[1:-1])]
        elif mode == "thick first" and cds:
            picked = [cds[0]]
        elif mode == "thick last" and cds:
            picked = [cds[-1]]
        elif mode == "all":
            picked = list(range(len(ch)))
        elif mode == "beyond" and exons:
            # one more block feature, recorded on the other seqid, lying past the transcript's end / before its start
            if rng.random() < 0.5 or t["start"] < 12:
                s0 = t["end"] + rng.choice([1, 2, 40])
                ch.append({"type": ch[exons[0]]["type"], "start": s0, "end": s0 + rng.randrange(0, 30)})
            else:
                e0 = t["start"] - rng.choice([1, 2, 5])
                ch.append({"type": ch[exons[0]]["type"], "start": max(1, e0 - rng.randrange(0, 5)), "end": e0})
            picked = [len(ch) - 1]
        if not picked:
            mode = "subset"
            picked = [i for i in range(len(ch)) if rng.random() < 0.4] or [rng.randrange(len(ch))]
        alt = rng.choice([s for s in ALT_SEQIDS if s != t["seqid"]])
        for i in picked:
            ch[i]["seqid"] = alt if rng.random() < 0.8 else rng.choice([s for s in ALT_SEQIDS if s != t["seqid"]])
        t["alt"] = [mode]
    case["alt"] = True
    return case


# --- bed12 given a Feature object that is not a fresh copy of the database record ------------------------------------
def new_extent(rng, t):
    """Other coordinates for the transcript record: exactly the span of its exons, or off by one / by more on either end."""
    ex = [c for c in t["children"] if c["type"] in ("exon", "noncoding_exon")]
    lo = min(c["start"] for c in ex) if ex else t["start"]
    hi = max(c["end"] for c in ex) if ex else t["end"]
    for _ in range(30):
        r = rng.random()
        if r < 0.45:
            s, e = lo, hi
        elif r < 0.6:
            s, e = max(1, lo - rng.choice([1, 2, 50])), hi
        elif r < 0.75:
            s, e = lo, hi + rng.choice([1, 2, 50])
        elif r < 0.9:
            s, e = max(1, t["start"] - rng.randrange(0, 60)), t["end"] + rng.randrange(0, 60)
        else:
            s = rng.randrange(max(1, lo - 5), hi + 1)
            e = rng.randrange(s, hi + 6)
        if (s, e) != (t["start"], t["end"]):
            return s, e
    return t["start"], t["end"] + 1


def stale_case(rng):
    """A GFF3 database, one transcript of it, and a Feature object of that transcript that is not a fresh copy of the
    record: how = replace (fetched, then the record replaced with other coordinates through update(merge_strategy=
    'replace')), older_handle (the same on a file database, object fetched through a handle opened before the replace,
    bed12 asked of both handles), edited (start/end of the fetched object assigned by the caller, database untouched)."""
    case = bed_case(rng, "gff3")
    ti = rng.randrange(len(case["transcripts"]))
    t = case["transcripts"][ti]
    how = rng.choice(["replace", "replace", "older_handle", "edited"])
    s, e = new_extent(rng, t)
    case["calls"] = [c for c in case["calls"] if c["t"] == ti][:2]
    for c in case["calls"]:
        c["to_bed12"] = False
    case.update({"kind": "stale", "how": how, "t": ti, "new": [s, e], "file": how == "older_handle" or rng.random() < 0.2,
                 "new_score": rng.choice([None, None, "5", "."])})
    return case
