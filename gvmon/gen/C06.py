"""
Generators for C06: feature sets on bin-boundary coordinates (DESIGN section 3 (d)) and region/limit queries.
Everything is a deterministic function of the arguments (random.Random(seed)); never imports gffutils.
"""
import random

from gvmon.models import binspec as S

LIMIT = S.LIMIT
SEQIDS = ["chr1", "Chr1", "chré", "ctg.7-b", "2"]
TYPES = ["gene", "mRNA", "exon", "CDS", "Gene"]
STRANDS = ["+", "-", "."]
MS = [0, 1, 2, 3, 7, 8, 9, 63, 64, 65, 511, 512, 513, 4094, 4095, 4096]

_VALS = []


def boundary_values():
    """Every value >= 1 within +-2 of m*2^(17+3k) (k = 0..4), of 2^29 and of 2^29+2^17, plus a few fixed others."""
    if _VALS:
        return _VALS
    vals = set()
    for k in range(5):
        sz = S.size(k)
        for m in MS:
            if m * sz <= LIMIT:
                for d in (-2, -1, 0, 1, 2):
                    vals.add(m * sz + d)
    for base in (0, LIMIT, LIMIT + 2 ** 17):
        for d in (-2, -1, 0, 1, 2):
            vals.add(base + d)
    vals.update([5, 1000, 2 ** 17 + 777, 2 ** 28 + 12345, 2 ** 30, 2 ** 31 + 3])
    _VALS.extend(sorted(v for v in vals if v >= 1))
    return _VALS


def near_boundary(x):
    if x is None:
        return False
    if x >= LIMIT - 2:
        return True
    for k in range(5):
        r = x % S.size(k)
        if r <= 2 or r >= S.size(k) - 2:
            return True
    return False


def boundary_class(x):
    """Coarse class of a query end for the distinct-case key."""
    if x is None:
        return "none"
    if x > LIMIT:
        return ">2^29"
    if x == LIMIT:
        return "=2^29"
    if x >= LIMIT - 2:
        return "2^29-"
    for k in (4, 3, 2, 1, 0):
        r = x % S.size(k)
        if r <= 2:
            return "k%d+%d" % (k, r)
        if r >= S.size(k) - 2:
            return "k%d-%d" % (k, S.size(k) - r)
    return "interior"


def _coords(rng, vals, focus):
    r = rng.random()
    if r < 0.70:
        a = rng.choice(focus)
    elif r < 0.90:
        a = rng.choice(vals)
    else:
        a = rng.randrange(1, LIMIT + 2 ** 18)
    r = rng.random()
    if r < 0.25:
        b = a + rng.randrange(0, 5)
    elif r < 0.50:
        b = rng.choice(focus)
    elif r < 0.60:
        b = rng.choice(vals)
    elif r < 0.80:
        b = a + rng.randrange(0, 2 ** 17)
    elif r < 0.92:
        b = a + rng.randrange(0, 2 ** 23)
    else:
        b = a + rng.randrange(0, 2 ** 28)
    a, b = max(1, a), max(1, b)
    return (a, b) if a <= b else (b, a)


CASE_PAIRS = [("chrA", "chra"), ("pA", "pa"), ("Chr1", "chr1"), ("ctgX", "CTGX"), ("scaffold_é", "Scaffold_é")]
SMALL = 2 ** 17          # the first finest bin is [1, SMALL]


def _binend_coords(rng, ends):
    """Coordinates of the 'binends' flavour: small features inside the first 128 kb, features around the last base
    B = m*2^(17+3k) of a bin of every level (ending exactly on B, one before/after, starting on B+1, filling the bin)."""
    r = rng.random()
    if r < 0.38:
        a = rng.choice([1, 1, 2, rng.randrange(1, SMALL + 1), rng.randrange(1, SMALL + 1), SMALL - rng.randrange(0, 40)])
        b = a + rng.choice([0, 1, 10, 500, rng.randrange(0, 3000)])
        if rng.random() < 0.25:
            b = SMALL + rng.choice([-1, 0, 0, 1])
        return a, max(a, b)
    if r < 0.88:
        k = rng.choice([0, 0, 1, 1, 2, 2, 3, 3, 4])
        sz = S.size(k)
        B = rng.choice(ends[k])
        ln = rng.choice([0, 1, 7, 1000, rng.randrange(0, sz), rng.randrange(0, 2 ** 17)])
        form = rng.randrange(7)
        if form <= 1:
            a, b = B - ln, B                  # ends exactly on the last base of the bin
        elif form == 2:
            a, b = B - ln, B - 1
        elif form == 3:
            a, b = B - ln, B + 1              # straddles
        elif form == 4:
            a, b = B + 1, B + 1 + ln          # first base of the next bin
        elif form == 5:
            a, b = B - sz + 1, B              # exactly the bin
        else:
            a, b = B, B + ln
        a = max(1, a)
        return a, max(a, b)
    return None


def make_set(seed, n=300, nhubs=12, flavour=None):
    """A feature set: {"features": [...], "text": GFF3, "focus": [...], "seqids": [...]}.

    flavour None: boundary-directed coordinates (see _coords).
    flavour "case": the seqids are pairs differing only in letter case; about half of the features have a twin with
        the same coordinates (and the same Parent values) on the other spelling.
    flavour "binends": small features inside the first 128 kb and features around bin ends of every level.
    flavour "idless": boundary-directed coordinates; about 35% of the non-hub features are written WITHOUT an ID attribute
        (model id: '<featuretype>_<n>', n counting the id-less lines of that featuretype in file order), and about half of
        those are written 2-4 times byte-identically (same seqid, coordinates, strand, featuretype, Parent values):
        "twins" maps the id of every such feature to the text of its line.
    flavour "reversed": boundary-directed coordinates; about 35% of the features (parent features too) are STORED with
        start > end: insertion sites written start = end + 1 (e.g. 1001..1000) and origin-spanning features of a
        circular sequence (e.g. 4500..300, also across bin boundaries and 2**29)."""
    rng = random.Random(seed * 7919 + 13)
    vals = boundary_values()
    top = [v for v in vals if LIMIT - 2 <= v <= LIMIT + 2]
    focus = sorted(set(rng.sample(vals, 22) + rng.sample(top, 3) + [rng.randrange(1, LIMIT) for _ in range(2)]))
    seqids = rng.sample(SEQIDS, rng.choice([2, 3, 3, 4]))
    partner, ends = {}, None
    if flavour == "case":
        pairs = rng.sample(CASE_PAIRS, rng.choice([1, 2, 2]))
        seqids = [s for pr in pairs for s in (pr if rng.random() < 0.5 else pr[::-1])]
        for a, b in pairs:
            partner[a], partner[b] = b, a
        n_all, n = n, (2 * n) // 3
    elif flavour == "idless":
        n_all, n = n, (3 * n) // 5
    elif flavour == "binends":
        ends = []
        for k in range(5):
            nb = S.NBINS[k]
            ms = {1, nb} | {rng.randrange(1, nb + 1) for _ in range(5)} | {rng.choice([2, 8, 9, 64, 65, 512])}
            ends.append(sorted(m * S.size(k) for m in ms if m <= nb))
        seqids = rng.sample(SEQIDS, 2)
    weights = [0.55] + [0.45 / (len(seqids) - 1)] * (len(seqids) - 1)
    feats = []
    hubs = []
    for i in range(n):
        hub = i < nhubs
        a, b = _coords(rng, vals, focus)
        if ends is not None:
            a, b = _binend_coords(rng, ends) or (a, b)
        if flavour == "reversed" and rng.random() < 0.35:
            if a < b and rng.random() < 0.5:
                a, b = b, a                       # runs through the origin of a circular sequence
            else:
                x = rng.choice([a, b])
                a, b = x + 1, x                   # a site between two bases
        f = {
            "id": ("h%d" if hub else "f%d") % i,
            "seqid": rng.choices(seqids, weights)[0],
            "featuretype": rng.choice(["gene", "mRNA"]) if hub else rng.choice(TYPES),
            "strand": rng.choice(STRANDS),
            "start": a, "end": b, "parents": [],
        }
        if hub:
            hubs.append(f["id"])
        elif rng.random() < 0.65:
            # most children of a hub live on the hub's seqid, so that limit= queries are not empty
            k = rng.choice([1, 1, 2, 3])
            f["parents"] = sorted(rng.sample(hubs, k))
            if rng.random() < 0.8:
                f["seqid"] = [h for h in feats if h["id"] == f["parents"][0]][0]["seqid"]
        feats.append(f)
    if flavour == "case":
        # twins: same coordinates, featuretype, Parent values - on the seqid that differs only in letter case
        for f in list(feats):
            if len(feats) < n_all and rng.random() < 0.6:
                t = dict(f, id=f["id"] + "t", seqid=partner[f["seqid"]], parents=list(f["parents"]))
                if rng.random() < 0.3:
                    t["strand"] = rng.choice(STRANDS)
                feats.append(t)
        n = len(feats)
    if flavour == "idless":
        for f in list(feats):
            if f["id"] in hubs or rng.random() >= 0.35:
                continue
            f["noid"] = True
            if rng.random() < 0.55:
                for _ in range(rng.choice([1, 1, 2, 3])):
                    if len(feats) < n_all:
                        feats.append(dict(f, parents=list(f["parents"])))
        n = len(feats)
    if ends is not None:
        used = sorted({f["start"] for f in feats} | {f["end"] for f in feats})
        focus = sorted(set(rng.sample(used, min(len(used), 24)) + [LIMIT - 1, LIMIT, 1]))
    # input order is not hub-first
    order = list(range(n))
    rng.shuffle(order)
    feats = [feats[i] for i in order]
    twins = {}
    if flavour == "idless":
        # the id under which a line without ID attribute is stored: '<featuretype>_<n>' in file order
        count, texts = {}, {}
        for f in feats:
            if f.get("noid"):
                count[f["featuretype"]] = count.get(f["featuretype"], 0) + 1
                f["id"] = "%s_%d" % (f["featuretype"], count[f["featuretype"]])
                texts.setdefault(line_of(f), []).append(f["id"])
        twins = {i: t for t, ids in texts.items() if len(ids) > 1 for i in ids}
    return {"features": feats, "text": text_of(feats), "focus": focus, "seqids": seqids, "hubs": hubs,
            "partner": partner, "binends": ends, "flavour": flavour, "twins": twins}


def line_of(f):
    attrs = [] if f.get("noid") else ["ID=%s" % f["id"]]
    if f["parents"]:
        attrs.append("Parent=" + ",".join(f["parents"]))
    if not attrs:
        attrs.append("Name=anon")
    return "\t".join([f["seqid"], "gv", f["featuretype"], str(f["start"]), str(f["end"]), ".", f["strand"], ".",
                      ";".join(attrs)])


def text_of(feats):
    return "\n".join(line_of(f) for f in feats) + "\n"


NEW_SEQIDS = ["ctgNEW", "chrUn_9", "3", "Chr1_alt"]


def make_update(seed, SET):
    """What a second FeatureDB object does to the database file made from SET (all ids carry an ID attribute):
    {"new_seqid": a seqid no stored feature has, "steps": [{"add": [features], "delete": [ids]}, ...]}.

    Step 1 always adds features on the brand-new seqid AND on existing seqids (children of stored parent features among
    them, at coordinates of stored features and on bin boundaries); later steps add more and delete stored features
    (never a parent feature), some of them added one step earlier."""
    rng = random.Random(seed * 104729 + 7)
    vals = boundary_values()
    new_seqid = rng.choice([s for s in NEW_SEQIDS if s not in SET["seqids"]])
    old = SET["features"]
    hubs = list(SET["hubs"])
    where = {f["id"]: f["seqid"] for f in old}
    live = [f["id"] for f in old if f["id"] not in hubs]
    steps, k = [], 0
    for si in range(rng.choice([1, 2, 2, 3])):
        add = []
        for _ in range(rng.randrange(12, 40)):
            k += 1
            r = rng.random()
            if r < 0.4:
                m = rng.choice(old)
                a, b = m["start"] + rng.choice([-1, 0, 0, 1]), m["end"] + rng.choice([-1, 0, 0, 1])
                a = max(1, a)
                b = max(a, b)
            else:
                a, b = _coords(rng, vals, SET["focus"])
            f = {"id": "u%d" % k, "seqid": new_seqid if rng.random() < 0.45 else rng.choice(SET["seqids"]),
                 "featuretype": rng.choice(TYPES), "strand": rng.choice(STRANDS), "start": a, "end": b, "parents": []}
            r = rng.random()
            if r < 0.12:
                f["id"] = "uh%d" % k
                f["featuretype"] = rng.choice(["gene", "mRNA"])
                hubs.append(f["id"])
                where[f["id"]] = f["seqid"]
            elif r < 0.65:
                f["parents"] = sorted(rng.sample(hubs, rng.choice([1, 1, 2])))
                if rng.random() < 0.6:
                    f["seqid"] = where[f["parents"][0]]
            add.append(f)
        delete = []
        if si > 0 or rng.random() < 0.5:
            delete = rng.sample(live, min(len(live), rng.randrange(1, 9)))
            live = [i for i in live if i not in delete]
        live += [f["id"] for f in add if not f["id"].startswith("uh")]
        steps.append({"add": add, "delete": delete})
    return {"new_seqid": new_seqid, "steps": steps, "hubs": hubs}


REGION_FORMS = [("tuple", 20), ("string", 14), ("feature", 16), ("kw", 14), ("kw-noseqid", 10), ("start-only", 9),
                ("end-only", 9), ("start-only-noseqid", 4), ("end-only-noseqid", 4)]
LIMIT_FORMS = [("tuple", 60), ("string", 40)]
APIS = [("region", 50), ("all_features", 16), ("features_of_type", 10), ("children", 14), ("parents", 10)]


def _weighted(rng, table):
    return rng.choices([k for k, _ in table], [w for _, w in table])[0]


def _value(rng, SET, lo=None, hi=None):
    """A coordinate from the focus / boundary / random pools, optionally >= lo or <= hi."""
    for _ in range(6):
        r = rng.random()
        v = rng.choice(SET["focus"]) if r < 0.6 else (rng.choice(boundary_values()) if r < 0.9 else
                                                       rng.randrange(1, LIMIT + 2 ** 18))
        if (lo is None or v >= lo) and (hi is None or v <= hi):
            return v
    if lo is not None:
        return lo + rng.choice([0, 1, 2, 1000, 2 ** 17, 2 ** 26])
    return max(1, hi - rng.choice([0, 1, 2, 1000, 2 ** 17, 2 ** 26]))


def _interval(rng, SET, pool, within):
    r = rng.random()
    if pool and r < 0.6:
        f = rng.choice(pool)
        d = rng.choice([-1, 0, 0, 1])
        if within:
            m = rng.random()
            a = f["start"] + d if m < 0.7 else _value(rng, SET, hi=f["start"])
            b = f["end"] + rng.choice([-1, 0, 0, 1]) if m > 0.3 else _value(rng, SET, lo=f["end"])
        elif rng.random() < 0.5:
            a = f["end"] + d
            b = _value(rng, SET, lo=max(1, a))
        else:
            b = f["start"] + d
            a = _value(rng, SET, hi=max(1, b))
    elif r < 0.7:
        # ends around the 2**29 limit
        b = LIMIT + rng.choice([-2, -1, 0, 0, 0, 1, 2, 2 ** 17, 2 ** 29])
        a = _value(rng, SET, hi=b)
    else:
        a, b = _value(rng, SET), _value(rng, SET)
    a, b = max(1, a), max(1, b)
    return (a, b) if a <= b else (b, a)


TWO_BOUND_REGION_FORMS = [(f, w) for f, w in REGION_FORMS if "only" not in f]


def _wide_interval(rng, pool):
    """start in 1..2^17, span 100-500 Mb, end below 2^29 (often on/next to an end of a stored feature)."""
    small = [f for f in pool if f["start"] <= SMALL]
    r = rng.random()
    if small and r < 0.45:
        a = rng.choice(small)["start"] + rng.choice([-1, 0, 0, 1])
    elif r < 0.75:
        a = rng.choice([1, 1, 2, SMALL - 1, SMALL, rng.randrange(1, SMALL + 1)])
    else:
        a = rng.randrange(1, SMALL + 1)
    a = min(max(1, a), SMALL)
    lo = a + 100 * 10 ** 6
    hi = min(a + 500 * 10 ** 6, LIMIT - 1)
    far = [f for f in pool if lo <= f["end"] <= hi]
    r = rng.random()
    if far and r < 0.4:
        b = rng.choice(far)["end"] + rng.choice([-1, 0, 0, 1])
    elif r < 0.55:
        b = a + rng.randrange(100 * 10 ** 6, 104 * 10 ** 6)     # just below / above the 900-bin threshold
    elif r < 0.7:
        b = hi - rng.choice([0, 0, 1, 2, 2 ** 17])
    else:
        b = rng.randrange(lo, hi + 1)
    return a, min(max(b, lo), hi)


def _binend_interval(rng, SET, pool, k):
    """end = last base of a level-k bin (a multiple of 2^(17+3k)), start anywhere at or before it."""
    sz = S.size(k)
    ends = (SET.get("binends") or [None] * 5)[k]
    on = sorted({f["end"] for f in pool if f["end"] % sz == 0 and f["end"] < LIMIT})
    r = rng.random()
    if on and r < 0.6:
        b = rng.choice(on)
    elif ends and r < 0.85:
        b = rng.choice([e for e in ends if e < LIMIT] or [sz])
    else:
        b = sz * rng.randrange(1, S.NBINS[k])
    hit = [f for f in pool if f["end"] == b]
    r = rng.random()
    if hit and r < 0.4:
        a = rng.choice(hit)["start"] + rng.choice([-1, 0, 0, 1])
    elif r < 0.55:
        a = b - sz + 1                                           # exactly the bin
    elif r < 0.65:
        a = b - sz + rng.choice([0, 2])
    elif r < 0.75:
        a = b
    elif r < 0.85:
        a = rng.choice([1, 2, SMALL, SMALL + 1])
    else:
        a = rng.randrange(1, b + 1)
    return min(max(1, a), b), b


def _reversed_interval(rng, SET, pool, within):
    """A query interval (1 <= a <= b) placed relative to a stored feature with start > end: completely_within holds iff
    a <= start and end <= b (the telling answers have b < start), overlap holds iff start <= b and end >= a."""
    rev = [f for f in pool if f["start"] > f["end"]]
    if not rev:
        return _interval(rng, SET, pool, within)
    f = rng.choice(rev)
    s, e = f["start"], f["end"]
    r = rng.random()
    if within:
        if r < 0.3:
            b = e + rng.choice([-1, 0, 0, 1])
        elif r < 0.55:
            b = s + rng.choice([-2, -1, -1, 0, 1])
        elif r < 0.85:
            b = rng.randrange(e, s)
        else:
            b = _value(rng, SET, lo=e)
        b = max(1, b)
        r = rng.random()
        if r < 0.3:
            a = e + rng.choice([-1, 0, 1])
        elif r < 0.5:
            a = 1
        elif r < 0.7:
            a = s + rng.choice([-1, 0, 0, 1])
        else:
            a = rng.randrange(1, b + 1)
    else:
        if r < 0.5:
            a = e + rng.choice([-1, 0, 0, 1])
        elif r < 0.6:
            a = 1
        elif r < 0.85:
            a = rng.randrange(1, max(1, e) + 1)
        else:
            a = s + rng.choice([-1, 0, 1])
        r = rng.random()
        if r < 0.6:
            b = s + rng.choice([-1, 0, 0, 1])
        elif r < 0.85:
            b = _value(rng, SET, lo=s)
        else:
            b = e + rng.choice([0, 1])
    a, b = max(1, a), max(1, b)
    return (a, b) if a <= b else (b, a)


BIG_TYPES = ["exon", "CDS", "match", "match_part", "five_prime_UTR"]


def make_big(seed, n_in=10600):
    """One LARGE answer: more than 10 000 features inside [lo, hi] on one seqid; sites hold 1-5 records with identical
    (start, end) (exon / CDS / match on the same coordinates), neighbouring sites overlap, the same coordinates also
    recur at other sites; a few hundred features lie outside the interval or on another seqid.
    -> {"features", "text", "seqid", "other", "lo", "hi", "focus", "seqids", "hubs"}"""
    rng = random.Random(seed * 15485863 + 5)
    seqid, other = rng.choice([("ctgBig", "ctgSmall"), ("chrB", "chrb"), ("7", "17")])
    lo = rng.choice([1000, 2 ** 17 - 50000, 3 * 2 ** 17 - 777, 2 ** 20 - 100000])
    feats, x, k = [], lo, 0
    sites = []
    while len(feats) < n_in:
        x += rng.choice([0, 1, 7, 40, 50, 50, 120])
        ln = rng.choice([0, 30, 30, 30, 99, rng.randrange(0, 400)])
        if sites and rng.random() < 0.05:
            a, b = rng.choice(sites[-50:])               # the same coordinates once more, at a later file position
        else:
            a, b = x, x + ln
            sites.append((a, b))
        strand = rng.choice(STRANDS)
        for ft in rng.sample(BIG_TYPES, rng.choice([1, 2, 2, 3, 3, 3, 4, 5])):
            k += 1
            feats.append({"id": "b%d" % k, "seqid": seqid, "featuretype": ft, "start": a, "end": b, "parents": [],
                          "strand": strand if rng.random() < 0.9 else rng.choice(STRANDS)})
    hi = max(f["end"] for f in feats)
    inside = len(feats)
    for _ in range(150):                                  # the same seqid, outside [lo, hi] (touching it, too)
        k += 1
        if rng.random() < 0.5:
            b = lo - rng.choice([1, 1, 2, 10, rng.randrange(1, lo)])
            a = max(1, b - rng.choice([0, 5, 200]))
            b = max(a, b)
        else:
            a = hi + rng.choice([1, 1, 2, 10, rng.randrange(1, 10 ** 6)])
            b = a + rng.choice([0, 5, 200])
        feats.append({"id": "o%d" % k, "seqid": seqid, "featuretype": rng.choice(BIG_TYPES), "start": a, "end": b,
                      "parents": [], "strand": rng.choice(STRANDS)})
    for _ in range(120):                                  # another seqid, same coordinates
        k += 1
        m = rng.choice(feats[:inside])
        feats.append(dict(m, id="x%d" % k, seqid=other, parents=[]))
    rng.shuffle(feats)
    used = sorted({f["start"] for f in feats[:400]} | {f["end"] for f in feats[:400]})
    return {"features": feats, "text": text_of(feats), "seqid": seqid, "other": other, "lo": lo, "hi": hi,
            "focus": used[:40], "seqids": [seqid, other], "hubs": [], "inside": inside}


def big_queries(seed, BIG):
    """The queries of a 'big' case: windows holding more than 10 000 features in every region form, by all_features and
    features_of_type(limit=); `slow` = (big query, small query, chunk seed) triples for slow / interleaved consumption."""
    rng = random.Random(seed * 32452843 + 11)
    seqid, lo, hi = BIG["seqid"], BIG["lo"], BIG["hi"]
    mids = sorted(f["start"] for f in BIG["features"] if f["seqid"] == seqid and lo <= f["start"] <= hi)

    def q(api, form, a, b, within, **kw):
        d = {"api": api, "form": form, "within": within, "id": None, "level": None, "strand": None, "fstrand": None,
             "ft": None, "ft_form": None, "seqid": None if form.endswith("noseqid") else seqid,
             "start": None if form.startswith("end-only") else a, "end": None if form.startswith("start-only") else b}
        d.update(kw)
        return d

    def window():
        r = rng.random()
        if r < 0.3:
            return max(1, lo - rng.choice([0, 1, 500])), hi + rng.choice([0, 1, 10 ** 6, LIMIT])
        if r < 0.5:
            return lo, hi
        # cut off up to 1.5% of the sites at either side: the answer stays large, its first / last rows change
        a = mids[rng.randrange(0, len(mids) // 70)] + rng.choice([-1, 0, 1])
        b = mids[-1 - rng.randrange(0, len(mids) // 70)] + rng.choice([-1, 0, 1, 30])
        return a, b

    qs = []
    forms = [("region", f) for f, _ in REGION_FORMS] + [("all_features", "tuple"), ("all_features", "string"),
                                                        ("features_of_type", "tuple")]
    for api, form in forms:
        for within in ((False, True) if api != "features_of_type" and "noseqid" not in form else (rng.random() < 0.5,)):
            a, b = window()
            kw = {}
            if form == "feature":
                kw["fstrand"] = rng.choice(STRANDS)
            if api == "features_of_type":
                kw.update(ft=sorted(BIG_TYPES), ft_form=rng.choice(["list", "tuple", "set"]))
            qs.append(q(api, form, a, b, within, **kw))
    slow = []
    for mode in ("slow", "slow", "zip"):
        a, b = window()
        big = q("region", rng.choice(["tuple", "string", "kw", "feature"]), a, b, rng.random() < 0.5)
        if big["form"] == "feature":
            big["fstrand"] = "."
        if mode == "zip":
            a2, b2 = window()
            api2 = rng.choice(["region", "all_features"])
            second = q(api2, "tuple", a2, b2, rng.random() < 0.5)
        else:
            m = rng.choice(mids)
            api2 = rng.choice(["region", "all_features", "region"])
            second = q(api2, rng.choice(["tuple", "string"]), max(1, m - rng.choice([0, 10, 300])), m + rng.choice([0, 30, 2000]),
                       rng.random() < 0.5)
        slow.append({"mode": mode, "big": big, "second": second, "chunks": rng.randrange(10 ** 9)})
    return qs, slow


def gen_query(rng, SET, mode=None):
    """One query (JSON-able dict) against the feature set SET.

    mode None: see RULE of the check; "wide": two-bound query of span 100-500 Mb starting inside the first 128 kb
    (85% completely_within); "binend": two-bound query whose end is the last base of a bin of level 0-3; "reversed":
    two-bound query placed relative to a stored feature with start > end; "declared": query (any form) whose end lies
    beyond the end a ##sequence-region line of the file declares for the queried seqid (SET["declared"])."""
    feats = SET["features"]
    api = _weighted(rng, APIS)
    within = rng.random() < (0.85 if mode == "wide" else 0.5)
    q = {"api": api, "within": within, "id": None, "strand": None, "fstrand": None}
    pool_all = feats
    if api == "children":
        q["id"] = rng.choice(SET["hubs"])
        pool_all = [f for f in feats if q["id"] in f["parents"]]
    elif api == "parents":
        kids = [f for f in feats if f["parents"]]
        kid = rng.choice(kids)
        q["id"] = kid["id"]
        pool_all = [f for f in feats if f["id"] in kid["parents"]]
    q["level"] = rng.choice([None, None, 1]) if api in ("children", "parents") else None
    # seqid
    if pool_all and rng.random() < 0.93:
        seqid = rng.choice(pool_all)["seqid"]
    else:
        seqid = rng.choice(SET["seqids"] + ["chrNone"])
    q["form"] = _weighted(rng, (REGION_FORMS if mode in (None, "declared") else TWO_BOUND_REGION_FORMS) if api == "region"
                          else LIMIT_FORMS)
    q["seqid"] = None if q["form"].endswith("noseqid") else seqid
    pool = [f for f in pool_all if q["seqid"] is None or f["seqid"] == q["seqid"]]
    if mode == "wide":
        a, b = _wide_interval(rng, pool)
        q["tag"] = "wide"
    elif mode == "binend":
        k = rng.randrange(4)
        a, b = _binend_interval(rng, SET, pool, k)
        q["tag"] = "binend:%d" % k
    elif mode == "reversed":
        a, b = _reversed_interval(rng, SET, pool, within)
        q["tag"] = "reversed"
    elif mode == "declared":
        a, b = _declared_interval(rng, SET, pool, within, q["seqid"])
        q["tag"] = "declared"
    else:
        a, b = _interval(rng, SET, pool, within)
    q["start"] = None if q["form"].startswith("end-only") else a
    q["end"] = None if q["form"].startswith("start-only") else b
    if api in ("region", "all_features", "features_of_type"):
        q["strand"] = rng.choice([None, None, None, "+", "-", "."])
    if q["form"] == "feature":
        q["fstrand"] = rng.choice(STRANDS)
        if rng.random() < 0.35:
            # explicit strand= equal to the query feature's strand: both readings of the Feature form coincide
            q["strand"] = q["fstrand"]
    # featuretype restriction
    r = rng.random()
    if api == "features_of_type":
        r = 0.5 + r / 2
    if r < 0.5:
        q["ft"], q["ft_form"] = None, None
    else:
        q["ft_form"] = rng.choice(["str", "str", "list", "tuple", "set"])
        k = 1 if q["ft_form"] == "str" else rng.choice([1, 2, 2, 3])
        q["ft"] = sorted(rng.sample(TYPES + ["absent_type"], k))
        if q["ft_form"] in ("list", "tuple") and rng.random() < 0.3:
            # an iterable that names a featuretype more than once (['exon', 'CDS', 'exon'])
            q["ft"] = q["ft"] + [rng.choice(q["ft"]) for _ in range(rng.choice([1, 1, 2]))]
            rng.shuffle(q["ft"])
    return q


# -- workload classes added in round 5 ------------------------------------------------------------------------------------
# (a) rows REWRITTEN after the import with other coordinates (merge_strategy='replace', add_relation(parent_func/child_func))
SHIFTS = [m * 2 ** 17 for m in (1, 1, 2, 7, 8, 9, 64)] + [2 ** 20, 2 ** 23, 2 ** 26]


def bin_key(a, b):
    """(level, index) of the smallest bin of the scheme that contains [a, b]; "out" beyond the scheme."""
    if not (1 <= a <= b <= LIMIT):
        return "out"
    k = S.smallest_level_containing(a, b)
    return (k, (a - 1) >> (17 + 3 * k))


def moved_coords(rng, a, b):
    """Other coordinates for a stored feature [a, b]: shifted across multiples of 2^17 and of the coarser bin sizes, grown
    into a coarser bin, shrunk into a finer one, put on / across a bin end of any level, across 2^29 (12%: a move inside the
    same bin)."""
    if a > b:
        a, b = b, a
    ln = b - a
    r = rng.random()
    if r < 0.34:
        d = rng.choice(SHIFTS) * rng.choice([1, 1, -1])
        if a + d < 1:
            d = -d
        na, nb = a + d, b + d
    elif r < 0.46:
        na, nb = a, a + rng.choice([2 ** 17, 2 ** 18 + 5, 2 ** 20, 2 ** 23 + 77, 2 ** 26])         # grows into a coarser bin
    elif r < 0.58:
        na = a + rng.choice([0, 0, 1, 2 ** 17, 2 ** 20])
        nb = na + rng.choice([0, 1, 30, 999])                                                 # shrinks into a finer bin
    elif r < 0.78:
        k = rng.choice([0, 0, 1, 1, 2, 3, 4])
        B = S.size(k) * rng.randrange(1, S.NBINS[k] + 1)                                       # last base of a level-k bin
        ln2 = min(ln, 5000) if rng.random() < 0.5 else rng.choice([0, 1, 500, 2 ** 17])
        form = rng.randrange(4)
        if form == 0:
            na, nb = B - ln2, B
        elif form == 1:
            na, nb = B + 1, B + 1 + ln2
        elif form == 2:
            na, nb = B - ln2, B + 1
        else:
            na, nb = B - S.size(k) + 1, B
    elif r < 0.88:
        na = LIMIT + rng.choice([-2 ** 17, -5, -1, 0, 1, 2 ** 17])
        nb = na + rng.choice([0, 3, 1000, 2 ** 17])
    else:
        d = rng.choice([1, 1, 2, -1])
        na, nb = a + d, b + d                                                                  # (control) the same bin, mostly
    na = max(1, na)
    return na, max(na, nb)


def make_rewrite(seed, SET):
    """How the rows of the database made from SET are rewritten after (or during) the import, and what the file should hold
    afterwards.  -> {"mode", "steps": [...], "final": model features, "old": {id: [start, end]} of every rewritten row}

    mode "create":  ONE create_db(merge_strategy='replace') over the original lines followed by lines that repeat an ID with
                    other coordinates (some IDs twice: the last line counts);
         "update":  create_db over the original lines, then 1-2 update(..., merge_strategy='replace') calls with such lines;
         "relation": create_db, then add_relation(parent, child, 1, parent_func=..., child_func=...) calls whose functions
                    set other coordinates on the parent, the child or both;
         "update+relation": both.
    step = {"how": "replace", "feats": [model features]} | {"how": "relation", "parent", "child", "to": {id: [start, end]},
            "as_object": bool}"""
    rng = random.Random(seed * 49979687 + 3)
    mode = rng.choice(["create", "create", "update", "update", "relation", "relation", "update+relation"])
    cur = {f["id"]: dict(f, parents=list(f["parents"])) for f in SET["features"]}
    order = [f["id"] for f in SET["features"]]
    hubs = list(SET["hubs"])
    old = {}
    steps = []

    def replacement(f):
        a, b = moved_coords(rng, f["start"], f["end"])
        g = dict(f, start=a, end=b, parents=list(f["parents"]))
        if rng.random() < 0.1:
            g["seqid"] = rng.choice(SET["seqids"])
        if rng.random() < 0.1:
            g["strand"] = rng.choice(STRANDS)
        if g["id"] not in hubs and rng.random() < 0.15:
            g["parents"] = sorted(rng.sample(hubs, rng.choice([1, 2]))) if rng.random() < 0.8 else []
        return g

    def replace_step():
        ids = rng.sample(order, max(3, int(len(order) * rng.uniform(0.2, 0.4))))
        feats = []
        for i in ids:
            g = replacement(cur[i])
            old.setdefault(i, [cur[i]["start"], cur[i]["end"]])
            feats.append(g)
            cur[i] = g
            if rng.random() < 0.15:
                g2 = replacement(g)          # the same ID once more, further down: the last line counts
                feats.append(g2)
                cur[i] = g2
        steps.append({"how": "replace", "feats": feats})

    def relation_steps():
        for _ in range(rng.randrange(6, 16)):
            p = rng.choice(hubs) if rng.random() < 0.8 else rng.choice(order)
            kids = [i for i in order if i not in hubs and i != p and p not in cur[i]["parents"]]
            if not kids:
                continue
            c = rng.choice(kids)
            to = {}
            for who in {"parent": [p], "child": [c], "both": [p, c]}[rng.choice(["parent", "child", "child", "both"])]:
                a, b = moved_coords(rng, cur[who]["start"], cur[who]["end"])
                to[who] = [a, b]
                old.setdefault(who, [cur[who]["start"], cur[who]["end"]])
                cur[who] = dict(cur[who], start=a, end=b)
            cur[c] = dict(cur[c], parents=sorted(cur[c]["parents"] + [p]))
            steps.append({"how": "relation", "parent": p, "child": c, "to": to, "as_object": rng.random() < 0.5})

    if mode in ("create", "update", "update+relation"):
        for _ in range(1 if mode == "create" else rng.choice([1, 1, 2])):
            replace_step()
    if mode in ("relation", "update+relation"):
        relation_steps()
    return {"mode": mode, "steps": steps, "final": [cur[i] for i in order], "old": old}


# (b) files that carry DIRECTIVES, in particular '##sequence-region <seqid> <start> <end>' lines for the queried seqids
OTHER_DIRECTIVES = ["##species https://www.ncbi.nlm.nih.gov/Taxonomy/Browser/wwwtax.cgi?id=9606", "##genome-build gv GV1.0",
                    "##feature-ontology so.obo", "##attribute-ontology gv-attr.obo", "##source-ontology gv-src.obo"]


def make_directives(seed, SET):
    """The text of SET with directive lines: '##gff-version 3' first, '##sequence-region <seqid> <start> <end>' for most of
    the stored seqids - the declared end being a middle one of the feature ends on that seqid (features reach beyond it: a
    circular genome, a stale directive), a multiple of 2^17 below such an end, just below the largest end, or (20%) at / beyond
    every feature -, for seqids no feature has (also spellings that differ in letter case only) and, now and then, a second
    line for the same seqid; other '##' directives; most lines at the top, some right before the first feature of their seqid.
    -> {"text", "declared": {seqid: smallest declared end}, "lines": number of sequence-region lines, "others": number of
        sequence-region lines naming a seqid without features}"""
    rng = random.Random(seed * 86028121 + 17)
    feats = SET["features"]
    top, inline = ["##gff-version 3"], {}
    declared, n_lines, others = {}, 0, 0
    stored = sorted({f["seqid"] for f in feats})
    for s in stored:
        if rng.random() < 0.12:
            continue
        ends = sorted(max(f["start"], f["end"]) for f in feats if f["seqid"] == s)
        for _ in range(2 if rng.random() < 0.12 else 1):
            r = rng.random()
            if r < 0.45:
                E = ends[int(len(ends) * rng.uniform(0.3, 0.7))]
            elif r < 0.65:
                E = ends[int(len(ends) * rng.uniform(0.3, 0.8))]
                E = (E >> 17) << 17 if E >= 2 ** 17 else E
            elif r < 0.8:
                E = ends[-1] - rng.choice([1, 1000, 2 ** 17])
            else:
                E = ends[-1] + rng.choice([0, 0, 1000])
            E = max(1, E)
            line = "##sequence-region %s %d %d" % (s, 1 if rng.random() < 0.85 else rng.choice([1, 2, 100]), E)
            declared[s] = min(E, declared.get(s, E))
            n_lines += 1
            if rng.random() < 0.3:
                inline.setdefault(s, []).append(line)
            else:
                top.append(line)
    for s in rng.sample(["chrOther_9", "ctgZ", "MT"] + [x.swapcase() for x in stored if x.swapcase() != x], rng.choice([1, 2, 3])):
        line = "##sequence-region %s 1 %d" % (s, rng.choice([1000, 16569, 2 ** 17, 50000]))
        if s in stored:
            declared[s] = min(int(line.split()[-1]), declared.get(s, LIMIT * 4))
        else:
            others += 1
        n_lines += 1
        top.append(line)
    extra = rng.sample(OTHER_DIRECTIVES, rng.choice([0, 1, 2]))
    head = top[:1] + sorted(top[1:] + extra, key=lambda _: rng.random())
    out, seen = list(head), set()
    for f in feats:
        if f["seqid"] not in seen:
            seen.add(f["seqid"])
            out.extend(inline.get(f["seqid"], []))
        out.append(line_of(f))
    return {"text": "\n".join(out) + "\n", "declared": declared, "lines": n_lines, "others": others}


def _declared_interval(rng, SET, pool, within, seqid):
    """A query interval whose end lies beyond the end that a ##sequence-region line declares for the queried seqid, placed
    on a stored feature that reaches beyond that end."""
    E = (SET.get("declared") or {}).get(seqid)
    if E is None:
        return _interval(rng, SET, pool, within)
    ok = [f for f in pool if f["start"] <= f["end"]]
    over_end = [f for f in ok if f["end"] > E]
    over_start = [f for f in ok if f["start"] > E]
    r = rng.random()
    if within and over_end:
        f = rng.choice(over_end)
        b = f["end"] + rng.choice([0, 0, 0, 1, 1000])
        a = f["start"] + rng.choice([-1, 0, 0]) if r < 0.6 else 1 if r < 0.8 else _value(rng, SET, hi=f["start"])
    elif not within and over_start:
        f = rng.choice(over_start)
        b = f["start"] + rng.choice([0, 0, 1, f["end"] - f["start"]])
        a = max(1, E - rng.choice([0, 1, 1000])) if r < 0.4 else 1 if r < 0.6 else f["start"] - rng.choice([0, 1, 5]) if r < 0.8 \
            else _value(rng, SET, hi=b)
    else:
        b = E + rng.choice([1, 2, 1000, 2 ** 17, 2 ** 26])
        a = 1 if r < 0.3 else max(1, E - rng.choice([0, 1, 1000, 2 ** 17])) if r < 0.7 else _value(rng, SET, hi=b)
    a, b = max(1, a), max(1, b)
    return (a, b) if a <= b else (b, a)


# -- workload classes added in round 6 ------------------------------------------------------------------------------------
# seqids holding characters that the string forms "seqid:start-end" / "seqid" could trip over.  A ':' inside the seqid is
# not expressible in the string form of the unchanged tree ('a:b:1-5' is read as seqid 'a', coordinates 'b'), so seqids
# with ':' are stored and queried through the tuple / keyword / Feature forms only.
ODD_SEQIDS = ["contig_12,len=4003", "contig_12len=4003", "chr1,000", "chr1000", "chr-1", "chr-1-2", "1-5", "scaffold 7",
              "scaffold7", "GC50%", "sc%2C1", "sc,1", "a,b,c", "abc", "ctg=7;x", "ctg|7.1", "NODE_1_length_200_cov_1.5", ",", "chr1,"]
COLON_SEQIDS = ["chr:1", "a:b:c"]
ODD_TYPES = ["gene", "exon", "CDS", "match", "five_prime_UTR"]


def make_odd(seed, seqids, n=10):
    """Model features on the given seqids: every seqid carries features at the SAME coordinates (so that a query for one
    seqid would match the features of any other), genes with exon / CDS / UTR children, some across the first bin end."""
    rng = random.Random(seed * 7919 + 3)
    sites = []
    for gi in range(max(2, n // 4)):
        a = rng.choice([rng.randrange(1, 5000), rng.randrange(130000, 131072), rng.randrange(1, 100000)])
        b = a + rng.randrange(200, 4000)
        strand = rng.choice(STRANDS)
        kids = []
        for _ in range(rng.randrange(2, 5)):
            x = rng.randrange(a, b)
            kids.append((rng.choice(["exon", "exon", "CDS", "five_prime_UTR"]), x, min(b, x + rng.randrange(1, 300))))
        sites.append((a, b, strand, kids))
    loose = [(rng.choice(["match", "exon", "CDS"]), x, x + rng.randrange(0, 500), rng.choice(STRANDS))
             for x in [rng.randrange(1, 140000) for _ in range(max(2, n // 3))]]
    feats = []
    for si, seqid in enumerate(seqids):
        for gi, (a, b, strand, kids) in enumerate(sites):
            if rng.random() < 0.15:
                continue
            gid = "g%d_%d" % (si, gi)
            feats.append({"id": gid, "seqid": seqid, "featuretype": "gene", "start": a, "end": b, "strand": strand, "parents": []})
            for ki, (ft, x, y) in enumerate(kids):
                feats.append({"id": "%s.k%d" % (gid, ki), "seqid": seqid, "featuretype": ft, "start": x, "end": y,
                              "strand": strand, "parents": [gid]})
        for li, (ft, x, y, strand) in enumerate(loose):
            if rng.random() < 0.15:
                continue
            feats.append({"id": "m%d_%d" % (si, li), "seqid": seqid, "featuretype": ft, "start": x, "end": y, "strand": strand,
                          "parents": []})
    rng.shuffle(feats)
    return feats


def gen_oddseq(rng):
    """An 'oddseq' case: stored seqids (odd ones, each with its separator-less twin when drawn, plain ones, optionally one
    holding ':') and a list of queries {"seqid", "start", "end" (None, None: bare seqid), "within", "strand", "ft" (list, may
    name a type more than once; None), "ft_form", "ft_from" (id of a gene: the list is built at run time from the
    featuretypes of its children)}."""
    seqids = rng.sample(ODD_SEQIDS, rng.choice([3, 4, 5]))
    for a, b in (("contig_12,len=4003", "contig_12len=4003"), ("chr1,000", "chr1000"), ("sc,1", "sc%2C1"), ("a,b,c", "abc"),
                 ("scaffold 7", "scaffold7")):
        if a in seqids and b not in seqids and rng.random() < 0.8:
            seqids.append(b)
    if rng.random() < 0.7 and "contig_12,len=4003" not in seqids:
        seqids += ["contig_12,len=4003", "contig_12len=4003"]
    seqids.append("chr1")
    if rng.random() < 0.4:
        seqids.append(rng.choice(COLON_SEQIDS))
    seed = rng.randrange(1 << 30)
    feats = make_odd(seed, seqids)
    genes = [f for f in feats if f["featuretype"] == "gene"]
    qs = []
    for _ in range(rng.randrange(10, 16)):
        f = rng.choice(feats)
        q = {"seqid": f["seqid"] if rng.random() < 0.9 else rng.choice(seqids), "within": rng.random() < 0.5,
             "strand": rng.choice([None, None, "+", "-", "."]), "ft": None, "ft_form": None, "ft_from": None, "gene": None}
        r = rng.random()
        if r < 0.2:
            q["start"], q["end"] = None, None                  # the bare "seqid" string form
        elif r < 0.6:
            g = rng.choice([x for x in genes if x["seqid"] == q["seqid"]] or [f])
            q["start"], q["end"] = max(1, g["start"] - rng.randrange(0, 50)), g["end"] + rng.randrange(0, 50)
        else:
            q["start"] = max(1, f["start"] - rng.randrange(0, 300))
            q["end"] = max(q["start"], f["end"] + rng.randrange(-100, 300))
        here = [x for x in genes if x["seqid"] == q["seqid"]]
        if here:
            q["gene"] = rng.choice(here)["id"]                 # for children(gene, limit=...) / parents(child of gene, limit=...)
        r = rng.random()
        if r < 0.35 and here:
            q["ft_from"], q["ft_form"] = rng.choice(here)["id"], "list"
        elif r < 0.75:
            k = rng.choice([1, 2, 2, 3])
            ft = rng.sample(ODD_TYPES + ["absent_type"], k)
            if rng.random() < 0.7:
                ft += [rng.choice(ft) for _ in range(rng.choice([1, 1, 2, 3]))]
                rng.shuffle(ft)
            q["ft"], q["ft_form"] = ft, rng.choice(["list", "tuple"])
        qs.append(q)
    return {"kind": "oddseq", "seed": seed, "seqids": seqids, "queries": qs}


# ---------------------------------------------------------------------------------------------------------
# 'huge' cases: query bounds far beyond anything stored (2**62 ... 10**20), in every query form
HUGE_BOUNDS = [2 ** 62, 2 ** 63 - 1, 2 ** 63, 2 ** 64, 10 ** 20]
HUGE_NEAR = [2 ** 62 - 1, 2 ** 62 + 1, 2 ** 63 - 2, 2 ** 63 + 1, 2 ** 64 - 1, 2 ** 64 + 1, 10 ** 20 + 1, 10 ** 30,
             99999999999999999999, 2 ** 100]
SQLITE_MAX = 2 ** 63 - 1          # the largest coordinate a database file can hold
HUGE_SEQIDS = ["chr1", "ctgH", "2"]


def make_huge(seed):
    """Model features of a 'huge' case: genes with exon / CDS children on 2-3 seqids, at small coordinates, around the first
    bin end, around 2**29, and a few far out (2**40 .. 2**62, the last bases below 2**63, one over the whole storable range)."""
    rng = random.Random(seed * 104729 + 11)
    seqids = HUGE_SEQIDS[:rng.choice([2, 3])]
    feats = []

    def add(fid, seqid, ft, a, b, strand, parents=()):
        feats.append({"id": fid, "seqid": seqid, "featuretype": ft, "start": a, "end": b, "strand": strand,
                      "parents": list(parents)})

    for si, seqid in enumerate(seqids):
        spots = [rng.randrange(1, 5000), rng.randrange(130000, 131072), 2 ** 29 - rng.randrange(0, 3000),
                 rng.randrange(1, 10 ** 6), 2 ** rng.randrange(30, 45) + rng.randrange(-3, 4)]
        for gi, a in enumerate(spots):
            if rng.random() < 0.2:
                continue
            b = a + rng.randrange(200, 4000)
            strand = rng.choice(STRANDS)
            gid = "g%d_%d" % (si, gi)
            add(gid, seqid, "gene", a, b, strand)
            for ki in range(rng.randrange(1, 4)):
                x = rng.randrange(a, b)
                add("%s.k%d" % (gid, ki), seqid, rng.choice(["exon", "exon", "CDS"]), x, min(b, x + rng.randrange(1, 300)),
                    strand, [gid])
        # far out: a gene whose children reach towards 2**62 / 2**63 - 1
        if rng.random() < 0.85:
            strand = rng.choice(STRANDS)
            gid = "far%d" % si
            a = 2 ** rng.randrange(40, 60) + rng.randrange(-2, 3)
            top = rng.choice([SQLITE_MAX, SQLITE_MAX, SQLITE_MAX - rng.randrange(1, 5), 2 ** 62 + rng.randrange(-2, 3)])
            add(gid, seqid, "gene", a, top, strand)
            for ki, (x, y) in enumerate([(a, a + rng.randrange(0, 10 ** 6)), (2 ** 62 - rng.randrange(0, 3), 2 ** 62 + rng.randrange(0, 3)),
                                         (top - rng.randrange(0, 12), top), (a + 5, top)]):
                if x <= y and rng.random() < 0.8:
                    add("%s.k%d" % (gid, ki), seqid, rng.choice(["exon", "CDS"]), x, y, strand, [gid])
        for li in range(rng.randrange(1, 4)):
            a = rng.choice([1, rng.randrange(1, 200000), 2 ** 62 - rng.randrange(0, 3), SQLITE_MAX - rng.randrange(0, 20)])
            b = rng.choice([a, min(SQLITE_MAX, a + rng.randrange(0, 5000)), SQLITE_MAX, 2 ** 62])
            if a <= b:
                add("m%d_%d" % (si, li), seqid, rng.choice(["match", "exon"]), a, b, rng.choice(STRANDS))
    rng.shuffle(feats)
    return feats


def gen_huge(rng):
    """A 'huge' case: {"kind", "seed", "queries"}; query = {"seqid" (None: omitted), "start", "end" (one of them may be None),
    "within", "strand", "ft", "gene" (for children / parents limit=)}.  At least one bound of every query is one of
    HUGE_BOUNDS (75%) or a neighbour / larger value (HUGE_NEAR)."""
    seed = rng.randrange(1 << 30)
    feats = make_huge(seed)
    genes = [f for f in feats if f["featuretype"] == "gene"]
    seqids = sorted(set(f["seqid"] for f in feats))
    qs = []
    for x in HUGE_BOUNDS + [rng.choice(HUGE_BOUNDS + HUGE_NEAR) for _ in range(rng.randrange(3, 7))]:
        if rng.random() < 0.25:
            x = rng.choice(HUGE_NEAR)
        f = rng.choice(feats)
        q = {"seqid": f["seqid"] if rng.random() < 0.85 else None, "within": rng.random() < 0.5,
             "strand": rng.choice([None, None, None, "+", "-"]), "ft": None, "gene": None}
        r = rng.random()
        if r < 0.62:
            # the huge value is the END of a two-sided query
            s = rng.choice([1, 1, max(1, f["start"] + rng.choice([-1, 0, 1])), max(1, f["end"] + rng.choice([-1, 0, 1])),
                            rng.randrange(1, 200000), 2 ** 29, 2 ** 62, SQLITE_MAX, x])
            q["start"], q["end"] = min(s, x), x
        elif r < 0.72:
            # both bounds huge
            y = rng.choice(HUGE_BOUNDS + HUGE_NEAR)
            q["start"], q["end"] = min(x, y), max(x, y)
        elif r < 0.86:
            q["start"], q["end"] = None, x
        else:
            q["start"], q["end"] = x, None
        here = [g for g in genes if q["seqid"] is None or g["seqid"] == q["seqid"]]
        far = [g for g in here if g["id"].startswith("far")]
        if here:
            q["gene"] = rng.choice(far if far and rng.random() < 0.6 else here)["id"]
        if rng.random() < 0.45:
            q["ft"] = rng.sample(["gene", "exon", "CDS", "match"], rng.choice([1, 2, 2, 3]))
        qs.append(q)
    return {"kind": "huge", "seed": seed, "queries": qs}
