"""
Generators for C06: feature sets on bin-boundary coordinates (DESIGN section 3 (d)) and region/limit queries.
Everything is a deterministic function of the arguments (random.Random(seed)); never imports gffutils.
"""
import random

from gvmon.models import binspec as S

LIMIT = S.LIMIT
SEQIDS = ["chr1", "Chr1", "chré", "ctg.7-b", "2"]
TYPES = ["gene", "mRNA", "exon", "CDS", "Gene"]
STRANDS = ["+", "-", "."]
MS = [0, 1, 2, 3, 7, 8, 9, 63, 64, 65, 511, 512, 513, 4094, 4095, 4096]

_VALS = []


def boundary_values():
    """Every value >= 1 within +-2 of m*2^(17+3k) (k = 0..4), of 2^29 and of 2^29+2^17, plus a few fixed others."""
    if _VALS:
        return _VALS
    vals = set()
    for k in range(5):
        sz = S.size(k)
        for m in MS:
            if m * sz <= LIMIT:
                for d in (-2, -1, 0, 1, 2):
                    vals.add(m * sz + d)
    for base in (0, LIMIT, LIMIT + 2 ** 17):
        for d in (-2, -1, 0, 1, 2):
            vals.add(base + d)
    vals.update([5, 1000, 2 ** 17 + 777, 2 ** 28 + 12345, 2 ** 30, 2 ** 31 + 3])
    _VALS.extend(sorted(v for v in vals if v >= 1))
    return _VALS


def near_boundary(x):
    if x is None:
        return False
    if x >= LIMIT - 2:
        return True
    for k in range(5):
        r = x % S.size(k)
        if r <= 2 or r >= S.size(k) - 2:
            return True
    return False


def boundary_class(x):
    """Coarse class of a query end for the distinct-case key."""
    if x is None:
        return "none"
    if x > LIMIT:
        return ">2^29"
    if x == LIMIT:
        return "=2^29"
    if x >= LIMIT - 2:
        return "2^29-"
    for k in (4, 3, 2, 1, 0):
        r = x % S.size(k)
        if r <= 2:
            return "k%d+%d" % (k, r)
        if r >= S.size(k) - 2:
            return "k%d-%d" % (k, S.size(k) - r)
    return "interior"


def _coords(rng, vals, focus):
    r = rng.random()
    if r < 0.70:
        a = rng.choice(focus)
    elif r < 0.90:
        a = rng.choice(vals)
    else:
        a = rng.randrange(1, LIMIT + 2 ** 18)
    r = rng.random()
    if r < 0.25:
        b = a + rng.randrange(0, 5)
    elif r < 0.50:
        b = rng.choice(focus)
    elif r < 0.60:
        b = rng.choice(vals)
    elif r < 0.80:
        b = a + rng.randrange(0, 2 ** 17)
    elif r < 0.92:
        b = a + rng.randrange(0, 2 ** 23)
    else:
        b = a + rng.randrange(0, 2 ** 28)
    a, b = max(1, a), max(1, b)
    return (a, b) if a <= b else (b, a)


def make_set(seed, n=300, nhubs=12):
    """A feature set: {"features": [...], "text": GFF3, "focus": [...], "seqids": [...]}."""
    rng = random.Random(seed * 7919 + 13)
    vals = boundary_values()
    top = [v for v in vals if LIMIT - 2 <= v <= LIMIT + 2]
    focus = sorted(set(rng.sample(vals, 22) + rng.sample(top, 3) + [rng.randrange(1, LIMIT) for _ in range(2)]))
    seqids = rng.sample(SEQIDS, rng.choice([2, 3, 3, 4]))
    weights = [0.55] + [0.45 / (len(seqids) - 1)] * (len(seqids) - 1)
    feats = []
    hubs = []
    for i in range(n):
        hub = i < nhubs
        a, b = _coords(rng, vals, focus)
        f = {
            "id": ("h%d" if hub else "f%d") % i,
            "seqid": rng.choices(seqids, weights)[0],
            "featuretype": rng.choice(["gene", "mRNA"]) if hub else rng.choice(TYPES),
            "strand": rng.choice(STRANDS),
            "start": a, "end": b, "parents": [],
        }
        if hub:
            hubs.append(f["id"])
        elif rng.random() < 0.65:
            # most children of a hub live on the hub's seqid, so that limit= queries are not empty
            k = rng.choice([1, 1, 2, 3])
            f["parents"] = sorted(rng.sample(hubs, k))
            if rng.random() < 0.8:
                f["seqid"] = [h for h in feats if h["id"] == f["parents"][0]][0]["seqid"]
        feats.append(f)
    # input order is not hub-first
    order = list(range(n))
    rng.shuffle(order)
    feats = [feats[i] for i in order]
    return {"features": feats, "text": text_of(feats), "focus": focus, "seqids": seqids, "hubs": hubs}


def text_of(feats):
    lines = []
    for f in feats:
        attrs = "ID=%s" % f["id"]
        if f["parents"]:
            attrs += ";Parent=" + ",".join(f["parents"])
        lines.append("\t".join([f["seqid"], "gv", f["featuretype"], str(f["start"]), str(f["end"]), ".", f["strand"],
                                ".", attrs]))
    return "\n".join(lines) + "\n"


REGION_FORMS = [("tuple", 20), ("string", 14), ("feature", 16), ("kw", 14), ("kw-noseqid", 10), ("start-only", 9),
                ("end-only", 9), ("start-only-noseqid", 4), ("end-only-noseqid", 4)]
LIMIT_FORMS = [("tuple", 60), ("string", 40)]
APIS = [("region", 50), ("all_features", 16), ("features_of_type", 10), ("children", 14), ("parents", 10)]


def _weighted(rng, table):
    return rng.choices([k for k, _ in table], [w for _, w in table])[0]


def _value(rng, SET, lo=None, hi=None):
    """A coordinate from the focus / boundary / random pools, optionally >= lo or <= hi."""
    for _ in range(6):
        r = rng.random()
        v = rng.choice(SET["focus"]) if r < 0.6 else (rng.choice(boundary_values()) if r < 0.9 else
                                                       rng.randrange(1, LIMIT + 2 ** 18))
        if (lo is None or v >= lo) and (hi is None or v <= hi):
            return v
    if lo is not None:
        return lo + rng.choice([0, 1, 2, 1000, 2 ** 17, 2 ** 26])
    return max(1, hi - rng.choice([0, 1, 2, 1000, 2 ** 17, 2 ** 26]))


def _interval(rng, SET, pool, within):
    r = rng.random()
    if pool and r < 0.6:
        f = rng.choice(pool)
        d = rng.choice([-1, 0, 0, 1])
        if within:
            m = rng.random()
            a = f["start"] + d if m < 0.7 else _value(rng, SET, hi=f["start"])
            b = f["end"] + rng.choice([-1, 0, 0, 1]) if m > 0.3 else _value(rng, SET, lo=f["end"])
        elif rng.random() < 0.5:
            a = f["end"] + d
            b = _value(rng, SET, lo=max(1, a))
        else:
            b = f["start"] + d
            a = _value(rng, SET, hi=max(1, b))
    elif r < 0.7:
        # ends around the 2**29 limit
        b = LIMIT + rng.choice([-2, -1, 0, 0, 0, 1, 2, 2 ** 17, 2 ** 29])
        a = _value(rng, SET, hi=b)
    else:
        a, b = _value(rng, SET), _value(rng, SET)
    a, b = max(1, a), max(1, b)
    return (a, b) if a <= b else (b, a)


def gen_query(rng, SET):
    """One query (JSON-able dict) against the feature set SET."""
    feats = SET["features"]
    api = _weighted(rng, APIS)
    within = rng.random() < 0.5
    q = {"api": api, "within": within, "id": None, "strand": None, "fstrand": None}
    pool_all = feats
    if api == "children":
        q["id"] = rng.choice(SET["hubs"])
        pool_all = [f for f in feats if q["id"] in f["parents"]]
    elif api == "parents":
        kids = [f for f in feats if f["parents"]]
        kid = rng.choice(kids)
        q["id"] = kid["id"]
        pool_all = [f for f in feats if f["id"] in kid["parents"]]
    q["level"] = rng.choice([None, None, 1]) if api in ("children", "parents") else None
    # seqid
    if pool_all and rng.random() < 0.93:
        seqid = rng.choice(pool_all)["seqid"]
    else:
        seqid = rng.choice(SET["seqids"] + ["chrNone"])
    q["form"] = _weighted(rng, REGION_FORMS if api == "region" else LIMIT_FORMS)
    q["seqid"] = None if q["form"].endswith("noseqid") else seqid
    pool = [f for f in pool_all if q["seqid"] is None or f["seqid"] == q["seqid"]]
    a, b = _interval(rng, SET, pool, within)
    q["start"] = None if q["form"].startswith("end-only") else a
    q["end"] = None if q["form"].startswith("start-only") else b
    if api in ("region", "all_features", "features_of_type"):
        q["strand"] = rng.choice([None, None, None, "+", "-", "."])
    if q["form"] == "feature":
        q["fstrand"] = rng.choice(STRANDS)
        if rng.random() < 0.35:
            # explicit strand= equal to the query feature's strand: both readings of the Feature form coincide
            q["strand"] = q["fstrand"]
    # featuretype restriction
    r = rng.random()
    if api == "features_of_type":
        r = 0.5 + r / 2
    if r < 0.5:
        q["ft"], q["ft_form"] = None, None
    else:
        q["ft_form"] = rng.choice(["str", "str", "list", "tuple", "set"])
        k = 1 if q["ft_form"] == "str" else rng.choice([1, 2, 2, 3])
        q["ft"] = sorted(rng.sample(TYPES + ["absent_type"], k))
    return q
