"""
Generators for C15: ordered feature lists and small gene models (GFF3 / GTF), with their text rendering.

record = {"seqid", "featuretype", "start", "end", "strand", "attrs": [[key, [values]], ...]}
Values use only characters that need no escaping in either format, so rendering is trivial and exact.
"""
SEQIDS = ["c1", "c2", "chrX"]
TYPES = ["exon", "exon", "gene", "CDS", "region"]
STRANDS = ["+", "-", "."]
WORDS = ["a", "b", "x10", "x9", "Zeta", "alpha", "été", "漢", "g1", "t2", "t10", "n_1"]
RELATIONS = ["gap1", "gap1", "gapN", "gapN", "touching", "overlap", "nested", "same"]


def numeric_value(rng):
    r = rng.random()
    if r < 0.7:
        return str(rng.randrange(0, 15))
    if r < 0.85:
        return str(rng.randrange(15, 1200))
    if r < 0.90:
        return "%d.%d" % (rng.randrange(0, 12), rng.randrange(1, 10))
    if r < 0.95:
        return rng.choice(["%d.0", "0%d", "%d.00"]) % rng.randrange(0, 15)
    return "-%d" % rng.randrange(1, 20)


def values(rng, kind, n=None):
    n = n or rng.choice([1, 1, 1, 2, 3])
    if kind == "numeric":
        out = [numeric_value(rng) for _ in range(n)]
        # values do not repeat textually; numerically equal but differently written ones ('2', '2.0', '02') may occur
        keep = []
        for v in out:
            if v not in keep:
                keep.append(v)
        return keep
    if kind == "mixed":
        return [rng.choice(WORDS) if rng.random() < 0.5 else numeric_value(rng) for _ in range(n)]
    return [rng.choice(WORDS) for _ in range(n)]


# numbers whose numeric and text orders disagree for many pairs (9/10, 2/10, 99/100, 100/20, ...)
CROSSING = [1, 2, 3, 9, 10, 11, 19, 20, 21, 30, 99, 100, 101, 200, 999, 1000, 1001]


def id_values(rng, n, numeric_ids):
    """n distinct ID strings: f<i>, or numbers (a falling arithmetic sequence, or a sample of CROSSING, or a
    run of consecutive numbers that passes a power of ten in rising or falling order)."""
    if not numeric_ids:
        return ["f%d" % i for i in range(n)]
    r = rng.random()
    if r < 0.35:
        return [str(100 - 7 * i) for i in range(n)]
    if r < 0.7:
        return [str(v) for v in rng.sample(CROSSING, n)]
    first = rng.choice([10, 100, 1000]) - rng.randrange(1, n + 1)
    seq = [str(first + i) for i in range(n)]
    return seq if rng.random() < 0.5 else seq[::-1]


def list_attrs(rng, ident, with_id=None):
    attrs = []
    with_id = rng.random() < 0.8 if with_id is None else with_id
    if with_id:
        attrs.append(["ID", [ident]])
    if rng.random() < 0.6:
        attrs.append(["Parent", values(rng, "word", rng.choice([1, 1, 2]))])
    if rng.random() < 0.6:
        attrs.append(["exon_number", values(rng, "numeric", rng.choice([1, 1, 2]))])
    if rng.random() < 0.4:
        attrs.append(["note", values(rng, rng.choice(["word", "mixed", "numeric"]))])
    if rng.random() < 0.25:
        attrs.append(["k%d" % rng.randrange(3), values(rng, "word")])
    rng.shuffle(attrs)
    return attrs


def next_interval(rng, ps, pe, relations=RELATIONS):
    rel = rng.choice(relations)
    if rel == "gap1":
        ns = pe + 2
    elif rel == "gapN":
        ns = pe + 2 + rng.randrange(1, 30)
    elif rel == "touching":
        ns = pe + 1
    elif rel in ("overlap", "nested"):
        ns = rng.randrange(ps, pe + 1)
    else:
        ns = ps
    if rel == "nested":
        ne = rng.randrange(ns, pe + 1)
    elif rel == "same":
        ne = pe
    elif rel == "overlap":
        ne = pe + rng.randrange(0, 6)
    else:
        ne = ns + rng.choice([0, 0, 1, 2, 5, 9, 40])
    return rel, ns, ne


def feature_list(rng, unique_ids=False):
    """1..8 features, start-ordered inside each block of one seqid."""
    n = rng.choice([1, 2, 2, 3, 3, 4, 5, 6, 7, 8])
    offset = rng.choice([0, 0, 0, 131060, 999990, 2 ** 20 - 4])
    idents = id_values(rng, n, rng.random() < 0.25)
    one_strand = rng.random() < 0.35
    strand0 = rng.choice(STRANDS)
    one_type = rng.random() < 0.5
    type0 = rng.choice(TYPES)
    seqid = rng.choice(SEQIDS)
    ps = offset + rng.randrange(1, 20)
    pe = ps + rng.choice([0, 1, 3, 8, 30])
    feats = []
    for i in range(n):
        if i:
            if rng.random() < 0.2:
                seqid = rng.choice([s for s in SEQIDS if s != seqid])
                r = rng.random()
                if r < 0.5:      # the new block starts beyond the previous feature: a gap "exists" across the seqids
                    ps = pe + 2 + rng.randrange(0, 10)
                elif r < 0.75:
                    ps = offset + rng.randrange(1, 20)
                else:
                    ps = max(1, pe - rng.randrange(0, 5))
                pe = ps + rng.choice([0, 1, 3, 8])
            else:
                _, ps, pe = next_interval(rng, ps, pe)
        feats.append({
            "seqid": seqid, "featuretype": type0 if one_type else rng.choice(TYPES), "start": ps, "end": pe,
            "strand": strand0 if one_strand else rng.choice(STRANDS),
            "attrs": list_attrs(rng, idents[i], with_id=True if unique_ids else None),
        })
    if not unique_ids and feats and rng.random() < 0.05:
        # a Feature object may carry several ID values
        for k, v in feats[0]["attrs"]:
            if k == "ID":
                v.append("zz")
    return feats


MESSY_WORDS = ["basic", "CCDS", "appris", "t1", "t2", "t10", "g1", "Zeta", "alpha", "x9", "x10"]
MESSY_NUMBERS = ["1", "2", "3", "9", "10", "11", "20", "99", "100", "3.5", "-1"]


def messy_values(rng, numeric):
    """2..4 values that are not in sorted order and / or contain a value more than once."""
    base = rng.sample(MESSY_NUMBERS if numeric else MESSY_WORDS, rng.choice([2, 2, 3]))
    vals = list(base)
    r = rng.random()
    if r < 0.65:
        vals.insert(rng.randrange(len(vals) + 1), rng.choice(base))       # a repeated value
    if r > 0.35:
        vals.sort(reverse=rng.random() < 0.7, key=(lambda v: float(v)) if numeric and rng.random() < 0.5 else None)
        if rng.random() < 0.3:
            rng.shuffle(vals)
    return vals


def messy_attrs(rng, ident=None):
    """An attribute set with 1..3 multi-valued keys whose values are unsorted and / or repeated."""
    attrs = []
    if ident is not None:
        attrs.append(["ID", ident])
    keys = rng.sample(["tag", "Parent", "rank", "exon_number", "note"], rng.choice([1, 2, 2, 3]))
    for k in keys:
        attrs.append([k, messy_values(rng, numeric=k in ("rank", "exon_number"))])
    if rng.random() < 0.4:
        attrs.append(["k%d" % rng.randrange(3), values(rng, "word", 1)])
    rng.shuffle(attrs)
    return attrs


def equal_attrs_list(rng, with_ids):
    """2..6 start-ordered features on one seqid (mostly with gaps) in which consecutive neighbours carry EXACTLY
    equal attribute dictionaries (same keys, same value lists in the same order)."""
    n = rng.choice([2, 2, 3, 3, 4, 5, 6])
    offset = rng.choice([0, 0, 0, 131060])
    seqid = rng.choice(SEQIDS)
    one_strand = rng.random() < 0.5
    strand0 = rng.choice(STRANDS)
    type0 = rng.choice(TYPES)
    ps = offset + rng.randrange(1, 20)
    pe = ps + rng.choice([0, 1, 3, 8, 30])
    feats = []
    attrs = None
    for i in range(n):
        if i:
            rels = ["gap1", "gapN", "gapN"] if i == 1 else ["gap1", "gapN", "gapN", "gapN", "touching", "overlap", "nested"]
            _, ps, pe = next_interval(rng, ps, pe, relations=rels)
        if attrs is None or (i > 1 and rng.random() < 0.25):
            ident = None
            if with_ids:
                r = rng.random()
                ident = None if r < 0.4 else ["s%d" % i] if r < 0.85 else rng.choice([["b", "a"], ["10", "9"], ["a", "b", "a"]])
            attrs = messy_attrs(rng, ident)
        feats.append({"seqid": seqid, "featuretype": type0 if rng.random() < 0.7 else rng.choice(TYPES), "start": ps, "end": pe,
                      "strand": strand0 if one_strand else rng.choice(STRANDS),
                      "attrs": [[k, list(v)] for k, v in attrs]})
    return feats


def list_options(rng):
    upd = rng.choice([None, None, None, {"ID": ["newid"]}, {"note": ["u2", "u1"]},
                      {"Parent": ["p"], "extra": ["e"]}, {"exon_number": ["7"]}])
    return {
        "new_featuretype": rng.choice([None, None, "intron", "intergenic_region"]),
        "merge_attributes": rng.random() < 0.8,
        "numeric_sort": rng.random() < 0.5,
        "update_attributes": upd,
    }


# -- gene models -------------------------------------------------------------------------------------------------
def exon_intervals(rng, n, offset):
    """n intervals with distinct, increasing starts: gaps, adjacency, overlap and nesting all occur."""
    ps = offset + rng.randrange(1, 30)
    pe = ps + rng.choice([0, 1, 4, 10, 25])
    out = [(ps, pe)]
    while len(out) < n:
        _, ns, ne = next_interval(rng, ps, pe, relations=["gap1", "gapN", "gapN", "gapN", "touching", "overlap", "nested"])
        if ns <= ps:
            ns = ps + 1
            ne = max(ne, ns)
        out.append((ns, ne))
        ps, pe = ns, ne
    return out


def nested_exon_intervals(rng, n, offset):
    """A long first exon and n-1 later exons with distinct, increasing starts that begin strictly inside it; they are
    separated from each other by gaps, adjacency or overlap and may (towards the end) reach beyond the long one."""
    ps = offset + rng.randrange(1, 30)
    out = [(ps, ps + rng.choice([12, 25, 40, 80]))]
    s = ps + rng.randrange(1, 5)
    while len(out) < n:
        e = s + rng.choice([0, 0, 1, 3, 6, 12])
        out.append((s, e))
        if rng.random() < 0.15:                      # a second level of nesting / overlap with the previous one
            s = s + 1
        else:
            s = e + rng.choice([1, 2, 2, 3, 3, 5, 9])
    return out


def exon_strand(rng, mode, tstrand):
    if mode == "mixed":
        return rng.choice(STRANDS)
    if mode == "other":       # every exon on the opposite strand (a stranded exon under an unstranded transcript)
        return {"+": "-", "-": "+"}.get(tstrand) or rng.choice(["+", "-"])
    if mode == "dot":         # unstranded exons under a stranded transcript
        return "." if tstrand != "." else rng.choice(["+", "-"])
    return tstrand


def gene_model(rng, fmt):
    """Records of 1..3 genes x 1..3 transcripts x 1..6 exons (+ CDS), in file order."""
    recs = []
    eid = 0
    numeric_ids = rng.random() < 0.3
    # numeric IDs: falling by 3 from 1000 (equal digit counts), or drawn without repetition from ranges around the
    # powers of ten, so that neighbouring exons often have IDs whose numeric and text orders disagree (9/10, 99/100, 20/100)
    id_pool = None
    if numeric_ids and rng.random() < 0.65:
        id_pool = list(range(1, 31)) + list(range(95, 131)) + list(range(195, 211)) + list(range(990, 1011))
        rng.shuffle(id_pool)
    for g in range(rng.choice([1, 1, 2, 3])):
        gid = "g%d" % g
        seqid = rng.choice(SEQIDS)
        gstrand = rng.choice(STRANDS)
        offset = rng.choice([0, 0, 5000, 131000])
        if fmt == "gff3":
            recs.append({"seqid": seqid, "featuretype": "gene", "start": offset + 1, "end": offset + 2000,
                         "strand": gstrand, "attrs": [["ID", [gid]]]})
        for t in range(rng.choice([1, 1, 2, 3])):
            tid = "%s.t%d" % (gid, t)
            tstrand = rng.choice(STRANDS) if rng.random() < 0.4 else gstrand
            ttype = rng.choice(["mRNA", "mRNA", "ncRNA"])
            if fmt == "gff3":
                recs.append({"seqid": seqid, "featuretype": ttype, "start": offset + 1, "end": offset + 2000,
                             "strand": tstrand, "attrs": [["ID", [tid]], ["Parent", [gid]]]})
            nex = rng.choice([1, 2, 2, 3, 3, 4, 5, 6])
            smode = rng.choice(["mixed", "other", "dot"]) if fmt == "gff3" and rng.random() < 0.35 else "same"
            nested = rng.random() < 0.25
            if nested:
                nex = max(nex, 3)
            block = []
            for btype, ivs in (("exon", nested_exon_intervals(rng, nex, offset) if nested else exon_intervals(rng, nex, offset)),
                               ("CDS", exon_intervals(rng, rng.choice([0, 0, 1, 2, 3]), offset) if rng.random() < 0.6 else [])):
                for j, (s, e) in enumerate(ivs):
                    eid += 1
                    strand = exon_strand(rng, smode, tstrand)
                    if not numeric_ids:
                        ident = "%s%d" % (btype[0], eid)
                    elif id_pool is None:
                        ident = str(1000 - 3 * eid)
                    else:
                        ident = str(id_pool[eid - 1])
                    if fmt == "gff3":
                        attrs = [["ID", [ident]], ["Parent", [tid]]]
                    else:
                        attrs = [["gene_id", [gid]], ["transcript_id", [tid]], ["ID", [ident]]]
                    if rng.random() < 0.8:
                        attrs.append(["exon_number", [str(j + 1 if tstrand != "-" else len(ivs) - j)]])
                    if rng.random() < 0.3:
                        attrs.append(["note", values(rng, rng.choice(["word", "mixed"]), rng.choice([1, 2]))])
                    block.append({"seqid": seqid, "featuretype": btype, "start": s, "end": e, "strand": strand, "attrs": attrs})
            rng.shuffle(block)
            recs.extend(block)
    if rng.random() < 0.3:
        rng.shuffle(recs)
    return recs


def gene_options(rng, fmt, call):
    opts = {"exon_featuretype": "exon" if rng.random() < 0.85 else "CDS",
            "numeric_sort": rng.random() < 0.5}
    if rng.random() < 0.7:
        opts["by"] = "grandparent"
        opts["featuretype"] = "gene"
    else:
        opts["by"] = "parent"
        opts["featuretype"] = "mRNA" if fmt == "gff3" else "transcript"
    if call == "introns":
        opts["new_featuretype"] = rng.choice(["intron", "intron", "gap"])
        opts["merge_attributes"] = rng.random() < 0.8
    else:
        opts["merge_attributes"] = True   # the splice-site labels are written into the ID the union produced
    return opts


def render_attrs(attrs, fmt):
    if fmt == "gff3":
        return ";".join("%s=%s" % (k, ",".join(v)) for k, v in attrs)
    # an empty value list is written as key ""; (one item: gffutils reads it back as an empty list)
    return " ".join('%s "%s";' % (k, x) for k, v in attrs for x in (v if len(v) else [""]))


def render(recs, fmt):
    return "".join("\t".join([r["seqid"], "src", r["featuretype"], str(r["start"]), str(r["end"]), ".", r["strand"], ".",
                              render_attrs(r["attrs"], fmt)]) + "\n" for r in recs)


# -- workload classes added in round 3 ------------------------------------------------------------------------------------
# transcript strands of one database, in file order; every order of '+' / '-' against '.' / '?' occurs, and the lists are
# additionally rotated / reversed at random, so that whatever order the real code visits the transcripts in, a transcript
# that is neither '+' nor '-' is visited after a '+' one, after a '-' one, and first
STRAND_ORDERS = [["+", "."], ["-", "."], [".", "+"], [".", "-"], ["+", "?"], ["-", "?"], ["?", "+"], ["?", "-"],
                 ["+", ".", "-"], ["-", ".", "+"], [".", "+", "."], [".", "-", "."], ["+", "-", "."], ["-", "+", "?"],
                 ["?", ".", "+"], ["+", ".", "-", "?"], [".", "?"], ["+", "+", "."], ["-", "-", "?"]]


def gapped_exon_intervals(rng, n, offset):
    """n >= 2 intervals with distinct increasing starts, the first two separated by at least one base."""
    while True:
        ivs = exon_intervals(rng, n, offset)
        if any(b[0] - a[1] >= 2 for a, b in zip(ivs, ivs[1:])):
            return ivs


def strand_order_model(rng, fmt):
    """2..4 transcripts of DIFFERENT strands ('+', '-', '.', '?') in one database, each with at least one intron; the
    transcripts hang under one gene or under one gene each, exons carry the strand of their transcript (GFF3: sometimes
    random strands), records in file order or shuffled."""
    strands = list(rng.choice(STRAND_ORDERS))
    r = rng.random()
    if r < 0.25:
        strands.reverse()
    elif r < 0.4:
        rng.shuffle(strands)
    one_gene = rng.random() < 0.5
    seqid = rng.choice(SEQIDS)
    same_place = rng.random() < 0.4      # all transcripts over the same coordinates: equal sites under different labels
    offset0 = rng.choice([0, 0, 5000, 131000])
    base_ivs = gapped_exon_intervals(rng, rng.choice([2, 2, 3, 4]), offset0)
    recs = []
    eid = 0
    for t, tstrand in enumerate(strands):
        gid = "g0" if one_gene else "g%d" % t
        tid = "%s.t%d" % (gid, t)
        offset = offset0 if same_place else offset0 + 300 * t
        if fmt == "gff3":
            if not one_gene or t == 0:
                recs.append({"seqid": seqid, "featuretype": "gene", "start": offset0 + 1, "end": offset0 + 2000,
                             "strand": rng.choice(STRANDS + ["?"]), "attrs": [["ID", [gid]]]})
            recs.append({"seqid": seqid, "featuretype": "mRNA", "start": offset0 + 1, "end": offset0 + 2000,
                         "strand": tstrand, "attrs": [["ID", [tid]], ["Parent", [gid]]]})
        ivs = base_ivs if same_place else gapped_exon_intervals(rng, rng.choice([2, 2, 3, 4]), offset)
        mixed = fmt == "gff3" and rng.random() < 0.15
        block = []
        for j, (s, e) in enumerate(ivs):
            eid += 1
            strand = rng.choice(STRANDS + ["?"]) if mixed else tstrand
            if fmt == "gff3":
                attrs = [["ID", ["e%d" % eid]], ["Parent", [tid]]]
            else:
                attrs = [["gene_id", [gid]], ["transcript_id", [tid]], ["ID", ["e%d" % eid]]]
            if rng.random() < 0.5:
                attrs.append(["exon_number", [str(j + 1)]])
            block.append({"seqid": seqid, "featuretype": "exon", "start": s, "end": e, "strand": strand, "attrs": attrs})
        rng.shuffle(block)
        recs.extend(block)
    if rng.random() < 0.25:
        rng.shuffle(recs)
    return recs


def strand_order_options(rng, fmt, call):
    opts = gene_options(rng, fmt, call)
    opts["exon_featuretype"] = "exon"
    return opts


ADDED_KEYS = ["extra", "Name", "gap_of", "k7", "Note"]


def update_attributes_for(rng, feats):
    """update_attributes with 1..3 SINGLE-valued entries: keys that occur in the features of the list (override), keys
    that occur in none of them (addition), and in about 40% an 'ID' with one value."""
    present = []
    for r in feats:
        for k, _ in r["attrs"]:
            if k not in present and k != "ID":
                present.append(k)
    upd = {}
    if rng.random() < 0.4:
        upd["ID"] = [rng.choice(["newid", "gap1", "7", "x-y"])]
    want = rng.choice([1, 1, 2, 3])
    while len(upd) < want or not upd:
        if present and rng.random() < 0.55:
            k = rng.choice(present)
            upd[k] = [numeric_value(rng) if k == "exon_number" and rng.random() < 0.7 else rng.choice(WORDS + ["u1"])]
        else:
            upd[rng.choice([k for k in ADDED_KEYS if k not in present])] = [rng.choice(WORDS + ["u1", "3"])]
    return upd


# -- workload classes added in round 4 ------------------------------------------------------------------------------------
# (a) neighbours built by the CALLER from a plain dict whose values are BARE STRINGS: an attrs entry [key, "value"] (a str
#     instead of a list) is written into the plain dict as that string; "assign": [[key, "value"], ...] are item assignments
#     f.attributes[key] = "value" made after construction; "build" says how the Feature is constructed
PARENTS = ["mRNA1", "mRNA1", "t2", "g1.t10", "tx", "été1"]


def bare_list(rng):
    """A feature_list in which most single-valued entries are bare strings (ID, Parent, note, ...); half of the lists share
    one Parent value on most features (equal bare strings on both sides), some notes are the empty string.
    -> (records, build) with build in {"dict", "dict", "string"}; under "string" every attrs entry is a list (the Feature is
    built from the attribute text) and bare strings arrive by item assignment only."""
    feats = feature_list(rng)
    build = rng.choice(["dict", "dict", "string"])
    common = rng.choice(PARENTS) if rng.random() < 0.5 else None
    for r in feats:
        attrs = r["attrs"]
        if common is not None and rng.random() < 0.8:
            attrs[:] = [kv for kv in attrs if kv[0] != "Parent"] + [["Parent", [common]]]
        if rng.random() < 0.08:
            attrs[:] = [kv for kv in attrs if kv[0] != "note"] + [["note", [""]]]
        assign = []
        for kv in attrs:
            if len(kv[1]) == 1 and rng.random() < 0.7:
                if build == "dict" and rng.random() < 0.75:
                    kv[1] = kv[1][0]                       # written into the dict as a bare string
                elif kv[1][0] != "":
                    assign.append([kv[0], kv[1][0]])       # same value, by item assignment
        if rng.random() < 0.3:
            # item assignment that replaces the values of a key, or adds a key
            k = rng.choice(["Parent", "Parent", "note", "Name", "exon_number"])
            assign.append([k, numeric_value(rng) if k == "exon_number" else rng.choice(PARENTS + WORDS)])
        if build == "string":
            attrs[:] = [kv for kv in attrs if kv[1] != [""]]
        if assign:
            r["assign"] = assign
    return feats, build


def bare_update(rng):
    """update_attributes whose values are bare strings (never the key ID: see the check's ASSUMPTIONS)."""
    upd = {}
    for k in rng.sample(["Parent", "Parent", "note", "extra", "exon_number"], rng.choice([1, 1, 2])):
        v = numeric_value(rng) if k == "exon_number" else rng.choice(PARENTS + WORDS)
        upd[k] = v if rng.random() < 0.8 else [v]
    if rng.random() < 0.2:
        upd["ID"] = [rng.choice(["newid", "i7"])]
    return upd


# (b) hierarchies in which a transcript has exon-typed descendants BELOW its own exons
NESTED_TYPES = ["miRNA", "miRNA", "polypeptide_region", "UTR_group"]


def nested_model(rng):
    """GFF3 records: gene -> transcript (primary_transcript / mRNA / ncRNA) -> exon, plus transcript -> nested feature
    (miRNA, ...) -> exon, sometimes one level deeper, sometimes a nested exon that also names the transcript as a second
    Parent.  The level-1 exon children of every feature have distinct starts.  Everything follows from the Parent values."""
    recs = []
    eid = 0
    for g in range(rng.choice([1, 1, 2])):
        gid = "g%d" % g
        seqid = rng.choice(SEQIDS)
        gstrand = rng.choice(STRANDS)
        offset = rng.choice([0, 0, 5000, 131000])
        recs.append({"seqid": seqid, "featuretype": "gene", "start": offset + 1, "end": offset + 3000, "strand": gstrand,
                     "attrs": [["ID", [gid]]]})
        for t in range(rng.choice([1, 1, 2])):
            tid = "%s.t%d" % (gid, t)
            mirna = rng.random() < 0.6
            ttype = "primary_transcript" if mirna else rng.choice(["mRNA", "mRNA", "ncRNA"])
            tstrand = rng.choice(STRANDS) if rng.random() < 0.3 else gstrand
            recs.append({"seqid": seqid, "featuretype": ttype, "start": offset + 1, "end": offset + 3000, "strand": tstrand,
                         "attrs": [["ID", [tid]], ["Parent", [gid]]]})
            block = []

            def exon(s, e, parents, j):
                attrs = [["ID", ["e%d" % eid]], ["Parent", list(parents)]]
                if rng.random() < 0.5:
                    attrs.append(["exon_number", [str(j + 1)]])
                return {"seqid": seqid, "featuretype": "exon", "start": s, "end": e,
                        "strand": tstrand if rng.random() < 0.9 else rng.choice(STRANDS), "attrs": attrs}

            nown = rng.choice([1, 1, 2, 2, 3, 4])
            if rng.random() < 0.5:
                # long exons, so that nested exons fit inside them (the two arms of a hairpin)
                own, s = [], offset + rng.randrange(1, 30)
                for _ in range(nown):
                    e = s + rng.choice([30, 60, 120])
                    own.append((s, e))
                    s = e + rng.choice([1, 2, 40, 200, 500])
            else:
                own = exon_intervals(rng, nown, offset)
            own_starts = set(s for s, _ in own)
            for j, (s, e) in enumerate(own):
                eid += 1
                block.append(exon(s, e, [tid], j))
            holders = [tid]
            for k in range(rng.choice([1, 1, 2, 2, 3])):
                nid = "%s.n%d" % (tid, k)
                ntype = "miRNA" if mirna else rng.choice(NESTED_TYPES)
                parent = tid if len(holders) == 1 or rng.random() < 0.8 else rng.choice(holders[1:])
                holders.append(nid)
                block.append({"seqid": seqid, "featuretype": ntype, "start": offset + 1, "end": offset + 3000,
                              "strand": tstrand, "attrs": [["ID", [nid]], ["Parent", [parent]]]})
                r = rng.random()
                if r < 0.5:                      # inside / around one own exon
                    s0, e0 = rng.choice(own)
                    base = s0 + rng.randrange(0, max(1, e0 - s0 + 1)) - 1
                elif r < 0.8:                    # anywhere over the transcript
                    base = own[0][0] + rng.randrange(0, max(1, own[-1][1] - own[0][0] + 5)) - 1
                else:
                    base = offset + rng.randrange(0, 40)
                ivs = exon_intervals(rng, rng.choice([1, 1, 2, 2, 3]), max(0, base - 15))
                for j, (s, e) in enumerate(ivs):
                    eid += 1
                    parents = [nid]
                    if parent == tid and rng.random() < 0.12 and s not in own_starts:
                        parents = [nid, tid] if rng.random() < 0.5 else [tid, nid]     # also an exon of the transcript itself
                        own_starts.add(s)
                    block.append(exon(s, e, parents, j))
            if rng.random() < 0.6:
                rng.shuffle(block)
            recs.extend(block)
    if rng.random() < 0.25:
        rng.shuffle(recs)
    return recs


def nested_options(rng, recs, call):
    opts = {"exon_featuretype": "exon", "numeric_sort": rng.random() < 0.5}
    if rng.random() < 0.5:
        opts["by"], opts["featuretype"] = "grandparent", "gene"
    else:
        types = sorted(set(r["featuretype"] for r in recs) - {"gene", "exon"})
        opts["by"], opts["featuretype"] = "parent", rng.choice(types)
    if call == "introns":
        opts["new_featuretype"] = rng.choice(["intron", "intron", "gap"])
        opts["merge_attributes"] = rng.random() < 0.8
    else:
        opts["merge_attributes"] = True
    return opts


# -- workload class added in round 5 --------------------------------------------------------------------------------------
# aliasing between the yielded features and the caller's arguments: the consumer edits every yielded feature in place
def alias_list(rng):
    """A feature_list of 3..8 features (so that mostly two and more gaps are yielded), every attrs entry a list."""
    for _ in range(12):
        feats = feature_list(rng)
        if len(feats) >= 3:
            break
    return feats


def alias_update(rng, feats):
    """update_attributes of the aliasing class: 1..3 entries; the non-ID keys (keys the neighbours carry, or new ones) hold
    lists of 1..3 values - several-valued in about 60% -, in 40% a one-valued ID comes on top."""
    present = []
    for r in feats:
        for k, _ in r["attrs"]:
            if k not in present and k != "ID":
                present.append(k)
    upd = {}
    for _ in range(rng.choice([1, 1, 2, 3])):
        if present and rng.random() < 0.5:
            k = rng.choice(present)
        else:
            k = rng.choice([x for x in ADDED_KEYS if x not in present])
        n = rng.choice([1, 2, 2, 3, 3])
        vals = [numeric_value(rng) for _ in range(n)] if k == "exon_number" else rng.sample(WORDS + ["u1", "u2", "3"], n)
        upd[k] = vals
    if rng.random() < 0.4:
        upd["ID"] = [rng.choice(["newid", "gap1", "7", "x-y"])]
    return upd


# -- workload classes added in round 6 --------------------------------------------------------------------------------------
# (a) transcripts whose exons lie on TWO OR MORE seqids with interleaved starts (trans-splicing, a model continued on another
#     scaffold): the exons are taken in START order, and a change of seqid between two start-neighbours makes no gap
SEQID_PATTERNS = ["ABA", "ABAB", "AABBAA", "ABBA", "ABCA", "AABAAB", "ABCABC", "AAB", "ABB", "ABABA", "ABAC"]


def multiseq_model(rng, fmt):
    """Records of 1..2 genes x 1..2 transcripts; the exons (distinct starts per transcript) of at least the first transcript
    are spread over 2..3 seqids following a pattern such as A B A / A A B B A A / random, so that start order and
    (seqid, start) order differ; other transcripts stay on one seqid in about half of the cases."""
    recs = []
    eid = 0
    first = True
    for g in range(rng.choice([1, 1, 2])):
        gid = "g%d" % g
        gstrand = rng.choice(STRANDS)
        offset = rng.choice([0, 0, 5000, 131000])
        home = rng.choice(SEQIDS)
        if fmt == "gff3":
            recs.append({"seqid": home, "featuretype": "gene", "start": offset + 1, "end": offset + 3000,
                         "strand": gstrand, "attrs": [["ID", [gid]]]})
        for t in range(rng.choice([1, 1, 2])):
            tid = "%s.t%d" % (gid, t)
            tstrand = rng.choice(STRANDS) if rng.random() < 0.3 else gstrand
            if fmt == "gff3":
                recs.append({"seqid": home, "featuretype": "mRNA", "start": offset + 1, "end": offset + 3000,
                             "strand": tstrand, "attrs": [["ID", [tid]], ["Parent", [gid]]]})
            spread = first or rng.random() < 0.5
            first = False
            others = [s for s in SEQIDS if s != home]
            rng.shuffle(others)
            names = {"A": home, "B": others[0], "C": others[1]}
            if not spread:
                nex = rng.choice([1, 2, 3, 4])
                seqs = [home] * nex
            elif rng.random() < 0.7:
                pat = rng.choice(SEQID_PATTERNS)
                nex = len(pat)
                seqs = [names[c] for c in pat]
            else:
                nex = rng.choice([3, 4, 5, 6])
                seqs = [rng.choice([home, home, others[0], others[1]]) for _ in range(nex)]
            ivs = exon_intervals(rng, nex, offset)
            if spread and rng.random() < 0.6:
                # mostly gaps, so that exons of one seqid have room between them
                ivs, s = [], offset + rng.randrange(1, 30)
                for _ in range(nex):
                    e = s + rng.choice([0, 1, 4, 10, 25])
                    ivs.append((s, e))
                    s = e + rng.choice([1, 2, 2, 3, 10, 40, 100])
            mixed = fmt == "gff3" and rng.random() < 0.15
            block = []
            for j, (s, e) in enumerate(ivs):
                eid += 1
                strand = rng.choice(STRANDS) if mixed else tstrand
                if fmt == "gff3":
                    attrs = [["ID", ["e%d" % eid]], ["Parent", [tid]]]
                else:
                    attrs = [["gene_id", [gid]], ["transcript_id", [tid]], ["ID", ["e%d" % eid]]]
                if rng.random() < 0.5:
                    attrs.append(["exon_number", [str(j + 1)]])
                if rng.random() < 0.2:
                    attrs.append(["note", values(rng, "word", rng.choice([1, 2]))])
                block.append({"seqid": seqs[j], "featuretype": "exon", "start": s, "end": e, "strand": strand, "attrs": attrs})
            rng.shuffle(block)
            recs.extend(block)
    if rng.random() < 0.25:
        rng.shuffle(recs)
    return recs


# (b) a key BOTH neighbours carry whose value is EMPTY on one (or both) of them: Note= / a bare flag in GFF3, tag ""; in GTF,
#     {key: []} on an object.  The union is the other neighbour's values.
EMPTY_KEYS = ["Note", "Dbxref", "tag", "partial"]


def empty_values_list(rng, unique_ids=False):
    """A feature_list of >= 2 features in which 1..2 keys are carried by (almost) every feature, with an EMPTY value list on
    about half of them (never on 'ID')."""
    while True:
        feats = feature_list(rng, unique_ids=unique_ids)
        if len(feats) >= 2:
            break
    for k in rng.sample(EMPTY_KEYS, rng.choice([1, 1, 2])):
        for r in feats:
            if rng.random() < 0.9:
                vals = [] if rng.random() < 0.5 else values(rng, rng.choice(["word", "word", "numeric"]))
                r["attrs"].insert(rng.randrange(len(r["attrs"]) + 1), [k, vals])
    return feats
