"""
Small gene-model annotations (genes -> transcripts -> exons/CDS) rendered as GFF3 or GTF text.
Used by the database-level checks that need realistic hierarchies (C19, C20).
"""


def models(rng, ngenes=None, prefix=""):
    genes = []
    pos = 1000
    for g in range(ngenes if ngenes is not None else rng.randrange(1, 5)):
        seqid = rng.choice(["chr1", "chr1", "chr2", "scaf_3"])
        strand = rng.choice(["+", "-"])
        gid = "%sG%d" % (prefix, g)
        txs = []
        gstart = pos
        for t in range(rng.randrange(1, 4)):
            tid = "%sT%d.%d" % (prefix, g, t)
            exons = []
            p = gstart + rng.randrange(0, 200)
            for e in range(rng.randrange(1, 6)):
                ln = rng.randrange(20, 300)
                exons.append((p, p + ln))
                p += ln + rng.randrange(1, 400)
            txs.append({"id": tid, "exons": exons, "cds": [ex for ex in exons if rng.random() < 0.6]})
        gend = max(e[1] for t in txs for e in t["exons"])
        genes.append({"id": gid, "seqid": seqid, "strand": strand, "start": min(e[0] for t in txs for e in t["exons"]),
                      "end": gend, "txs": txs})
        pos = gend + rng.randrange(100, 5000)
    return genes


def gff3(genes, shuffle_rng=None, shaped_ids=False, parts=False):
    """shaped_ids: exons are called exon_1, exon_2, ... (the shape gffutils itself generates);
    parts: every exon gets an 'exon_part' child, a fourth tier below gene > mRNA > exon."""
    lines = ["##gff-version 3"]
    body = []
    nex = 0
    for g in genes:
        body.append("%s\tsrc\tgene\t%d\t%d\t.\t%s\t.\tID=%s;Name=%s_name" % (g["seqid"], g["start"], g["end"], g["strand"], g["id"], g["id"]))
        for t in g["txs"]:
            ts, te = min(e[0] for e in t["exons"]), max(e[1] for e in t["exons"])
            body.append("%s\tsrc\tmRNA\t%d\t%d\t.\t%s\t.\tID=%s;Parent=%s" % (g["seqid"], ts, te, g["strand"], t["id"], g["id"]))
            for i, (s, e) in enumerate(t["exons"]):
                nex += 1
                eid = "exon_%d" % nex if shaped_ids else "%s.e%d" % (t["id"], i)
                body.append("%s\tsrc\texon\t%d\t%d\t.\t%s\t.\tID=%s;Parent=%s" % (g["seqid"], s, e, g["strand"], eid, t["id"]))
                if parts:
                    body.append("%s\tsrc\texon_part\t%d\t%d\t.\t%s\t.\tID=%s.p;Parent=%s" % (g["seqid"], s, min(e, s + 5), g["strand"], eid, eid))
            for i, (s, e) in enumerate(t["cds"]):
                body.append("%s\tsrc\tCDS\t%d\t%d\t.\t%s\t0\tID=%s.c%d;Parent=%s" % (g["seqid"], s, e, g["strand"], t["id"], i, t["id"]))
    if shuffle_rng is not None:
        shuffle_rng.shuffle(body)
    return "\n".join(lines + body) + "\n"


def gtf(genes, shuffle_rng=None):
    body = []
    for g in genes:
        for t in g["txs"]:
            for i, (s, e) in enumerate(t["exons"]):
                body.append('%s\tsrc\texon\t%d\t%d\t.\t%s\t.\tgene_id "%s"; transcript_id "%s"; exon_number "%d";' % (
                    g["seqid"], s, e, g["strand"], g["id"], t["id"], i + 1))
            for i, (s, e) in enumerate(t["cds"]):
                body.append('%s\tsrc\tCDS\t%d\t%d\t.\t%s\t0\tgene_id "%s"; transcript_id "%s";' % (
                    g["seqid"], s, e, g["strand"], g["id"], t["id"]))
    if shuffle_rng is not None:
        shuffle_rng.shuffle(body)
    return "\n".join(body) + "\n"
