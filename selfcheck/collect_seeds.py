#!/venv/bin/python
"""
Collects the breaking changes written by the independent sub-agents (in /tmp/seed_<ID>/out/<n>/), CONFIRMS each one in a
fresh scratch copy of /repo's working tree (patch applies; the repository's test suite still reports 74 passed with the
same 2 failures + 1 collection error; the demonstration exits 0 without the patch and non-zero with it) and, only then,
keeps it as /verif/seeded/<ID>-<n>/ {patch.diff, demo.py, meta.json}.    usage: collect_seeds.py [IDs...]
"""
import json, os, re, shutil, subprocess, sys, tempfile

VERIF = os.path.dirname(os.path.dirname(os.path.abspath(__file__)))
SEEDED = os.path.join(VERIF, "seeded")


def scratch():
    root = tempfile.mkdtemp(prefix="gvconfirm-", dir="/tmp")
    subprocess.check_call(["rsync", "-a", "--exclude", ".git", "--exclude", "*.db", "--exclude", "__pycache__", "/repo/", root + "/"])
    return root


def tests(root):
    env = dict(os.environ, PYTHONPATH=root, PYTHONDONTWRITEBYTECODE="1")
    p = subprocess.run(["/venv/bin/python", "-m", "pytest", "-q", "-p", "no:cacheprovider", "--timeout=900",
                        "--continue-on-collection-errors"], cwd=root, env=env, stdout=subprocess.PIPE,
                       stderr=subprocess.STDOUT, text=True, timeout=1200)
    tail = p.stdout.strip().splitlines()[-1] if p.stdout.strip() else ""
    m = re.search(r"(\d+) failed, (\d+) passed.*?(\d+) error", tail)
    ok = bool(m) and m.group(1) == "2" and m.group(2) == "74" and m.group(3) == "1"
    return ok, tail


def demo(root, path):
    env = dict(os.environ, PYTHONPATH=root, PYTHONDONTWRITEBYTECODE="1", PYTHONUTF8="1")
    try:
        p = subprocess.run(["/venv/bin/python", path], cwd=root, env=env, stdout=subprocess.PIPE, stderr=subprocess.STDOUT,
                           text=True, timeout=600)
        return p.returncode
    except subprocess.TimeoutExpired:
        return "timeout"


def main():
    args = sys.argv[1:]
    prefix, tag = "/tmp/seed_", ""
    if args and args[0] == "--round2":
        prefix, tag = "/tmp/seed2_", "r2-"
        args = args[1:]
    elif args and args[0].startswith("--round") and args[0][7:].isdigit():
        prefix, tag = "/tmp/seed%s_" % args[0][7:], "r%s-" % args[0][7:]
        args = args[1:]
    ids = args or ["C%02d" % i for i in range(1, 21)]
    os.makedirs(SEEDED, exist_ok=True)
    for pid in ids:
        out = "%s%s/out" % (prefix, pid)
        if not os.path.isdir(out):
            print("%s: no output directory yet" % pid)
            continue
        for n in sorted(os.listdir(out)):
            src = os.path.join(out, n)
            if not n.isdigit():
                continue
            name = "%s-%s%s" % (pid, tag, n)
            dst = os.path.join(SEEDED, name)
            if os.path.exists(os.path.join(dst, "meta.json")):
                continue
            need = [os.path.join(src, f) for f in ("patch.diff", "demo.py", "notes.json")]
            if not all(os.path.exists(f) for f in need):
                print("%s: incomplete (%s)" % (name, os.listdir(src)))
                continue
            # a demonstration may assert that gffutils is imported from its author's worktree: neutralise that line
            # (the copy under test here lives elsewhere); nothing else of the demo is touched
            src_demo = open(need[1], encoding="utf-8").read().splitlines(True)
            fixed = []
            for ln in src_demo:
                if "/tmp/seed_" in ln and ln.lstrip().startswith("assert"):
                    fixed.append(ln[:len(ln) - len(ln.lstrip())] + "pass  # (worktree path assertion removed when collected)\n")
                else:
                    fixed.append(ln)
            tmpdemo = os.path.join(tempfile.mkdtemp(prefix="gvdemo-", dir="/tmp"), "demo.py")
            open(tmpdemo, "w", encoding="utf-8").write("".join(fixed))
            need[1] = tmpdemo
            clean, patched = scratch(), scratch()
            try:
                a = subprocess.run(["git", "apply", "--whitespace=nowarn", need[0]], cwd=patched, stdout=subprocess.PIPE,
                                   stderr=subprocess.STDOUT, text=True)
                if a.returncode != 0:
                    print("%s: REJECTED patch does not apply: %s" % (name, a.stdout[-200:]))
                    continue
                ok, tail = tests(patched)
                d0, d1 = demo(clean, need[1]), demo(patched, need[1])
                confirmed = ok and d0 == 0 and d1 not in (0, "timeout")
                print("%s: tests_ok=%s (%s) demo clean/patched=%s/%s -> %s" % (name, ok, tail[-60:], d0, d1, "KEPT" if confirmed else "REJECTED"))
                if not confirmed:
                    continue
                os.makedirs(dst, exist_ok=True)
                shutil.copy(need[0], os.path.join(dst, "patch.diff"))
                shutil.copy(need[1], os.path.join(dst, "demo.py"))
                notes = json.load(open(need[2]))
                meta = {"property": pid, "checks": [pid], "demo": "demo.py",
                        "summary": notes.get("summary"), "breaks": notes.get("breaks"), "needs": notes.get("needs"),
                        "files": notes.get("files"),
                        "written_by": "independent sub-agent given only the property text and a scratch worktree",
                        "confirmed": {"how": "selfcheck/collect_seeds.py: fresh rsync copy of /repo (no .git); git apply; "
                                             "pytest baseline command; demo with and without the patch",
                                      "repo_tests_with_patch": tail, "demo_exit_without_patch": d0, "demo_exit_with_patch": d1}}
                json.dump(meta, open(os.path.join(dst, "meta.json"), "w"), indent=1)
            finally:
                shutil.rmtree(clean, ignore_errors=True)
                shutil.rmtree(patched, ignore_errors=True)
                shutil.rmtree(os.path.dirname(tmpdemo), ignore_errors=True)


if __name__ == "__main__":
    main()
