#!/venv/bin/python
"""
Runs the checks against the independently written breaking changes kept under /verif/seeded/<id>/
(patch.diff, demo, meta.json).  Each patch is applied to a scratch copy of the package (never to /repo), the
demonstration is run with and without it, then the owning checks run against the patched copy via GFFUTILS_REPO.
Result -> seeded/results.json.     usage: seeded.py [-k substr[,substr..]] [--tier quick] [--out file] [--merge parts..]
"""
import argparse, json, os, shutil, subprocess, sys, tempfile, time

HERE = os.path.dirname(os.path.abspath(__file__))
VERIF = os.path.dirname(HERE)
SEEDED = os.path.join(VERIF, "seeded")
REPO = "/repo"


def copy_repo(root):
    shutil.copytree(os.path.join(REPO, "gffutils"), os.path.join(root, "gffutils"),
                    ignore=shutil.ignore_patterns("__pycache__", "*.db"))


def run_demo(root, sdir, meta):
    demo = meta.get("demo")
    if not demo:
        return None
    cmd = meta.get("demo_cmd") or ["/venv/bin/python", os.path.join(sdir, demo)]
    if isinstance(cmd, str):
        cmd = cmd.replace("{demo}", os.path.join(sdir, demo)).split()
    # demos of broken trees may leave temp files behind: give them a temp directory that goes away with the scratch copy
    tmpd = os.path.join(root, "_demo_tmp")
    os.makedirs(tmpd, exist_ok=True)
    env = dict(os.environ, PYTHONPATH=root, PYTHONDONTWRITEBYTECODE="1", PYTHONUTF8="1", TMPDIR=tmpd)
    try:
        p = subprocess.run(cmd, cwd=root, env=env, stdout=subprocess.PIPE, stderr=subprocess.STDOUT, text=True, timeout=600)
        return p.returncode
    except subprocess.TimeoutExpired:
        return "timeout"


def main():
    ap = argparse.ArgumentParser()
    ap.add_argument("-k", default="")
    ap.add_argument("--tier", default="quick")
    ap.add_argument("--out", default=os.path.join(SEEDED, "results.json"),
                    help="result file (several runs in parallel write to files of their own: see --merge)")
    ap.add_argument("--merge", nargs="*", help="merge these partial result files into --out and exit")
    a = ap.parse_args()
    out_path = a.out
    results = json.load(open(out_path)) if os.path.exists(out_path) else {}
    if a.merge is not None:
        for part in a.merge:
            results.update(json.load(open(part)))
        json.dump(results, open(out_path, "w"), indent=1, sort_keys=True)
        print("merged %d files -> %s (%d entries)" % (len(a.merge), out_path, len(results)))
        return
    wanted = [k for k in a.k.split(",") if k]
    for name in sorted(os.listdir(SEEDED)):
        sdir = os.path.join(SEEDED, name)
        if not os.path.isdir(sdir) or (wanted and not any(k in name for k in wanted)):
            continue
        meta = json.load(open(os.path.join(sdir, "meta.json")))
        entry = {"property": meta["property"], "needs": meta.get("needs")}
        clean = tempfile.mkdtemp(prefix="gvseed-clean-", dir="/tmp")
        root = tempfile.mkdtemp(prefix="gvseed-", dir="/tmp")
        try:
            copy_repo(clean)
            copy_repo(root)
            p = subprocess.run(["git", "apply", "--whitespace=nowarn", os.path.join(sdir, "patch.diff")], cwd=root,
                               stdout=subprocess.PIPE, stderr=subprocess.STDOUT, text=True)
            if p.returncode != 0:
                entry["status"] = "patch does not apply: " + p.stdout[-300:]
                results[name] = entry
                print("%-28s PATCH DOES NOT APPLY" % name)
                continue
            entry["demo_exit_without_patch"] = run_demo(clean, sdir, meta)
            entry["demo_exit_with_patch"] = run_demo(root, sdir, meta)
            checks = {}
            for pid in meta.get("checks") or [meta["property"]]:
                t0 = time.time()
                env = dict(os.environ, GFFUTILS_REPO=root, VERIF_EVIDENCE_DIR=os.path.join(root, "evidence"))
                p = subprocess.run([os.path.join(VERIF, "bin", "check"), pid, "--tier", a.tier], env=env,
                                   stdout=subprocess.PIPE, stderr=subprocess.STDOUT, text=True)
                viol = [l for l in p.stdout.splitlines() if l.startswith("VIOLATION")]
                checks[pid] = {"exit": p.returncode, "violation_lines": len(viol), "caught": p.returncode == 1 and bool(viol),
                               "tier": a.tier, "wall_s": round(time.time() - t0, 1)}
            entry["checks"] = checks
            results[name] = entry
            print("%-28s demo(clean/patched)=%s/%s  %s" % (name, entry["demo_exit_without_patch"], entry["demo_exit_with_patch"],
                  " ".join("%s:%s" % (k, "CAUGHT" if v["caught"] else "missed(exit %d)" % v["exit"]) for k, v in checks.items())))
            sys.stdout.flush()
        finally:
            shutil.rmtree(root, ignore_errors=True)
            shutil.rmtree(clean, ignore_errors=True)
        json.dump(results, open(out_path, "w"), indent=1, sort_keys=True)


if __name__ == "__main__":
    main()
