#!/venv/bin/python
"""Writes section 10 of DESIGN.md (between the markers) from selfcheck/matrix.json and seeded/results.json."""
import json, os, re
HERE = os.path.dirname(os.path.abspath(__file__))
VERIF = os.path.dirname(HERE)
B, E = "<!-- SELFCHECK-TABLES-BEGIN -->", "<!-- SELFCHECK-TABLES-END -->"


def main():
    matrix = json.load(open(os.path.join(HERE, "matrix.json")))
    muts = {m["id"]: m for m in json.load(open(os.path.join(HERE, "mutants.json")))}
    seeded = json.load(open(os.path.join(VERIF, "seeded", "results.json")))
    out = [B, "", "### 10.1 Mutation campaign (`selfcheck/matrix.json`)", "",
           "`tests` = does the repository's own suite (74 tests) still pass on the mutated copy (yes = realistic by the brief's standard).",
           "", "| mutant | what | tests | caught by | missed by |", "|---|---|---|---|---|"]
    n = caught = 0
    for mid in [m for m in muts if m in matrix]:
        e = matrix[mid]
        if "checks" not in e:
            continue
        c = [k for k, v in e["checks"].items() if v["caught"]]
        ms = ["%s (exit %s)" % (k, v["exit"]) for k, v in e["checks"].items() if not v["caught"]]
        n += 1
        caught += bool(c)
        out.append("| %s | %s | %s | %s | %s |" % (mid, muts[mid]["what"], {True: "pass", False: "fail", None: "-"}[e.get("repo_tests_pass")],
                                                  ", ".join(c) or "-", ", ".join(ms) or "-"))
    out += ["", "%d of %d mutants are caught by at least one owning check in the quick tier." % (caught, n), ""]
    out += ["### 10.2 Independently seeded changes (`seeded/results.json`)", "",
            "Each change was written by a sub-agent that saw only the property text, confirmed by `selfcheck/collect_seeds.py` "
            "(patch applies, 74 tests still pass, demo exits 0 without and non-zero with the patch) and kept under `seeded/<id>/`.",
            "", "| change | needs (abridged) | caught by | missed by |", "|---|---|---|---|"]
    n = caught = 0
    for name in sorted(seeded):
        e = seeded[name]
        if "checks" not in e:
            continue
        meta = json.load(open(os.path.join(VERIF, "seeded", name, "meta.json")))
        c = ["%s%s" % (k, " (thorough tier)" if v.get("tier") == "thorough" else "") for k, v in e["checks"].items() if v["caught"]]
        ms = ["%s (exit %s)" % (k, v["exit"]) for k, v in e["checks"].items() if not v["caught"]]
        if meta.get("outside_statement") and not c:
            ms = ["not claimed: " + meta["outside_statement"][:110].replace("|", "/")]
        n += 1
        caught += bool(c)
        needs = re.sub(r"\s+", " ", str(meta.get("summary") or meta.get("needs") or ""))[:150].replace("|", "/")
        out.append("| %s | %s | %s | %s |" % (name, needs, ", ".join(c) or "-", ", ".join(ms) or "-"))
    out += ["", "%d of %d seeded changes are caught by at least one listed check (quick tier unless marked); the others are the changes recorded as outside the statements." % (caught, n), ""]
    out += ["### 10.3 What the quick tier observed on the unchanged tree (from `evidence/*.json` at the time of writing)", "",
            "| check | evaluations | distinct non-trivial | wall s | shards | deciding monitors (count) |", "|---|---|---|---|---|---|"]
    import glob
    import importlib, sys
    sys.path[:0] = [VERIF, os.path.join(VERIF, ".deps"), "/repo"]
    for f in sorted(glob.glob(os.path.join(VERIF, "evidence", "C*.json"))):
        ev = json.load(open(f))
        c = ev["coverage"]
        try:
            req = importlib.import_module("gvmon.checks.%s" % ev["property_id"]).REQUIRED
        except Exception:
            req = list(c.get("monitors", {}))[:6]
        mons = "; ".join("%s=%s" % (k, c["monitors"].get(k)) for k in req[:7])
        out.append("| %s (%s) | %d | %d | %.0f | %s | %s |" % (ev["property_id"], ev["tier"], c["evaluations"], c["distinct_nontrivial"],
                                                             ev["wall_s"], c.get("shards"), mons.replace("|", "/")))
    out += ["", E]
    p = os.path.join(VERIF, "DESIGN.md")
    s = open(p).read()
    block = "\n".join(out)
    if B in s:
        s = s[:s.index(B)] + block + s[s.index(E) + len(E):]
    else:
        s += "\n--------------------------------------------------------------------------\n\n## 10. Self-check tables\n\n" + block + "\n"
    open(p, "w").write(s)
    print("section 10 written")


if __name__ == "__main__":
    main()
