"""
Writes the prompts given to the independent sub-agents that author seeded breaking changes (one per property).
    python selfcheck/mkseedprompts.py <round> <outdir> [ids...]
Each prompt contains only the property text, the location of the agent's own scratch worktree (/tmp/seed<round>_<id>) and
one-line summaries of the changes of earlier rounds (so that a new round looks elsewhere).  Nothing from /verif's checks.
"""
import glob
import json
import os
import sys

BASE = '''You are a careful software engineer helping to evaluate a verification effort by writing realistic *breaking changes* ("seeded defects") for the Python library daler/gffutils. You work ONLY inside your own scratch git worktree of the repository: {wt} (a detached checkout; the package is {wt}/gffutils). Never read or write anything under /verif or /repo, and do not look for other people's checks: your work must be independent. Do not use the network. Do NOT use `git stash` (the stash is shared between worktrees): to go back to the clean tree use `git -C {wt} diff -- gffutils > /some/file` and `git -C {wt} checkout -- gffutils`.

The property your changes must break (this text is all you are given about it):

TITLE: {title}

STATEMENT: {statement}

QUANTIFIED OVER: {quant}

WHY THE EXISTING TESTS CANNOT SETTLE IT: {why}

WHERE IT LIVES IN THE CODE (anchors): {anchors}

This is round {rnd}. These changes were already produced for this property in earlier rounds - yours must use DIFFERENT mechanisms and DIFFERENT triggers (do not re-create any of them, nor variations):
{already}

The verification effort you are up against compares the real code with independent reference models on many thousands of generated inputs, including boundary values, rare-but-legal inputs (non-ASCII keys, empty list items, huge coordinates, escape-looking text), large inputs beyond internal thresholds, unusual documented argument forms, state carried on one object between calls (observe-edit-observe), long-lived second handles, interleaved generators, multi-step histories with reopen, injected failures at function entries, concurrent processes (spawned and forked, also from a parent that already used the library) and statement-level schedules, process history (earlier failed imports, global switches toggled and restored by somebody else in the same process), gzip/CRLF/symlinked inputs, aliased list objects, dict subclasses, transient database locks, features with start > end, very large query answers, verbose/debug argument values, URL inputs, bare-CR line ends, sqlite pragmas, keys of other types, value and collection subclasses, handles with a write history, abandoned generators, per-process hash seeds, termination of parsing under a CPU bound, caller-edited dialect and Feature objects, failing one-shot sources, look-ahead windows above 1000, warning filters set to error, importers with the garbage collector off, journal mode and side files of existing databases. Find what it could STILL overlook. Good hunting grounds: (1) two cooperating sites that each look fine alone (a writer and a reader that disagree only for particular data); (2) behaviour that depends on an interaction of two or three options/arguments at particular values; (3) data-dependent paths inside SQL (NULLs, type affinity, collation, integer vs text comparison, LIKE/GLOB, rowid reuse); (4) Python semantics traps (mutable default arguments, shared class attributes, generators evaluated late, dict/set ordering, integer/str coercion, truthiness of 0/''/empty containers, caching keyed too coarsely); (5) unicode/normalisation/case; (6) error paths (what state is left behind when something raises half-way); (7) environment (locale, cwd, read-only files, path types such as pathlib.Path or bytes, symlinks, existing files). The change must still be a plausible slip or "optimisation/cleanup" a real contributor could make, and it must violate the STATED property (not merely some other expectation).

Your task: produce TWO different, independent changes to the gffutils source (each a small patch to files under {wt}/gffutils, not to tests) such that, for each change taken alone:
 1. the package still imports and the existing test suite still passes exactly as before: run `cd {wt} && PYTHONPATH={wt} /venv/bin/python -m pytest -q -p no:cacheprovider --timeout=900 --continue-on-collection-errors` - on the unchanged tree it reports 74 passed, 2 failed (test_biopython_integration::test_roundtrip, test_cli::test_issue_224) and 1 collection error (test_1.py); with your change the result must be the same (check that `python -c "import gffutils; print(gffutils.__file__)"` under that PYTHONPATH points into {wt});
 2. the property above is violated for some input / configuration / history / schedule, observable through the public API;
 3. the violation needs something SPECIFIC to manifest, NOT something ordinary use would expose at once;
 4. you provide a demonstration: a standalone Python script that exits 0 on the unchanged tree and exits non-zero (assertion failure) with the change applied. It is run as `cd <repo root> && PYTHONPATH=<repo root> PYTHONUTF8=1 /venv/bin/python demo.py` where <repo root> may be a COPY of the tree at another path (do not hard-code or assert {wt} inside the demo). It must create any files it needs in a temporary directory and clean up, and finish within a minute.

Procedure for each change n = 1, 2: edit the source in the worktree; run the test suite (step 1) and your demo; then save into {wt}/out/n/ : `patch.diff` (output of `git -C {wt} diff -- gffutils`, so that it applies with `git apply` at the repository root), `demo.py`, and `notes.json` with keys: "summary" (one sentence: what was changed), "breaks" (how the property is violated), "needs" (what specific input/sequence/config is needed for it to manifest, and why ordinary use or the existing tests do not hit it), "files" (list of changed files). Then revert the worktree (`git -C {wt} checkout -- gffutils`) and verify the demo passes again (exit 0) on the clean tree before starting the next change. Remove stray files the test suite leaves behind (tmp.db, issue_213.db, gffutils/test/data/dm6-chr2L.fa.fai). Do not commit anything.

Report back briefly (under 20 lines): for each change its summary, what it needs to manifest, and confirmation that tests = 74 passed and the demo exit codes with/without the change.'''


def main():
    rnd, outdir = sys.argv[1], sys.argv[2]
    ids = sys.argv[3:]
    here = os.path.dirname(os.path.dirname(os.path.abspath(__file__)))
    os.makedirs(outdir, exist_ok=True)
    for l in open(os.path.join(here, "properties.jsonl")):
        p = json.loads(l)
        if ids and p["id"] not in ids:
            continue
        wt = "/tmp/seed%s_%s" % (rnd, p["id"])
        anchors = "; ".join("%s (%s)" % (m["name"], m["where"]) for m in p["anchors"]["mechanism"])
        already = []
        for d in sorted(glob.glob(os.path.join(here, "seeded", "%s-*" % p["id"], "meta.json"))):
            m = json.load(open(d))
            already.append(" - %s" % (str(m.get("summary")).strip()[:260]))
        open(os.path.join(outdir, "%s.txt" % p["id"]), "w").write(BASE.format(
            wt=wt, rnd=rnd, title=p["title"], statement=p["statement"], quant=p["quantifier"]["text"], why=p["why_tests_cant"],
            anchors=anchors, already="\n".join(already)))
    print(len(os.listdir(outdir)))


if __name__ == "__main__":
    main()
